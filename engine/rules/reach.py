"""Flow-sensitive helpers over one MIR body: reaching definitions of a local, must-pass-through,
and a small "value sources" walk that follows multi-definition locals through their reaching
definitions (the single-definition Prov stops at them)."""
import sym
from facts import op_local


class ReachingDefs:
    """definitions are the entries of body.defs()[local]; whole-local assigns/calls kill, partial
    writes only generate. `entry` (None) stands for the value on function entry (parameter or
    uninitialised)."""

    def __init__(self, body, local):
        self.b = body
        self.local = local
        self.defs = list(body.defs().get(local, []))
        self.by_bb = {}
        for i, d in enumerate(self.defs):
            self.by_bb.setdefault(d[0], []).append((d[1], i, d[2]))
        for k in self.by_bb:
            self.by_bb[k].sort(key=lambda x: (10 ** 9 if x[0] == "t" else x[0]))
        self.inn = None

    def _transfer(self, bb, s):
        for idx, i, kind in self.by_bb.get(bb, []):
            if kind in ("assign", "call"):
                s = {i}
            else:
                s = s | {i}
        return s

    def solve(self):
        if self.inn is not None:
            return
        b = self.b
        inn = {0: {None}}
        work = [0]
        while work:
            bb = work.pop()
            out = self._transfer(bb, set(inn.get(bb, set())))
            for s in b.succs(bb):
                cur = inn.get(s)
                if cur is None:
                    inn[s] = set(out)
                    work.append(s)
                elif not out <= cur:
                    cur |= out
                    work.append(s)
        self.inn = inn

    def at(self, bb, idx):
        """definitions reaching the point just before statement idx ('t' = the terminator) of bb"""
        self.solve()
        s = set(self.inn.get(bb, set()))
        lim = 10 ** 9 if idx == "t" else idx
        for sidx, i, kind in self.by_bb.get(bb, []):
            pos = 10 ** 9 if sidx == "t" else sidx
            if pos >= lim:
                break
            if kind in ("assign", "call"):
                s = {i}
            else:
                s = s | {i}
        return [(None if i is None else self.defs[i]) for i in s]


def def_term(body, prov, d):
    """symbolic term of one definition tuple (bb, idx, kind, item)"""
    bb, idx, kind, item = d
    if kind == "assign":
        return prov.rvalue(item["rv"])
    if kind == "call":
        c = item["callee"]
        name = c.get("rpath") or c.get("path") or "<indirect>"
        return ("call", name, tuple(prov.op(a) for a in item["args"]), bb, c.get("path"), item["dest"].get("ty"))
    return ("?", "partial")


def use_point(body, local_holder):
    """(bb, idx) where single-definition temp `local_holder` is assigned (the point at which the
    value it copies was read)"""
    d = body.single_def(local_holder)
    if d is None:
        return None
    return d[0], d[1]


def sources(body, prov, term, at, depth=0, seen=None):
    """expand ('local', l, ..) leaves of `term` (multi-definition locals) into the terms of the
    definitions that reach program point `at` = (bb, idx). Returns a list of alternative terms
    (only the top-level term is expanded, value-preserving wrappers are stripped)."""
    seen = seen or set()
    t = sym.strip(term)
    if t[0] != "local" or depth > 6:
        return [t]
    l = t[1]
    if (l, at) in seen:
        return []
    seen = seen | {(l, at)}
    rd = ReachingDefs(body, l)
    out = []
    for d in rd.at(at[0], at[1]):
        if d is None:
            out.append(("entry", l))
            continue
        dt = sym.strip(def_term(body, prov, d))
        if dt[0] == "local":
            out.extend(sources(body, prov, dt, (d[0], d[1]), depth + 1, seen))
        else:
            out.append((dt, d))
    return out


def must_pass(body, start, targets, through):
    """every path from block `start` to any block in `targets` enters a block in `through`"""
    seen = body.reach_from(start, avoid=frozenset(through))
    return not (seen & set(targets))


def blocks_calling(body, *suffixes):
    from facts import callee_is
    return [bi for bi, t in body.calls() if callee_is(t, *suffixes)]
