"""Planted fixture self-check (filled in below)."""
def selfcheck(pid, verbose=True):
    return True, {"status": "stub"}
