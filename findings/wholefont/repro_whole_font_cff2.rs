// whole_font on a CFF2 font must write the 'OTTO' sfnt version: "OpenType fonts containing CFF data (version 1 or 2) should
// use 0x4F54544F ('OTTO', when re-interpreted as a Tag) as the sfntVersion value" (OpenType, The OpenType Font File, table directory).
use allsorts::binary::read::ReadScope;
use allsorts::font_data::FontData;
use allsorts::subset::whole_font;
use allsorts::tables::FontTableProvider;
use allsorts::tag;

#[test]
fn whole_font_of_cff2_font_is_otto() {
    let data = std::fs::read("tests/fonts/opentype/cff2/SourceSansVariable-Roman.abc.otf").unwrap();
    let font = ReadScope::new(&data).read::<FontData<'_>>().unwrap();
    let provider = font.table_provider(0).unwrap();
    let tags = provider.table_tags().unwrap();
    assert!(tags.contains(&tag::CFF2) && !tags.contains(&tag::GLYF));
    let out = whole_font(&provider, &tags).unwrap();
    assert_eq!(&out[0..4], b"OTTO", "sfnt version of a font with CFF2 outlines");
    // the source says OTTO too
    assert_eq!(&data[0..4], b"OTTO");
}
