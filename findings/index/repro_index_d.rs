// Reproduction: CFF::subset on a CFF table whose Name INDEX is empty (it parses with no fonts).
use allsorts::binary::read::ReadScope;
use allsorts::cff::CFF;

#[test]
fn cff_subset_with_zero_fonts_is_an_error() {
    // header: major=1 minor=0 hdrSize=4 offSize=1; Name, Top DICT, String and Global Subr INDEX all empty
    let data: [u8; 12] = [1, 0, 4, 1, 0, 0, 0, 0, 0, 0, 0, 0];
    let cff = ReadScope::new(&data).read::<CFF<'_>>().unwrap();
    assert!(cff.fonts.is_empty());
    assert!(cff.subset(&[0], false).is_err());
}
