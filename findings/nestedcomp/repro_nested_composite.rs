// Reproduction: outlines of nested composite glyphs.
//
// A composite glyph places each of its components with an offset and an optional scale. When a
// component is itself a composite glyph the placements have to compose: a point `p` of the
// innermost simple glyph C, used by composite B, which in turn is used by composite A, ends up at
//
//     T_B_in_A(T_C_in_B(p))
//
// where, with the (default, unscaled) offset convention used by `glyf/outline.rs`, each placement
// is `T(p) = scale * p + offset`. Spelled out for two levels:
//
//     p -> parent_scale * (child_scale * p + child_offset) + parent_offset
//
// The glyf and loca tables below are assembled by hand and only the public API is used to read
// them and to collect the outline.

use allsorts::binary::read::ReadScope;
use allsorts::outline::{OutlineBuilder, OutlineSink};
use allsorts::pathfinder_geometry::line_segment::LineSegment2F;
use allsorts::pathfinder_geometry::vector::Vector2F;
use allsorts::tables::glyf::GlyfTable;
use allsorts::tables::loca::LocaTable;
use allsorts::tables::IndexToLocFormat;

#[derive(Default)]
struct Recorder {
    commands: Vec<String>,
}

impl OutlineSink for Recorder {
    fn move_to(&mut self, to: Vector2F) {
        self.commands.push(format!("M {} {}", to.x(), to.y()));
    }

    fn line_to(&mut self, to: Vector2F) {
        self.commands.push(format!("L {} {}", to.x(), to.y()));
    }

    fn quadratic_curve_to(&mut self, ctrl: Vector2F, to: Vector2F) {
        self.commands
            .push(format!("Q {} {} {} {}", ctrl.x(), ctrl.y(), to.x(), to.y()));
    }

    fn cubic_curve_to(&mut self, ctrl: LineSegment2F, to: Vector2F) {
        self.commands.push(format!(
            "C {} {} {} {} {} {}",
            ctrl.from_x(),
            ctrl.from_y(),
            ctrl.to_x(),
            ctrl.to_y(),
            to.x(),
            to.y()
        ));
    }

    fn close(&mut self) {
        self.commands.push("Z".to_string());
    }
}

// Simple glyph: one contour, three on-curve points (0,0) (100,0) (50,100).
#[rustfmt::skip]
const TRIANGLE: &[u8] = &[
    0x00, 0x01,             // numberOfContours
    0x00, 0x00, 0x00, 0x00, // xMin, yMin
    0x00, 0x64, 0x00, 0x64, // xMax, yMax
    0x00, 0x02,             // endPtsOfContours
    0x00, 0x00,             // instructionLength
    0x31,                   // pt 0: on curve | x same | y same
    0x33,                   // pt 1: on curve | x short, positive | y same
    0x27,                   // pt 2: on curve | x short, negative | y short, positive
    0x64, 0x32,             // x deltas: +100, -50
    0x64,                   // y deltas: +100
];

const ARG_1_AND_2_ARE_WORDS: u16 = 0x0001;
const ARGS_ARE_XY_VALUES: u16 = 0x0002;
const WE_HAVE_A_SCALE: u16 = 0x0008;
const MORE_COMPONENTS: u16 = 0x0020;

struct Component {
    glyph_index: u16,
    dx: i16,
    dy: i16,
    /// Uniform scale as a raw F2Dot14 value, 0x4000 is 1.0
    scale: Option<i16>,
}

fn component(glyph_index: u16, dx: i16, dy: i16) -> Component {
    Component {
        glyph_index,
        dx,
        dy,
        scale: None,
    }
}

fn scaled_component(glyph_index: u16, dx: i16, dy: i16, scale: i16) -> Component {
    Component {
        glyph_index,
        dx,
        dy,
        scale: Some(scale),
    }
}

// Composite glyph description. The bounding box is not used when visiting the outline so it is
// left as zeros.
fn composite(components: &[Component]) -> Vec<u8> {
    let mut data = Vec::new();
    data.extend_from_slice(&(-1i16).to_be_bytes()); // numberOfContours
    data.extend_from_slice(&[0; 8]); // xMin, yMin, xMax, yMax
    for (i, component) in components.iter().enumerate() {
        let mut flags = ARG_1_AND_2_ARE_WORDS | ARGS_ARE_XY_VALUES;
        if component.scale.is_some() {
            flags |= WE_HAVE_A_SCALE;
        }
        if i + 1 < components.len() {
            flags |= MORE_COMPONENTS;
        }
        data.extend_from_slice(&flags.to_be_bytes());
        data.extend_from_slice(&component.glyph_index.to_be_bytes());
        data.extend_from_slice(&component.dx.to_be_bytes());
        data.extend_from_slice(&component.dy.to_be_bytes());
        if let Some(scale) = component.scale {
            data.extend_from_slice(&scale.to_be_bytes());
        }
    }
    data
}

const HALF: i16 = 0x2000; // 0.5 as F2Dot14
const ONE_AND_A_HALF: i16 = 0x6000; // 1.5 as F2Dot14

/// Returns (glyf, loca) with a long format loca.
fn build_tables() -> (Vec<u8>, Vec<u8>) {
    let glyphs: Vec<Vec<u8>> = vec![
        // 0: .notdef, empty
        Vec::new(),
        // 1: glyph 2 moved up by 50
        composite(&[component(2, 0, 50)]),
        // 2: glyph 3 moved right by 100 (control: not nested)
        composite(&[component(3, 100, 0)]),
        // 3: the triangle
        TRIANGLE.to_vec(),
        // 4: glyph 2 scaled to a half and moved up by 50
        composite(&[scaled_component(2, 0, 50, HALF)]),
        // 5: glyph 3 scaled to a half and moved by (10, 20) (control: not nested)
        composite(&[scaled_component(3, 10, 20, HALF)]),
        // 6: glyph 5 scaled by 1.5 and moved up by 50
        composite(&[scaled_component(5, 0, 50, ONE_AND_A_HALF)]),
        // 7: glyph 2 moved up by 50 followed by glyph 3 moved by (-20, -30)
        composite(&[component(2, 0, 50), component(3, -20, -30)]),
    ];

    let mut glyf = Vec::new();
    let mut loca = Vec::new();
    for glyph in &glyphs {
        loca.extend_from_slice(&(glyf.len() as u32).to_be_bytes());
        glyf.extend_from_slice(glyph);
        while glyf.len() % 4 != 0 {
            glyf.push(0);
        }
    }
    loca.extend_from_slice(&(glyf.len() as u32).to_be_bytes());
    (glyf, loca)
}

const NUM_GLYPHS: usize = 8;

fn outline(glyph_index: u16) -> Vec<String> {
    let (glyf_data, loca_data) = build_tables();
    let loca = ReadScope::new(&loca_data)
        .read_dep::<LocaTable<'_>>((NUM_GLYPHS, IndexToLocFormat::Long))
        .expect("unable to read loca");
    let mut glyf = ReadScope::new(&glyf_data)
        .read_dep::<GlyfTable<'_>>(&loca)
        .expect("unable to read glyf");
    assert_eq!(usize::from(glyf.num_glyphs()), NUM_GLYPHS);
    let mut recorder = Recorder::default();
    glyf.visit(glyph_index, &mut recorder)
        .expect("unable to visit glyph");
    recorder.commands
}

#[test]
fn control_simple_glyph() {
    let expected = vec!["M 0 0", "L 100 0", "L 50 100", "Z"];
    assert_eq!(outline(3), expected);
}

#[test]
fn control_composite_with_offset() {
    // p + (100, 0)
    let expected = vec!["M 100 0", "L 200 0", "L 150 100", "Z"];
    assert_eq!(outline(2), expected);
}

#[test]
fn control_composite_with_scale_and_offset() {
    // 0.5 * p + (10, 20)
    let expected = vec!["M 10 20", "L 60 20", "L 35 70", "Z"];
    assert_eq!(outline(5), expected);
}

#[test]
fn nested_composite_offsets_add_up() {
    // (p + (100, 0)) + (0, 50)
    let expected = vec!["M 100 50", "L 200 50", "L 150 150", "Z"];
    assert_eq!(outline(1), expected);
}

#[test]
fn nested_composite_outer_scale_applies_to_inner_composite() {
    // 0.5 * (p + (100, 0)) + (0, 50) = 0.5 * p + (50, 50)
    let expected = vec!["M 50 50", "L 100 50", "L 75 100", "Z"];
    assert_eq!(outline(4), expected);
}

#[test]
fn nested_composite_scales_multiply() {
    // 1.5 * (0.5 * p + (10, 20)) + (0, 50) = 0.75 * p + (15, 80)
    let expected = vec!["M 15 80", "L 90 80", "L 52.5 155", "Z"];
    assert_eq!(outline(6), expected);
}

#[test]
fn nested_composite_does_not_affect_following_component() {
    let expected = vec![
        // glyph 2 at (0, 50): p + (100, 50)
        "M 100 50",
        "L 200 50",
        "L 150 150",
        "Z",
        // glyph 3 at (-20, -30)
        "M -20 -30",
        "L 80 -30",
        "L 30 70",
        "Z",
    ];
    assert_eq!(outline(7), expected);
}
