// Reproduction: cmap format 4, a glyphIdArray entry of 0 in a segment whose idDelta is not 0.
//
// OpenType, cmap format 4: "If the idRangeOffset value for the segment is not 0, the mapping of character codes relies on
// glyphIdArray. ... If the value obtained from the indexing operation is not 0 (which indicates missingGlyph), idDelta[i] is
// added to it to get the glyph index." FreeType (`if ( gindex != 0 ) gindex = (gindex + delta) & 0xFFFF`) and HarfBuzz
// (`if (!gid) return false; gid += idDelta`) do the same: an entry of 0 stays "no glyph".

use allsorts::binary::read::ReadScope;
use allsorts::tables::cmap::CmapSubtable;

fn be16(out: &mut Vec<u8>, v: u16) {
    out.extend_from_slice(&v.to_be_bytes());
}

// Two segments: 'A'..='B' through glyphIdArray [0, 7] with idDelta 5, and the final 0xFFFF segment.
fn subtable(id_delta: i16) -> Vec<u8> {
    let mut t = Vec::new();
    be16(&mut t, 4); // format
    be16(&mut t, 0); // length, patched below
    be16(&mut t, 0); // language
    be16(&mut t, 4); // segCountX2
    be16(&mut t, 4); // searchRange
    be16(&mut t, 1); // entrySelector
    be16(&mut t, 0); // rangeShift
    be16(&mut t, 0x42); // endCode[0]
    be16(&mut t, 0xFFFF); // endCode[1]
    be16(&mut t, 0); // reservedPad
    be16(&mut t, 0x41); // startCode[0]
    be16(&mut t, 0xFFFF); // startCode[1]
    be16(&mut t, id_delta as u16); // idDelta[0]
    be16(&mut t, 1); // idDelta[1]
    be16(&mut t, 4); // idRangeOffset[0]: glyphIdArray[0] is 4 bytes after this entry
    be16(&mut t, 0); // idRangeOffset[1]
    be16(&mut t, 0); // glyphIdArray[0]: 'A' is not mapped
    be16(&mut t, 7); // glyphIdArray[1]: 'B' -> 7 (+ idDelta)
    let len = t.len() as u16;
    t[2..4].copy_from_slice(&len.to_be_bytes());
    t
}

fn lookup(data: &[u8], ch: u32) -> u16 {
    let cmap = ReadScope::new(data)
        .read::<CmapSubtable<'_>>()
        .expect("unable to read the sub-table");
    cmap.map_glyph(ch).expect("lookup failed").unwrap_or(0)
}

#[test]
fn control_nonzero_entry_gets_the_delta() {
    assert_eq!(lookup(&subtable(5), 0x42), 12);
    assert_eq!(lookup(&subtable(0), 0x42), 7);
}

#[test]
fn control_zero_entry_without_delta_is_missing() {
    assert_eq!(lookup(&subtable(0), 0x41), 0);
}

#[test]
fn zero_entry_stays_missing_when_the_segment_has_a_delta() {
    assert_eq!(lookup(&subtable(5), 0x41), 0);
}

#[test]
fn enumeration_agrees_with_lookup() {
    let data = subtable(5);
    let cmap = ReadScope::new(&data)
        .read::<CmapSubtable<'_>>()
        .expect("unable to read the sub-table");
    let mut seen = Vec::new();
    cmap.mappings_fn(|ch, gid| seen.push((ch, gid)))
        .expect("enumeration failed");
    for (ch, gid) in seen {
        if ch == 0x41 {
            assert_eq!(gid, 0, "enumeration maps the unmapped 'A' to a glyph");
        }
    }
}
