"""Layout traces (rule C15-b): the sequence of fixed-width items a reader consumes and a writer
emits, with the struct field each item lands in / comes from, extracted from MIR along the
*mainline* of the function (the success path through `?`; the walk stops at the first
data-dependent branch and says so)."""
import re

import sym
from facts import callee_is, op_local

PRIM_READS = {"read_u8": ("binary::U8", 1), "read_i8": ("binary::I8", 1), "read_u16be": ("binary::U16Be", 2), "read_i16be": ("binary::I16Be", 2),
              "read_u24be": ("binary::U24Be", 3), "read_u32be": ("binary::U32Be", 4), "read_i32be": ("binary::I32Be", 4),
              "read_u64be": ("binary::U64Be", 8), "read_i64be": ("binary::I64Be", 8)}
PRIM_WIDTH = {"binary::U8": 1, "binary::I8": 1, "binary::U16Be": 2, "binary::I16Be": 2, "binary::U24Be": 3, "binary::U32Be": 4,
              "binary::I32Be": 4, "binary::U64Be": 8, "binary::I64Be": 8}
# same width and same signedness class are interchangeable between reader and writer only by width
SIGN = {"binary::I8", "binary::I16Be", "binary::I32Be", "binary::I64Be"}


class Item:
    __slots__ = ("kind", "ty", "width", "bb", "field", "note", "const")

    def __init__(self, kind, ty, width, bb, field=None, note="", const=None):
        self.kind, self.ty, self.width, self.bb, self.field, self.note, self.const = kind, ty, width, bb, field, note, const

    def show(self):
        s = "%s" % (self.ty.split("::")[-1] if self.ty else self.kind)
        if self.kind in ("array", "bytes", "zeros"):
            s = "%s[%s]" % (self.kind, s)
        if self.note.startswith("len:"):
            s += "=len(%s)" % self.note[4:]
        elif self.field:
            s += ":" + self.field
        elif self.const is not None:
            s += "=%s" % self.const
        return s


def size_table(fx):
    """type display string -> SIZE for every ReadUnchecked instantiation the crate uses"""
    if getattr(fx, "_sizes", None) is None:
        d = dict(PRIM_WIDTH)
        for nd in fx.nodes:
            for a in nd.get("assoc") or []:
                if a["name"] == "SIZE" and isinstance(a.get("val"), int):
                    st = nd.get("self_ty", {}).get("s")
                    if st:
                        d[st] = a["val"]
        fx._sizes = d
    return fx._sizes


def error_exit(b, bb, depth=0, seen=None):
    """every path from bb reaches the return without reading anything and with an Err result: the arm of a validity check
    (`match magic { MAGIC => .., _ => return Err(BadVersion) }`)"""
    seen = seen or set()
    if depth > 64 or bb in seen:
        return False
    seen = seen | {bb}
    t = b.term(bb)
    is_err = any(s["k"] == "assign" and s["p"]["l"] == 0 and s["rv"]["k"] == "agg" and s["rv"].get("vname") == "Err" for s in b.stmts(bb))
    if t["k"] == "call":
        p = t["callee"].get("path") or ""
        if "ReadCtxt" in p or "ReadScope" in p:
            return False
        if t["dest"]["l"] == 0 and p.endswith("FromResidual::from_residual"):
            is_err = True
    if t["k"] == "return":
        return is_err or depth > 0 and None   # decided by the caller chain below
    succ = [x for x in b.succs(bb)]
    if not succ:
        return False
    res = []
    for sx in succ:
        r = error_exit(b, sx, depth + 1, seen)
        if r is False:
            return False
        res.append(r)
    return True if (is_err or any(r is True for r in res)) else None


def next_reader_block(b, start, limit=40):
    """the one block that every read-free success path from `start` reaches first among the blocks that call the reader (or build the
    result); None when the paths disagree, loop, or return without reading"""
    found = set()
    seen = set()
    st = [start]
    while st:
        n = st.pop()
        if n in seen:
            continue
        seen.add(n)
        if len(seen) > limit:
            return None
        t = b.term(n)
        if t["k"] == "call" and "binary::read::Read" in (t["callee"].get("path") or ""):
            found.add(n)
            continue
        if t["k"] == "return":
            return None
        if error_exit(b, n) is True:
            continue
        st.extend(x for x in b.succs(n) if b.term(x)["k"] != "unreachable")
    return found.pop() if len(found) == 1 else None


def mainline(b, start=0, through_checks=False):
    """blocks along the success path: follows goto/call/assert/drop targets and the Continue arm of
    every `?`. Stops at any other switch - unless through_checks is set and all arms but one are error exits (a version or
    magic number check), in which case the walk goes on along the remaining arm. Returns (list of blocks, reason the walk stopped)."""
    out = []
    bb = start
    seen = set()
    prov = sym.Prov(b)
    while True:
        if bb in seen:
            return out, "loop at bb%d" % bb
        seen.add(bb)
        out.append(bb)
        t = b.term(bb)
        k = t["k"]
        if k == "return":
            return out, "return"
        if k in ("goto", "assert", "drop", "call"):
            if t.get("target") is None:
                return out, "diverges"
            bb = t["target"]
            continue
        if k == "switch":
            d = sym.strip(prov.op(t["discr"]))
            if d[0] == "discr":
                src = sym.strip(d[1])
                if src[0] == "call" and (src[4] or "").endswith("Try::branch"):
                    nxt = [tg for v, tg in t["arms"] if v == 0]
                    if nxt:
                        bb = nxt[0]
                        continue
            if through_checks:
                tgts = []
                for tg in [x for _, x in t["arms"]] + [t["otherwise"]]:
                    if tg not in tgts and b.term(tg)["k"] != "unreachable":
                        tgts.append(tg)
                live = [tg for tg in tgts if error_exit(b, tg) is not True]
                if len(live) == 1 and len(tgts) > 1:
                    bb = live[0]
                    continue
                # a validity test spelled as a chain (`a == X || a == Y || ..`, a flag set in several arms): the live arms read nothing
                # and meet again in one block, from which the walk goes on
                if len(live) > 1:
                    nxt = {next_reader_block(b, tg) for tg in live}
                    if len(nxt) == 1 and None not in nxt:
                        bb = nxt.pop()
                        continue
            return out, "branch at bb%d (%s:%s)" % (bb, b.file, t.get("line", "?"))
        return out, k


def field_of(t):
    """first named field (of a parameter) a value term is drawn from"""
    for x in sym.walk(t):
        if x[0] == "field" and isinstance(x[2], str) and not x[2].isdigit():
            return x[2]
    return None


def reader_items(fx, b, self_ty=None, start=0, through_checks=False):
    sizes = size_table(fx)
    blocks, why = mainline(b, start, through_checks)
    items = []
    for bb in blocks:
        t = b.term(bb)
        if t["k"] != "call":
            continue
        c = t["callee"]
        p = c.get("path") or ""
        name = p.split("::")[-1]
        if not p.startswith("binary::read::ReadCtxt::<'a>::"):
            # a helper that is handed the cursor consumes an unknown number of bytes: comparison ends here
            if any(a["k"] in ("copy", "move") and "binary::read::ReadCtxt<" in b.local_ty(a["p"]["l"]) and b.local_ty(a["p"]["l"]).startswith("&mut") for a in t["args"]) \
                    and not p.startswith(("std::", "core::")):
                items.append(Item("opaque", name, None, bb))
            continue
        ga = c.get("args") or []
        if name in PRIM_READS:
            ty, w = PRIM_READS[name]
            items.append(Item("prim", ty, w, bb))
        elif name in ("read", "read_dep"):
            ty = ga[-1] if ga else "?"
            items.append(Item("type", ty, sizes.get(ty), bb))
        elif name in ("read_array", "read_array_dep", "read_array_stride", "read_array_upto_hack"):
            ty = ga[-1] if ga else "?"
            items.append(Item("array", ty, sizes.get(ty), bb))
        elif name in ("read_slice", "read_scope"):
            items.append(Item("bytes", "", None, bb))
    # field mapping from the result aggregate
    prov = sym.Prov(b)
    by_bb = {it.bb: it for it in items}
    res_fields = {}
    for bi in blocks:
        for s in b.stmts(bi):
            if s["k"] == "assign" and s["rv"]["k"] == "agg" and s["rv"].get("agg") == "adt" and s["rv"].get("vname") not in ("Ok", "Some", "Continue", "Break", "Err") \
                    and not (s["rv"].get("adt") or "").startswith(("std::", "core::", "alloc::", "binary::read::")):
                for fname, fop in zip(s["rv"]["fnames"], s["rv"]["fields"]):
                    if fname.isdigit():
                        continue    # tuple-like wrappers (Borrowed(x), Format4(x)) carry no field name
                    tt = prov.op(fop)
                    for x in sym.walk(tt):
                        if x[0] == "call" and x[3] in by_bb and (x[1] or "").startswith("binary::read::ReadCtxt"):
                            if by_bb[x[3]].field is None:
                                by_bb[x[3]].field = fname
    # items validated against a constant: `ctxt.check(v == K)` — remember the constant
    for bi in blocks:
        t = b.term(bi)
        if t["k"] == "call" and callee_is(t, "ReadCtxt::<'a>::check", "ReadCtxt::<'a>::check_version") and len(t["args"]) > 1:
            c = sym.strip(prov.op(t["args"][1]))
            if c[0] == "bin" and c[1] == "Eq":
                a, k = sym.strip(c[2]), sym.strip(c[3])
                if k[0] == "c":
                    for x in sym.walk(a):
                        if x[0] == "call" and x[3] in by_bb:
                            by_bb[x[3]].const = k[1]
    return items, why


def tuple_leaves(ty):
    """flatten a (nested) tuple type string into its leaf type strings"""
    ty = ty.strip()
    if not (ty.startswith("(") and ty.endswith(")")):
        return [ty]
    inner = ty[1:-1]
    parts, depth, cur = [], 0, ""
    for ch in inner:
        if ch in "(<[":
            depth += 1
        elif ch in ")>]":
            depth -= 1
        if ch == "," and depth == 0:
            parts.append(cur)
            cur = ""
        else:
            cur += ch
    if cur.strip():
        parts.append(cur)
    out = []
    for p in parts:
        out.extend(tuple_leaves(p))
    return out


def tuple_index_paths(ty, prefix=()):
    ty = ty.strip()
    if not (ty.startswith("(") and ty.endswith(")")):
        return [prefix]
    inner = ty[1:-1]
    parts, depth, cur = [], 0, ""
    for ch in inner:
        if ch in "(<[":
            depth += 1
        elif ch in ")>]":
            depth -= 1
        if ch == "," and depth == 0:
            parts.append(cur)
            cur = ""
        else:
            cur += ch
    if cur.strip():
        parts.append(cur)
    out = []
    for i, p in enumerate(parts):
        out.extend(tuple_index_paths(p, prefix + (i,)))
    return out


def readfrom_items(fx, b, read_type):
    """ReadFrom::read_from(tuple) -> Self: leaves of ReadType in order, and the field each lands in"""
    sizes = size_table(fx)
    leaves = tuple_leaves(read_type)
    paths = tuple_index_paths(read_type)
    items = [Item("type" if l not in PRIM_WIDTH else "prim", l, sizes.get(l), -1) for l in leaves]
    prov = sym.Prov(b)
    pidx = {p: i for i, p in enumerate(paths)}
    for bi, blk in enumerate(b.blocks):
        if not b.reachable(bi):
            continue
        for s in blk["s"]:
            if s["k"] == "assign" and s["rv"]["k"] == "agg" and s["rv"].get("agg") == "adt":
                for fname, fop in zip(s["rv"]["fnames"], s["rv"]["fields"]):
                    tt = prov.op(fop)
                    for x in sym.walk(tt):
                        pth = arg_tuple_path(x)
                        if pth is not None and pth in pidx and items[pidx[pth]].field is None:
                            items[pidx[pth]].field = fname
    return items, "return"


def arg_tuple_path(t):
    """index path of a projection out of parameter 1: field(field(arg1, 0), 2) -> (0, 2)"""
    path = []
    while t[0] == "field" and (isinstance(t[2], int) or (isinstance(t[2], str) and t[2].isdigit())):
        path.append(int(t[2]))
        t = t[1]
    if t[0] == "arg" and t[1] == 1 and path:
        return tuple(reversed(path))
    if t[0] == "arg" and t[1] == 1 and not path:
        return ()
    return None


def writer_items(fx, b, start=0):
    _FX[0] = fx
    sizes = size_table(fx)
    blocks, why = mainline(b, start)
    prov = sym.Prov(b)
    items = []
    for bb in blocks:
        t = b.term(bb)
        if t["k"] != "call":
            continue
        c = t["callee"]
        p = c.get("path") or ""
        rp = c.get("rpath") or p
        ga = c.get("args") or []
        if p in ("binary::write::WriteBinary::write", "binary::write::WriteBinaryDep::write_dep"):
            m = re.match(r"^<(.+?) as binary::write::WriteBinary", rp)
            ty = m.group(1) if m else (ga[0] if ga else "?")
            ty = re.sub(r"^&", "", ty)
            val = prov.op(t["args"][1]) if len(t["args"]) > 1 else ("?",)
            sv = sym.strip(val)
            it = Item("prim" if ty in PRIM_WIDTH else "type", ty, sizes.get(ty), bb, field=field_of(val))
            for x in sym.walk(val):
                if x[0] == "call" and (x[1] or "").endswith(("::len", "::count")) and x[2]:
                    # a count field: written from the length of a collection (which must follow)
                    it.note = "len:%s" % (field_of(x[2][0]) or "?")
                    it.field = None
                    break
            if sv[0] == "c":
                it.const = sv[1]
                it.field = None
            if it.field is None and it.const is None and not it.note:
                # the value goes through a method of the written type: remember it, compare() checks it against the reader's field
                for x in sym.walk(val):
                    if x[0] == "call" and x[1] and not x[1].startswith(("std::", "core::", "<", "alloc::")) and x[2]:
                        a0 = sym.strip(x[2][0])
                        while a0[0] in ("ref", "deref"):
                            a0 = sym.strip(a0[1])
                        if a0[0] in ("arg", "field"):
                            it.note = "via:%s" % x[1]
                            break
            if ty.startswith("binary::read::ReadArray") or "ReadArrayCow" in ty:
                it.kind = "array"
            items.append(it)
        elif p.endswith("WriteContext::write_array") or p.endswith("WriteContext::write_vec") or p.endswith("WriteContext::write_iter"):
            ty = ga[1] if len(ga) > 1 else "?"
            items.append(Item("array", ty, sizes.get(ty), bb, field=field_of(prov.op(t["args"][1]))))
        elif p.endswith("WriteContext::write_bytes"):
            items.append(Item("bytes", "", None, bb, field=field_of(prov.op(t["args"][1]))))
        elif p.endswith("WriteContext::write_zeros"):
            n = sym.strip(prov.op(t["args"][1]))
            items.append(Item("zeros", "", n[1] if n[0] == "c" else None, bb))
        elif p.endswith("WriteContext::placeholder") or p.endswith("WriteContext::reserve") or p.endswith("WriteContext::placeholder_array"):
            ty = ga[1] if len(ga) > 1 else "?"
            items.append(Item("prim" if ty in PRIM_WIDTH else "type", ty, sizes.get(ty), bb, note="placeholder"))
        elif t["args"] and t["args"][0]["k"] in ("copy", "move") and b.arg_count >= 1 and not p.startswith(("std::", "core::", "binary::write::WriteContext::")):
            # a helper that is handed the write context emits an unknown number of bytes
            a0 = t["args"][0]
            if b.local_ty(a0["p"]["l"]) == b.local_ty(1) and b.local_ty(1).startswith("&mut"):
                items.append(Item("opaque", p.split("::")[-1], None, bb))
    return items, why


_FX = [None]


def plain_getter(path):
    """the method only projects a field (no arithmetic, masking or further calls); unknown bodies count as plain"""
    fx = _FX[0]
    b = fx.body(path) if fx is not None else None
    if b is None:
        return True
    for blk in b.blocks:
        for st in blk["s"]:
            if st["k"] == "assign" and st["rv"]["k"] in ("bin", "un"):
                return False
        if blk["t"]["k"] == "call":
            return False
    return True


def compare(ritems, rwhy, witems, wwhy):
    """list of (position, message) differences over the common straight-line prefix; plus a summary"""
    diffs = []
    n = min(len(ritems), len(witems))
    for i in range(n):
        r, w = ritems[i], witems[i]
        if r.kind == "opaque" or w.kind == "opaque":
            n = i
            rwhy = wwhy = "opaque helper"
            break
        if r.kind in ("array", "bytes") or w.kind in ("array", "bytes", "zeros"):
            # variable-length items: compare the element type, then stop (lengths are values)
            if r.kind == "array" and w.kind == "array" and r.width and w.width and r.width != w.width:
                diffs.append((i, "array element width differs: reader %s (%d bytes), writer %s (%d bytes)" % (r.show(), r.width, w.show(), w.width)))
            if {r.kind, w.kind} <= {"array", "bytes"} and r.field and w.field and r.field != w.field:
                diffs.append((i, "reader stores this item in `%s`, writer emits `%s`" % (r.field, w.field)))
            continue
        if r.width is not None and w.width is not None and r.width != w.width:
            diffs.append((i, "width differs: reader consumes %s (%d bytes), writer emits %s (%d bytes)" % (r.show(), r.width, w.show(), w.width)))
            break   # everything after a width mismatch is shifted
        if r.field and w.field and r.field != w.field:
            diffs.append((i, "field order differs: reader stores item %d in `%s`, writer emits `%s` there" % (i, r.field, w.field)))
        if w.note.startswith("via:") and r.field and w.note[4:].split("::")[-1] == r.field and not plain_getter(w.note[4:]):
            diffs.append((i, "reader stores the raw item in `%s`, writer emits %s(), which computes its result: the stored value is not what is written back" % (r.field, w.note[4:])))
        if r.const is not None and w.const is not None and r.const != w.const:
            diffs.append((i, "reader requires the constant %s, writer emits %s" % (r.const, w.const)))
        if (r.ty in SIGN) != (w.ty in SIGN) and r.ty in PRIM_WIDTH and w.ty in PRIM_WIDTH and r.field and w.field:
            diffs.append((i, "signedness differs for `%s`: reader %s, writer %s" % (r.field, r.ty.split("::")[-1], w.ty.split("::")[-1])))
    for i, w in enumerate(witems):
        if w.note.startswith("len:") and w.note != "len:?":
            f = w.note[4:]
            later = [x for x in witems[i + 1:] if x.kind in ("array", "bytes", "type") and x.field == f]
            if not later and wwhy == "return":
                diffs.append((i, "the count written at position %d is len(%s) but no later item emits `%s`" % (i, f, f)))
    complete = rwhy == "return" and wwhy == "return"
    if complete and len(ritems) != len(witems) and not diffs:
        longer = "reader" if len(ritems) > len(witems) else "writer"
        extra = (ritems if longer == "reader" else witems)[n:]
        # bytes the reader skips without keeping them (reserved / unknown header bytes whose length is data) have no counterpart in the
        # writer, which emits the minimal form
        skipped_only = longer == "reader" and all(x.kind == "bytes" and not x.field for x in extra)
        if not skipped_only:
            diffs.append((n, "%s has %d more item(s) than the other side: %s" % (longer, len(extra), [x.show() for x in extra][:4])))
    return diffs, n, complete


def branch_block(why):
    m = re.match(r"branch at bb(\d+)", why or "")
    return int(m.group(1)) if m else None


def reader_arms(b, bb, items):
    """the reader stopped at a switch in block bb: if it switches on a value that was read (items[k]),
    return (k, {const: target block}, otherwise target). Handles SwitchInt on the value and a bool
    switch on `value == const`."""
    prov = sym.Prov(b)
    t = b.term(bb)
    d = sym.strip(prov.op(t["discr"]))
    by_bb = {it.bb: i for i, it in enumerate(items)}

    def item_of(term):
        for x in sym.walk(term):
            if x[0] == "call" and x[3] in by_bb and (x[1] or "").startswith("binary::read::ReadCtxt"):
                return by_bb[x[3]]
        return None
    if t.get("dty") == "bool" and d[0] == "bin" and d[1] in ("Eq", "Ne"):
        a, c = sym.strip(d[2]), sym.strip(d[3])
        if c[0] != "c":
            a, c = c, a
        k = item_of(a)
        if k is None or c[0] != "c":
            return None
        fb = [tg for v, tg in t["arms"] if v == 0]
        tb = t["otherwise"]
        if not fb:
            return None
        if d[1] == "Eq":
            return k, {c[1]: tb}, fb[0]
        return k, {c[1]: fb[0]}, tb
    k = item_of(d)
    if k is None:
        return None
    return k, {v: tg for v, tg in t["arms"]}, t["otherwise"]


def writer_arms(b, bb):
    """the writer stopped at a switch in block bb: arms by target block (any discriminant)"""
    t = b.term(bb)
    tg = [x for _, x in t["arms"]] + [t["otherwise"]]
    out = []
    for x in tg:
        if x not in out and b.term(x)["k"] != "unreachable":
            out.append(x)
    return out
