"""Flow-sensitive helpers over one MIR body: reaching definitions of a local, must-pass-through,
and a small "value sources" walk that follows multi-definition locals through their reaching
definitions (the single-definition Prov stops at them)."""
import sym
from facts import op_local


from facts import ReachingDefs  # noqa: E402,F401


def def_term(body, prov, d):
    """symbolic term of one definition tuple (bb, idx, kind, item)"""
    bb, idx, kind, item = d
    if kind == "assign":
        return prov.rvalue(item["rv"])
    if kind == "call":
        c = item["callee"]
        name = c.get("rpath") or c.get("path") or "<indirect>"
        return ("call", name, tuple(prov.op(a) for a in item["args"]), bb, c.get("path"), item["dest"].get("ty"))
    return ("?", "partial")


def use_point(body, local_holder):
    """(bb, idx) where single-definition temp `local_holder` is assigned (the point at which the
    value it copies was read)"""
    d = body.single_def(local_holder)
    if d is None:
        return None
    return d[0], d[1]


def sources(body, prov, term, at, depth=0, seen=None):
    """expand ('local', l, ..) leaves of `term` (multi-definition locals) into the terms of the
    definitions that reach program point `at` = (bb, idx). Returns a list of alternative terms
    (only the top-level term is expanded, value-preserving wrappers are stripped)."""
    seen = seen or set()
    t = sym.strip(term)
    if t[0] != "local" or depth > 6:
        return [t]
    l = t[1]
    if len(t) > 3 and t[3] and t[3][0] in ("phi", "entry"):
        t = ("local", l)
    if len(t) > 3 and t[3] and t[3][0] == "d":
        # versioned snapshot: exactly the definition at (bb, idx)
        for d in body.defs().get(l, []):
            if d[0] == t[3][1] and str(d[1]) == t[3][2]:
                dt = sym.strip(def_term(body, prov, d))
                if dt[0] == "local":
                    return sources(body, prov, dt, (d[0], d[1]), depth + 1, seen)
                return [(dt, d)]
    sd = body.single_def(l)
    if sd is not None and sd[2] == "assign" and sd[3]["rv"]["k"] == "use":
        o = sd[3]["rv"]["op"]
        if o["k"] in ("copy", "move") and not o["p"]["p"] and o["p"]["l"] != l:
            # an unversioned snapshot temp: expand the copied local at the copy
            return sources(body, prov, ("local", o["p"]["l"]), (sd[0], sd[1]), depth + 1, seen)
    if (l, at) in seen:
        return []
    seen = seen | {(l, at)}
    rd = ReachingDefs(body, l)
    out = []
    for d in rd.at(at[0], at[1]):
        if d is None:
            out.append(("entry", l))
            continue
        dt = sym.strip(def_term(body, prov, d))
        if dt[0] == "local":
            out.extend(sources(body, prov, dt, (d[0], d[1]), depth + 1, seen))
        else:
            out.append((dt, d))
    return out


def must_pass(body, start, targets, through):
    """every path from block `start` to any block in `targets` enters a block in `through`"""
    seen = body.reach_from(start, avoid=frozenset(through))
    return not (seen & set(targets))


def blocks_calling(body, *suffixes):
    from facts import callee_is
    return [bi for bi, t in body.calls() if callee_is(t, *suffixes)]


def ordered_calls(b, names):
    """the calls named (by path suffix) occur in this order on every path: each is present and no call of a later name can
    reach (through the CFG) a call of an earlier name. Returns (ok, message)."""
    from facts import callee_is
    blocks = []
    for nm in names:
        bs = [bi for bi, t in b.calls() if callee_is(t, nm)]
        if not bs:
            return False, "%s is not called" % nm
        blocks.append(bs)

    def reaches(src, dst):
        seen, todo = set(), list(b.succs(src))
        while todo:
            x = todo.pop()
            if x == dst:
                return True
            if x in seen:
                continue
            seen.add(x)
            todo.extend(b.succs(x))
        return False
    for i in range(len(names)):
        for j in range(i + 1, len(names)):
            for later in blocks[j]:
                for earlier in blocks[i]:
                    if later == earlier or reaches(later, earlier):
                        return False, "%s can run before %s" % (names[j].split("::")[-1], names[i].split("::")[-1])
    return True, " -> ".join(n.split("::")[-1] for n in names)
