"""Fact extraction: run the mirfacts driver over /repo (or the planted fixture) and cache
the result keyed by a content hash of everything the facts depend on."""
import fcntl
import hashlib
import json
import os
import pickle
import shutil
import subprocess
import sys
import time
import uuid

VERIF = os.path.dirname(os.path.dirname(os.path.dirname(os.path.abspath(__file__))))
REPO = os.environ.get("VERIF_REPO", "/repo")
CACHE = os.path.join(VERIF, ".cache")
DRIVER_DIR = os.path.join(VERIF, "engine", "mirfacts")
DRIVER = os.path.join(DRIVER_DIR, "target", "release", "mirfacts")
SCHEMA = 7

CONFIGS = {
    # name -> cargo feature arguments
    "prince": ["--features", "prince"],
    "default": [],
    "nooutline": ["--no-default-features", "--features", "flate2_rust"],
}

RUSTFLAGS = "-Zmir-opt-level=0 -Awarnings -Coverflow-checks=on -Cdebug-assertions=on"


def log(msg):
    sys.stderr.write("[vf] %s\n" % msg)
    sys.stderr.flush()


def sysroot():
    return subprocess.check_output(["rustc", "+nightly", "--print", "sysroot"], text=True).strip()


def base_env():
    env = dict(os.environ)
    env["CARGO_NET_OFFLINE"] = "true"
    env["LD_LIBRARY_PATH"] = sysroot() + "/lib" + (":" + env["LD_LIBRARY_PATH"] if env.get("LD_LIBRARY_PATH") else "")
    # a stray RUSTUP_TOOLCHAIN would override +nightly in nested cargo calls
    env.pop("RUSTUP_TOOLCHAIN", None)
    return env


def build_driver():
    if not os.path.exists(DRIVER) or _newer_sources():
        log("building mirfacts driver")
        r = subprocess.run(["cargo", "+nightly", "build", "--release", "--offline"], cwd=DRIVER_DIR, env=base_env(),
                           stdout=subprocess.PIPE, stderr=subprocess.STDOUT, text=True)
        if r.returncode != 0:
            sys.stderr.write(r.stdout)
            raise SystemExit("driver build failed")
    return DRIVER


def _newer_sources():
    t = os.path.getmtime(DRIVER)
    for root, _, files in os.walk(os.path.join(DRIVER_DIR, "src")):
        for f in files:
            if os.path.getmtime(os.path.join(root, f)) > t:
                return True
    return os.path.getmtime(os.path.join(DRIVER_DIR, "Cargo.toml")) > t


def tree_hash(crate_dir, extra):
    h = hashlib.sha256()
    paths = []
    for root, dirs, files in os.walk(os.path.join(crate_dir, "src")):
        dirs.sort()
        for f in sorted(files):
            paths.append(os.path.join(root, f))
    for f in ("Cargo.toml", "Cargo.lock", "build.rs"):
        p = os.path.join(crate_dir, f)
        if os.path.exists(p):
            paths.append(p)
    for p in paths:
        h.update(os.path.relpath(p, crate_dir).encode())
        h.update(b"\0")
        with open(p, "rb") as fh:
            h.update(fh.read())
        h.update(b"\0")
    h.update(repr(extra).encode())
    with open(DRIVER, "rb") as fh:
        h.update(hashlib.sha256(fh.read()).digest())
    h.update(str(SCHEMA).encode())
    return h.hexdigest()[:24]


def extract(crate_dir, crate_name, config, feature_args):
    """returns (facts dict, meta) for crate at crate_dir in the given configuration"""
    build_driver()
    os.makedirs(CACHE, exist_ok=True)
    key = tree_hash(crate_dir, (crate_name, config, feature_args, RUSTFLAGS))
    fdir = os.path.join(CACHE, "facts", "%s-%s-%s" % (crate_name, config, key))
    pkl = os.path.join(fdir, "facts.pkl")
    lock_path = os.path.join(CACHE, "extract-%s-%s.lock" % (crate_name, config))
    with open(lock_path, "w") as lock:
        fcntl.flock(lock, fcntl.LOCK_EX)
        if os.path.exists(pkl):
            with open(pkl, "rb") as fh:
                facts = pickle.load(fh)
            facts["_meta"]["cached"] = True
            try:
                os.utime(fdir)      # the collector below evicts the least recently used
            except OSError:
                pass
            return facts
        t0 = time.time()
        os.makedirs(fdir, exist_ok=True)
        target = os.path.join(CACHE, "target-%s-%s" % (crate_name, config))
        # cargo replays a fresh unit without calling the wrapper: drop the crate's fingerprints
        fp = os.path.join(target, "debug", ".fingerprint")
        if os.path.isdir(fp):
            for d in os.listdir(fp):
                if d.startswith(crate_name + "-"):
                    shutil.rmtree(os.path.join(fp, d), ignore_errors=True)
        nonce = uuid.uuid4().hex
        env = base_env()
        env.update({
            "RUSTFLAGS": RUSTFLAGS,
            "RUSTC_WORKSPACE_WRAPPER": DRIVER,
            "CARGO_TARGET_DIR": target,
            "MIRFACTS_OUT": fdir,
            "MIRFACTS_CRATES": crate_name,
            "MIRFACTS_NONCE": nonce,
        })
        cmd = ["cargo", "+nightly", "check", "--offline", "--lib"] + feature_args
        log("extracting facts: %s (%s) in %s" % (crate_name, config, crate_dir))
        r = subprocess.run(cmd, cwd=crate_dir, env=env, stdout=subprocess.PIPE, stderr=subprocess.STDOUT, text=True)
        if r.returncode != 0:
            sys.stderr.write(r.stdout[-6000:])
            shutil.rmtree(fdir, ignore_errors=True)
            raise SystemExit("fact extraction failed: cargo check returned %d (does /repo still compile?)" % r.returncode)
        jpath = os.path.join(fdir, crate_name + ".json")
        if not os.path.exists(jpath):
            shutil.rmtree(fdir, ignore_errors=True)
            raise SystemExit("fact extraction failed: driver wrote no fact file (stale cargo cache?)")
        with open(jpath) as fh:
            facts = json.load(fh)
        if facts.get("nonce") != nonce or facts.get("schema") != SCHEMA:
            shutil.rmtree(fdir, ignore_errors=True)
            raise SystemExit("fact extraction failed: nonce/schema mismatch (replayed or foreign fact file)")
        facts["_meta"] = {
            "crate_dir": crate_dir, "config": config, "feature_args": feature_args, "key": key,
            "extract_s": round(time.time() - t0, 2), "cached": False,
        }
        with open(pkl + ".tmp", "wb") as fh:
            pickle.dump(facts, fh, protocol=pickle.HIGHEST_PROTOCOL)
        os.rename(pkl + ".tmp", pkl)
        os.remove(jpath)
        _gc(crate_name, config, keep=fdir)
        return facts


def _gc(crate_name, config, keep):
    """keep at most 40 fact directories per (crate, config)"""
    base = os.path.join(CACHE, "facts")
    pre = "%s-%s-" % (crate_name, config)
    ds = [os.path.join(base, d) for d in os.listdir(base) if d.startswith(pre)]
    ds.sort(key=lambda d: os.path.getmtime(d), reverse=True)
    for d in ds[40:]:
        if d != keep:
            shutil.rmtree(d, ignore_errors=True)


def repo_facts(config="prince"):
    return extract(REPO, "allsorts", config, CONFIGS[config])


def planted_facts():
    pdir = os.path.join(VERIF, "fixtures", "planted")
    return extract(pdir, "planted", "default", [])
