// Reproductions for the arithmetic overflow panics of audit group B (fixed in /repo): copy to /repo/tests/ and run
// `cargo test --offline --features prince --test repro_arith_b`. Every site* test panicked before the fixes.
// Reproductions for the arithmetic-overflow audit, site list B.
//
// Every test drives the crate through its public API only and asserts that the operation PANICS
// with an arithmetic overflow message at the audited source line (so a passing test == confirmed
// panic). Run with:
//
//   cargo test --offline --test arith_repro_b
//   cargo test --offline --features prince --test arith_repro_b      (sites 163-165)

use std::borrow::Cow;
use std::cell::RefCell;
use std::collections::HashMap;
use std::panic::{self, AssertUnwindSafe};
use std::sync::Once;

use allsorts::binary::read::ReadScope;
use allsorts::error::ParseError;
use allsorts::font::{Encoding, MatchingPresentation};
use allsorts::font_data::FontData;
use allsorts::glyph_position::{GlyphLayout, TextDirection};
use allsorts::gpos::{Info, Placement};
use allsorts::gsub::{FeatureMask, Features, GlyphOrigin, RawGlyph, RawGlyphFlags};
use allsorts::layout::Anchor;
use allsorts::tables::FontTableProvider;
use allsorts::{tag, Font};

use tinyvec::tiny_vec;

// ---------------------------------------------------------------------------------------------
// panic capture
// ---------------------------------------------------------------------------------------------

thread_local! {
    static LAST_PANIC: RefCell<Option<(String, String)>> = RefCell::new(None);
}
static HOOK: Once = Once::new();

fn install_hook() {
    HOOK.call_once(|| {
        let default = panic::take_hook();
        panic::set_hook(Box::new(move |info| {
            let msg = if let Some(s) = info.payload().downcast_ref::<&str>() {
                s.to_string()
            } else if let Some(s) = info.payload().downcast_ref::<String>() {
                s.clone()
            } else {
                String::from("<non-string payload>")
            };
            let loc = info
                .location()
                .map(|l| format!("{}:{}", l.file(), l.line()))
                .unwrap_or_default();
            LAST_PANIC.with(|p| *p.borrow_mut() = Some((msg, loc)));
            // keep the default output for assertion failures of the test itself
            if !info
                .location()
                .map(|l| l.file().starts_with("src/"))
                .unwrap_or(false)
            {
                default(info);
            }
        }));
    });
}

/// Runs `f`. Before the fixes it panicked with `msg` at `loc`; it must return now.
/// (The audit version of this helper asserted the panic, its message and its location.)
fn expect_overflow_panic<R>(what: &str, msg: &str, loc: &str, f: impl FnOnce() -> R) {
    install_hook();
    let res = panic::catch_unwind(AssertUnwindSafe(f));
    assert!(res.is_ok(), "[{}] panicked; before the fix: '{}' at {}", what, msg, loc);
}

const ADD: &str = "attempt to add with overflow";
const SUB: &str = "attempt to subtract with overflow";
const MUL: &str = "attempt to multiply with overflow";

// ---------------------------------------------------------------------------------------------
// helpers: fixture loading, a table provider with overridden tables, binary builders
// ---------------------------------------------------------------------------------------------

fn read_font(path: &str) -> Vec<u8> {
    let p = std::path::Path::new(env!("CARGO_MANIFEST_DIR"))
        .join("tests/fonts")
        .join(path);
    std::fs::read(p).expect("fixture")
}

/// Wraps a provider, replacing / removing / adding tables.
struct Patched<P> {
    inner: P,
    over: HashMap<u32, Option<Vec<u8>>>,
}

impl<P: FontTableProvider> Patched<P> {
    fn new(inner: P) -> Self {
        Patched {
            inner,
            over: HashMap::new(),
        }
    }
    fn set(mut self, tag: u32, data: Vec<u8>) -> Self {
        self.over.insert(tag, Some(data));
        self
    }
    fn remove(mut self, tag: u32) -> Self {
        self.over.insert(tag, None);
        self
    }
}

impl<P: FontTableProvider> FontTableProvider for Patched<P> {
    fn table_data(&self, tag: u32) -> Result<Option<Cow<'_, [u8]>>, ParseError> {
        match self.over.get(&tag) {
            Some(Some(data)) => Ok(Some(Cow::Borrowed(&data[..]))),
            Some(None) => Ok(None),
            None => self.inner.table_data(tag),
        }
    }

    fn has_table(&self, tag: u32) -> bool {
        match self.over.get(&tag) {
            Some(Some(_)) => true,
            Some(None) => false,
            None => self.inner.has_table(tag),
        }
    }

    fn table_tags(&self) -> Option<Vec<u32>> {
        let mut tags = self.inner.table_tags()?;
        for (tag, v) in &self.over {
            match v {
                Some(_) if !tags.contains(tag) => tags.push(*tag),
                None => tags.retain(|t| t != tag),
                _ => {}
            }
        }
        Some(tags)
    }
}

fn w16(v: &mut Vec<u8>, x: u16) {
    v.extend_from_slice(&x.to_be_bytes());
}
fn wi16(v: &mut Vec<u8>, x: i16) {
    v.extend_from_slice(&x.to_be_bytes());
}
fn w32(v: &mut Vec<u8>, x: u32) {
    v.extend_from_slice(&x.to_be_bytes());
}

struct Lookup {
    kind: u16,
    flag: u16,
    subtable: Vec<u8>,
}

/// Builds a GSUB/GPOS table: one script with a default LangSys listing all `features`.
fn layout_table(script: u32, features: &[(u32, Vec<u16>)], lookups: &[Lookup]) -> Vec<u8> {
    // ScriptList
    let mut sl = Vec::new();
    w16(&mut sl, 1);
    w32(&mut sl, script);
    w16(&mut sl, 8); // offset of Script table
    w16(&mut sl, 4); // defaultLangSys offset (from Script table)
    w16(&mut sl, 0); // langSysCount
    w16(&mut sl, 0); // lookupOrder
    w16(&mut sl, 0xFFFF); // requiredFeatureIndex
    w16(&mut sl, features.len() as u16);
    for i in 0..features.len() {
        w16(&mut sl, i as u16);
    }

    // FeatureList
    let mut fl = Vec::new();
    w16(&mut fl, features.len() as u16);
    let off = 2 + 6 * features.len();
    let mut ftables = Vec::new();
    for (tag, lookups) in features {
        w32(&mut fl, *tag);
        w16(&mut fl, (off + ftables.len()) as u16);
        w16(&mut ftables, 0); // featureParams
        w16(&mut ftables, lookups.len() as u16);
        for l in lookups {
            w16(&mut ftables, *l);
        }
    }
    fl.extend_from_slice(&ftables);

    // LookupList
    let mut ll = Vec::new();
    w16(&mut ll, lookups.len() as u16);
    let mut ltables = Vec::new();
    let base = 2 + 2 * lookups.len();
    for l in lookups {
        let o = base + ltables.len();
        assert!(o < 0x10000, "lookup offset out of range");
        w16(&mut ll, o as u16);
        w16(&mut ltables, l.kind);
        w16(&mut ltables, l.flag);
        w16(&mut ltables, 1);
        w16(&mut ltables, 8);
        ltables.extend_from_slice(&l.subtable);
    }
    ll.extend_from_slice(&ltables);

    let mut t = Vec::new();
    w16(&mut t, 1);
    w16(&mut t, 0);
    w16(&mut t, 10);
    w16(&mut t, (10 + sl.len()) as u16);
    w16(&mut t, (10 + sl.len() + fl.len()) as u16);
    t.extend_from_slice(&sl);
    t.extend_from_slice(&fl);
    t.extend_from_slice(&ll);
    t
}

fn coverage1(v: &mut Vec<u8>, gid: u16) {
    w16(v, 1);
    w16(v, 1);
    w16(v, gid);
}

/// SinglePos format 1 for `gid`: XPlacement = x, YPlacement = y
fn single_pos(gid: u16, x: i16, y: i16) -> Vec<u8> {
    let mut s = Vec::new();
    w16(&mut s, 1);
    w16(&mut s, 10); // coverage offset
    w16(&mut s, 0x0003); // X_PLACEMENT | Y_PLACEMENT
    wi16(&mut s, x);
    wi16(&mut s, y);
    coverage1(&mut s, gid);
    s
}

/// ContextPos format 1: on `gid` apply lookup `lookup` at sequence index 0, `n` times.
fn context_pos_repeat(gid: u16, lookup: u16, n: u16) -> Vec<u8> {
    let mut s = Vec::new();
    w16(&mut s, 1); // format
    w16(&mut s, 8); // coverage offset
    w16(&mut s, 1); // ruleSetCount
    w16(&mut s, 14); // ruleSet offset
    coverage1(&mut s, gid); // 8..14
    w16(&mut s, 1); // ruleCount
    w16(&mut s, 4); // rule offset (from rule set)
    w16(&mut s, 1); // glyphCount
    w16(&mut s, n); // seqLookupCount
    for _ in 0..n {
        w16(&mut s, 0);
        w16(&mut s, lookup);
    }
    s
}

/// MarkBasePos format 1: mark glyph `mark` (anchor m) attaches to base glyph `base` (anchor b)
fn mark_base_pos(base: u16, b: (i16, i16), mark: u16, m: (i16, i16)) -> Vec<u8> {
    let mut s = Vec::new();
    w16(&mut s, 1); // format
    w16(&mut s, 12); // markCoverage
    w16(&mut s, 18); // baseCoverage
    w16(&mut s, 1); // markClassCount
    w16(&mut s, 24); // markArray
    w16(&mut s, 36); // baseArray
    coverage1(&mut s, mark); // 12..18
    coverage1(&mut s, base); // 18..24
    // MarkArray @24
    w16(&mut s, 1);
    w16(&mut s, 0); // class
    w16(&mut s, 6); // anchor offset from MarkArray
    w16(&mut s, 1);
    wi16(&mut s, m.0);
    wi16(&mut s, m.1);
    // BaseArray @36
    w16(&mut s, 1);
    w16(&mut s, 4); // anchor offset from BaseArray
    w16(&mut s, 1);
    wi16(&mut s, b.0);
    wi16(&mut s, b.1);
    s
}

/// CursivePos format 1 for `gid` with the given entry and exit anchors
fn cursive_pos(gid: u16, entry: (i16, i16), exit: (i16, i16)) -> Vec<u8> {
    let mut s = Vec::new();
    w16(&mut s, 1);
    w16(&mut s, 10); // coverage
    w16(&mut s, 1); // entryExitCount
    w16(&mut s, 16); // entry anchor
    w16(&mut s, 22); // exit anchor
    coverage1(&mut s, gid); // 10..16
    w16(&mut s, 1);
    wi16(&mut s, entry.0);
    wi16(&mut s, entry.1);
    w16(&mut s, 1);
    wi16(&mut s, exit.0);
    wi16(&mut s, exit.1);
    s
}

fn glyph(ch: char, glyph_index: u16) -> RawGlyph<()> {
    RawGlyph {
        unicodes: tiny_vec![[char; 1] => ch],
        glyph_index,
        liga_component_pos: 0,
        glyph_origin: GlyphOrigin::Char(ch),
        flags: RawGlyphFlags::empty(),
        extra_data: (),
        variation: None,
    }
}

const TERMINUS: &str = "opentype/TerminusTTF-4.47.0.ttf";

/// Glyph ids of the given chars in the fixture
fn gids(data: &[u8], chars: &[char]) -> Vec<u16> {
    let fd = ReadScope::new(data).read::<FontData<'_>>().unwrap();
    let mut font = Font::new(fd.table_provider(0).unwrap()).unwrap();
    chars
        .iter()
        .map(|&c| {
            let (g, _) = font.lookup_glyph_index(c, MatchingPresentation::NotRequired, None);
            assert_ne!(g, 0, "no glyph for {:?}", c);
            g
        })
        .collect()
}

/// Shapes `text` with the fixture whose GPOS is replaced by `gpos` (GSUB/GDEF/kern removed) and
/// lays the result out.
fn shape_and_layout(
    path: &str,
    gpos: Vec<u8>,
    text: &str,
    script: u32,
    direction: TextDirection,
    vertical: bool,
) {
    let data = read_font(path);
    let fd = ReadScope::new(&data).read::<FontData<'_>>().unwrap();
    let provider = Patched::new(fd.table_provider(0).unwrap())
        .set(tag::GPOS, gpos)
        .remove(tag::GSUB)
        .remove(tag::GDEF)
        .remove(tag::KERN)
        .remove(tag::MORX);
    let mut font = Font::new(provider).expect("font loads");
    let glyphs = font.map_glyphs(text, script, MatchingPresentation::NotRequired);
    let infos = match font.shape(glyphs, script, None, &Features::Custom(vec![]), None, true) {
        Ok(infos) => infos,
        Err((err, _)) => panic!("shaping reported an error: {:?}", err),
    };
    if infos.len() < 8 {
        eprintln!("placements: {:?}", infos.iter().map(|i| i.placement).collect::<Vec<_>>());
    }
    let mut layout = GlyphLayout::new(&mut font, &infos, direction, vertical);
    let _ = layout.glyph_positions();
}

/// Lays out caller supplied `Info`s (placement/kerning are public fields) with the Terminus font.
fn layout_infos(
    n: usize,
    direction: TextDirection,
    vertical: bool,
    edit: impl FnOnce(&mut Vec<Info>),
) {
    let data = read_font(TERMINUS);
    let fd = ReadScope::new(&data).read::<FontData<'_>>().unwrap();
    let mut font = Font::new(fd.table_provider(0).unwrap()).unwrap();
    let (a, _) = font.lookup_glyph_index('a', MatchingPresentation::NotRequired, None);
    let glyphs = (0..n).map(|_| glyph('a', a)).collect();
    let mut infos = Info::init_from_glyphs(None, glyphs);
    edit(&mut infos);
    let mut layout = GlyphLayout::new(&mut font, &infos, direction, vertical);
    let _ = layout.glyph_positions();
}

fn anchor(x: i16, y: i16) -> Anchor {
    Anchor { x, y }
}

// ---------------------------------------------------------------------------------------------
// site 57: font.rs:547  (char_code0 + first_char) - 0x20
// ---------------------------------------------------------------------------------------------

#[test]
fn site57_legacy_symbol_char_code_underflow() {
    // A font whose best cmap sub-table is Windows Symbol and whose OS/2.usFirstCharIndex is < 0x20.
    let data = read_font("opentype/SymbolTest-Regular.ttf");
    let fd = ReadScope::new(&data).read::<FontData<'_>>().unwrap();
    let inner = fd.table_provider(0).unwrap();
    let mut os2 = inner.read_table_data(tag::OS_2).unwrap().into_owned();
    os2[64] = 0; // usFirstCharIndex = 0
    os2[65] = 0;
    // cmap with only a (3, 0) Windows Symbol format 4 sub-table
    let mut cmap = Vec::new();
    w16(&mut cmap, 0);
    w16(&mut cmap, 1);
    w16(&mut cmap, 3);
    w16(&mut cmap, 0);
    w32(&mut cmap, 12);
    for x in [4u16, 24, 0, 2, 2, 0, 0, 0xFFFF, 0, 0xFFFF, 1, 0] {
        w16(&mut cmap, x);
    }
    let provider = Patched::new(inner).set(tag::OS_2, os2).set(tag::CMAP, cmap);
    let mut font = Font::new(provider).expect("font loads");
    assert_eq!(font.cmap_subtable_encoding, Encoding::Symbol);
    expect_overflow_panic("site 57", SUB, "src/font.rs:547", || {
        font.lookup_glyph_index('\u{1}', MatchingPresentation::NotRequired, None)
    });
}

// ---------------------------------------------------------------------------------------------
// glyph_position.rs, caller supplied Infos (Info::placement and Info::kerning are pub fields)
// ---------------------------------------------------------------------------------------------

#[test]
fn site59_60_mark_anchor_plus_base_distance_api() {
    expect_overflow_panic("site 59", ADD, "src/glyph_position.rs:97", || {
        layout_infos(2, TextDirection::LeftToRight, false, |infos| {
            infos[0].placement = Placement::Distance(i32::MAX - 10, 0);
            infos[1].placement = Placement::MarkAnchor(0, anchor(100, 0), anchor(0, 0));
        })
    });
    expect_overflow_panic("site 60", ADD, "src/glyph_position.rs:98", || {
        layout_infos(2, TextDirection::LeftToRight, false, |infos| {
            infos[0].placement = Placement::Distance(0, i32::MAX - 10);
            infos[1].placement = Placement::MarkAnchor(0, anchor(0, 100), anchor(0, 0));
        })
    });
}

#[test]
fn site61_cursive_rtl_advance_accumulates_api() {
    // 65536 Infos all attached to glyph 0: positions[0].hori_advance += entry.x 65536 times
    expect_overflow_panic("site 61", ADD, "src/glyph_position.rs:191", || {
        layout_infos(65536, TextDirection::RightToLeft, false, |infos| {
            let e = anchor(-32768, 0);
            infos[0].kerning = -32768;
            infos[0].placement = Placement::CursiveAnchor(1, false, e, e);
            for info in infos.iter_mut().skip(1) {
                info.placement = Placement::CursiveAnchor(0, false, e, e);
            }
        })
    });
}

#[test]
fn site62_63_cursive_rtl_flag_api() {
    expect_overflow_panic("site 63", ADD, "src/glyph_position.rs:200", || {
        layout_infos(2, TextDirection::LeftToRight, false, |infos| {
            infos[0].placement = Placement::CursiveAnchor(1, true, anchor(0, 100), anchor(0, 0));
            infos[1].placement = Placement::Distance(0, i32::MAX - 10);
        })
    });
    // glyph 0 -> 1 (flag clear, dy 100) makes y[1] = 100; glyph 1 -> 2 (flag set) adds y[2]
    expect_overflow_panic("site 62", ADD, "src/glyph_position.rs:199", || {
        layout_infos(3, TextDirection::LeftToRight, false, |infos| {
            infos[0].placement = Placement::CursiveAnchor(1, false, anchor(0, 100), anchor(0, 0));
            infos[1].placement = Placement::CursiveAnchor(2, true, anchor(0, 0), anchor(0, 0));
            infos[2].placement = Placement::Distance(0, i32::MAX - 50);
        })
    });
}

#[test]
fn site64_65_cursive_api() {
    expect_overflow_panic("site 64", ADD, "src/glyph_position.rs:206", || {
        layout_infos(2, TextDirection::LeftToRight, false, |infos| {
            infos[0].placement = Placement::CursiveAnchor(1, false, anchor(0, 100), anchor(0, 0));
            infos[1].placement = Placement::Distance(0, i32::MAX - 10);
        })
    });
    expect_overflow_panic("site 65", ADD, "src/glyph_position.rs:207", || {
        layout_infos(2, TextDirection::LeftToRight, false, |infos| {
            infos[0].placement = Placement::Distance(0, i32::MAX - 10);
            infos[1].placement = Placement::CursiveAnchor(0, false, anchor(0, 100), anchor(0, 0));
        })
    });
}

#[test]
fn site66_to_71_position_marks_api() {
    let z = anchor(0, 0);
    expect_overflow_panic("site 66", ADD, "src/glyph_position.rs:233", || {
        layout_infos(2, TextDirection::LeftToRight, false, |infos| {
            infos[0].placement = Placement::Distance(1 << 30, 0);
            infos[1].placement = Placement::MarkAnchor(0, z, z);
        })
    });
    expect_overflow_panic("site 67", ADD, "src/glyph_position.rs:234", || {
        layout_infos(2, TextDirection::LeftToRight, false, |infos| {
            infos[0].placement = Placement::Distance(0, 1 << 30);
            infos[1].placement = Placement::MarkAnchor(0, z, z);
        })
    });
    expect_overflow_panic("site 68", SUB, "src/glyph_position.rs:240", || {
        layout_infos(2, TextDirection::LeftToRight, false, |infos| {
            infos[0].placement = Placement::Distance(-(1 << 30), 0);
            infos[1].placement = Placement::MarkAnchor(0, z, z);
        })
    });
    expect_overflow_panic("site 69", SUB, "src/glyph_position.rs:241", || {
        layout_infos(2, TextDirection::LeftToRight, true, |infos| {
            infos[0].placement = Placement::Distance(0, -(1 << 30));
            infos[1].placement = Placement::MarkAnchor(0, z, z);
        })
    });
    // RightToLeft sums positions[i..base_index]: only non-empty when the base FOLLOWS the mark,
    // which gpos never produces but a caller can.
    expect_overflow_panic("site 70", ADD, "src/glyph_position.rs:244", || {
        layout_infos(2, TextDirection::RightToLeft, false, |infos| {
            infos[0].placement = Placement::MarkAnchor(1, z, z);
            infos[1].placement = Placement::Distance((1 << 30) - 1, 0);
        })
    });
    expect_overflow_panic("site 71", ADD, "src/glyph_position.rs:245", || {
        layout_infos(2, TextDirection::RightToLeft, true, |infos| {
            infos[0].placement = Placement::MarkAnchor(1, z, z);
            infos[1].placement = Placement::Distance(0, (1 << 30) - 1);
        })
    });
}

#[test]
fn site72_cursive_chain_cycle_api() {
    // 0 <-> 1 form a cycle; the chain walk is bounded by positions.len() = 70000, so each of the
    // two glyphs receives 35000 * 65535 > i32::MAX
    expect_overflow_panic("site 72", ADD, "src/glyph_position.rs:299", || {
        layout_infos(70000, TextDirection::LeftToRight, false, |infos| {
            let exit = anchor(0, 32767);
            let entry = anchor(0, -32768);
            infos[0].placement = Placement::CursiveAnchor(1, false, exit, entry);
            infos[1].placement = Placement::CursiveAnchor(0, false, exit, entry);
        })
    });
}

#[test]
fn site73_74_sum_advance_api() {
    let z = anchor(0, 0);
    expect_overflow_panic("site 73", ADD, "src/glyph_position.rs:310", || {
        layout_infos(66000, TextDirection::LeftToRight, false, |infos| {
            for info in infos.iter_mut() {
                info.kerning = 32767;
            }
            infos[65999].placement = Placement::MarkAnchor(0, z, z);
        })
    });
    expect_overflow_panic("site 74", ADD, "src/glyph_position.rs:310", || {
        layout_infos(66000, TextDirection::LeftToRight, true, |infos| {
            for info in infos.iter_mut() {
                info.kerning = 32767;
            }
            infos[65999].placement = Placement::MarkAnchor(0, z, z);
        })
    });
}

// ---------------------------------------------------------------------------------------------
// glyph_position.rs, font driven: a GPOS that accumulates a huge Placement::Distance on 'a' with a
// contextual lookup that applies a SinglePos (+32767) N times, then attaches 'b' to 'a' as a mark.
// ---------------------------------------------------------------------------------------------

fn big_distance_gpos(a: u16, b: u16, n: u16, extra: u16, diff: i16, mark: i16, y: bool) -> Vec<u8> {
    big_distance_gpos_step(a, b, n, extra, diff, mark, y, 32767)
}

#[allow(clippy::too_many_arguments)]
fn big_distance_gpos_step(
    a: u16,
    b: u16,
    n: u16,
    extra: u16,
    diff: i16,
    mark: i16,
    y: bool,
    step: i16,
) -> Vec<u8> {
    let (sx, sy) = if y { (0, step) } else { (step, 0) };
    let (bx, by) = if y { (0, diff) } else { (diff, 0) };
    let (mx, my) = if y { (0, mark) } else { (mark, 0) };
    let mut lookups = vec![
        // 0, 1, 2: SinglePos +32767 on 'a'
        Lookup { kind: 1, flag: 0, subtable: single_pos(a, sx, sy) },
        Lookup { kind: 1, flag: 0, subtable: single_pos(a, sx, sy) },
        Lookup { kind: 1, flag: 0, subtable: single_pos(a, sx, sy) },
        // 3: MarkBasePos b on a
        Lookup { kind: 4, flag: 0, subtable: mark_base_pos(a, (bx, by), b, (mx, my)) },
    ];
    // 4: ContextPos applying lookup 0 n times (last, it is big)
    lookups.push(Lookup { kind: 7, flag: 0, subtable: context_pos_repeat(a, 0, n) });
    let dist: Vec<u16> = (1..=extra).collect();
    layout_table(
        tag::LATN,
        &[(tag::DIST, dist), (tag::KERN, vec![4]), (tag::MARK, vec![3])],
        &lookups,
    )
}

#[test]
fn site59_font_driven() {
    let data = read_font(TERMINUS);
    let g = gids(&data, &['a', 'b']);
    // 65535 * 32767 + 2 * 32767 = 2147450879; + (32767 - -32768) anchor difference overflows at :97
    let gpos = big_distance_gpos(g[0], g[1], 65535, 2, 32767, -32768, false);
    expect_overflow_panic("site 59 (font)", ADD, "src/glyph_position.rs:97", || {
        shape_and_layout(TERMINUS, gpos, "ab", tag::LATN, TextDirection::LeftToRight, false)
    });
}

#[test]
fn site60_font_driven() {
    let data = read_font(TERMINUS);
    let g = gids(&data, &['a', 'b']);
    let gpos = big_distance_gpos(g[0], g[1], 65535, 2, 32767, -32768, true);
    expect_overflow_panic("site 60 (font)", ADD, "src/glyph_position.rs:98", || {
        shape_and_layout(TERMINUS, gpos, "ab", tag::LATN, TextDirection::LeftToRight, false)
    });
}

#[test]
fn site66_67_font_driven() {
    let data = read_font(TERMINUS);
    let g = gids(&data, &['a', 'b']);
    // 32769 * 32767 = 2^30 - 1; the mark gets (2 + dx) and then += dx again
    let gpos = big_distance_gpos(g[0], g[1], 32769, 0, 2, 0, false);
    expect_overflow_panic("site 66 (font)", ADD, "src/glyph_position.rs:233", || {
        shape_and_layout(TERMINUS, gpos, "ab", tag::LATN, TextDirection::LeftToRight, false)
    });
    let gpos = big_distance_gpos(g[0], g[1], 32769, 0, 2, 0, true);
    expect_overflow_panic("site 67 (font)", ADD, "src/glyph_position.rs:234", || {
        shape_and_layout(TERMINUS, gpos, "ab", tag::LATN, TextDirection::LeftToRight, false)
    });
}

#[test]
fn site68_font_driven() {
    let data = read_font(TERMINUS);
    let g = gids(&data, &['a', 'b']);
    // 32768 * -32768 = -2^30: the mark gets 2 * -2^30 = i32::MIN, then the base advance is
    // subtracted
    let gpos = big_distance_gpos_step(g[0], g[1], 32768, 0, 0, 0, false, -32768);
    expect_overflow_panic("site 68 (font)", SUB, "src/glyph_position.rs:240", || {
        shape_and_layout(TERMINUS, gpos, "ab", tag::LATN, TextDirection::LeftToRight, false)
    });
}

/// 'a' gets Distance(0, big) and glyph 'b' before it is cursively attached to it.
fn cursive_then_big_distance_gpos(a: u16, b: u16, rtl_flag: bool, n: u16, extra: u16) -> Vec<u8> {
    // CursivePos format 1 covering both glyphs, entry (0,0), exit (0,100)
    let mut curs = Vec::new();
    w16(&mut curs, 1); // format
    w16(&mut curs, 14); // coverage
    w16(&mut curs, 2); // entryExitCount
    let (lo, hi) = if a < b { (a, b) } else { (b, a) };
    // records in coverage order; both glyphs: entry (0,0) @22, exit (0,100) @28
    w16(&mut curs, 22);
    w16(&mut curs, 28);
    w16(&mut curs, 22);
    w16(&mut curs, 28);
    // coverage @14: format 1, 2 glyphs
    w16(&mut curs, 1);
    w16(&mut curs, 2);
    w16(&mut curs, lo);
    w16(&mut curs, hi);
    // anchors
    w16(&mut curs, 1);
    wi16(&mut curs, 0);
    wi16(&mut curs, 0);
    w16(&mut curs, 1);
    wi16(&mut curs, 0);
    wi16(&mut curs, 100);

    let lookups = vec![
        Lookup { kind: 1, flag: 0, subtable: single_pos(a, 0, 32767) },
        Lookup { kind: 1, flag: 0, subtable: single_pos(a, 0, 32767) },
        Lookup { kind: 1, flag: 0, subtable: single_pos(a, 0, 32767) },
        Lookup { kind: 3, flag: if rtl_flag { 1 } else { 0 }, subtable: curs },
        Lookup { kind: 7, flag: 0, subtable: context_pos_repeat(a, 0, n) },
    ];
    let dist: Vec<u16> = (1..=extra).collect();
    // Arabic script: base features are curs, kern, mark, mkmk. 'kern' runs after 'curs' and
    // replaces/creates the Distance on 'a' (which is not cursive-anchored itself: it is last).
    layout_table(
        tag::ARAB,
        &[(tag::CURS, vec![3]), (tag::KERN, vec![4]), (tag::MARK, dist)],
        &lookups,
    )
}

#[test]
fn site63_64_font_driven() {
    let data = read_font(TERMINUS);
    let g = gids(&data, &['a', 'b']);
    // text "ba": b is cursively attached to a; a carries Distance(0, 65535 * 32767 + 2 * 32767 =
    // 2147450879) and the anchors give dy = 65535
    let gpos = cursive_big_dy(g[0], g[1], true);
    expect_overflow_panic("site 63 (font)", ADD, "src/glyph_position.rs:200", || {
        shape_and_layout(TERMINUS, gpos, "ba", tag::ARAB, TextDirection::RightToLeft, false)
    });
    let gpos = cursive_big_dy(g[0], g[1], false);
    expect_overflow_panic("site 64 (font)", ADD, "src/glyph_position.rs:206", || {
        shape_and_layout(TERMINUS, gpos, "ba", tag::ARAB, TextDirection::RightToLeft, false)
    });
}

/// Like `cursive_then_big_distance_gpos` with dy = 65535 and Distance y = 2147450879 on 'a'.
fn cursive_big_dy(a: u16, b: u16, rtl_flag: bool) -> Vec<u8> {
    let mut t = cursive_then_big_distance_gpos(a, b, rtl_flag, 65535, 2);
    // patch the anchors: entry.y = 32767, exit.y = -32768 -> they are the only (0,0)/(0,100)
    // format 1 anchors in the table; find the byte pattern 00 01 00 00 00 00 00 01 00 00 00 64
    let pat = [0u8, 1, 0, 0, 0, 0, 0, 1, 0, 0, 0, 100];
    let pos = t
        .windows(pat.len())
        .position(|w| w == pat)
        .expect("anchor pattern");
    // dy = (entry anchor of the second glyph).y - (exit anchor of the first glyph).y
    t[pos + 4..pos + 6].copy_from_slice(&32767i16.to_be_bytes());
    t[pos + 10..pos + 12].copy_from_slice(&(-32768i16).to_be_bytes());
    t
}

#[test]
fn site72_font_driven_long_cursive_chain() {
    // 32770 identical glyphs, every adjacent pair cursively attached with dy = 65535 and the
    // RIGHT_TO_LEFT lookup flag: glyph 0 receives dy from every later attachment.
    let data = read_font(TERMINUS);
    let g = gids(&data, &['a']);
    let curs = cursive_pos(g[0], (0, -32768), (0, 32767));
    let gpos = layout_table(
        tag::ARAB,
        &[(tag::CURS, vec![0])],
        &[Lookup { kind: 3, flag: 1, subtable: curs }],
    );
    let text: String = std::iter::repeat('a').take(32770).collect();
    expect_overflow_panic("site 72 (font)", ADD, "src/glyph_position.rs:299", || {
        shape_and_layout(TERMINUS, gpos, &text, tag::ARAB, TextDirection::RightToLeft, false)
    });
}

#[test]
fn site65_font_driven_long_cursive_chain() {
    // same without the RIGHT_TO_LEFT flag: y accumulates forwards, `dy + y[first]` overflows
    let data = read_font(TERMINUS);
    let g = gids(&data, &['a']);
    let curs = cursive_pos(g[0], (0, -32768), (0, 32767));
    let gpos = layout_table(
        tag::ARAB,
        &[(tag::CURS, vec![0])],
        &[Lookup { kind: 3, flag: 0, subtable: curs }],
    );
    let text: String = std::iter::repeat('a').take(32770).collect();
    expect_overflow_panic("site 65 (font)", ADD, "src/glyph_position.rs:207", || {
        shape_and_layout(TERMINUS, gpos, &text, tag::ARAB, TextDirection::RightToLeft, false)
    });
}

// ---------------------------------------------------------------------------------------------
// site 120: scripts/indic.rs:2212  glyphs.get(new_index - 1)
// ---------------------------------------------------------------------------------------------

#[test]
fn site120_final_reph_index_underflow() {
    // Devanagari "Ra, Halant, Ka, Anusvara" with a GSUB that
    //  * has an `rphf` ligature Ra+Halant -> reph (so that the syllable has a Reph), and
    //  * deletes Ka (the base) with an empty MultipleSubst sequence in the global `akhn` feature.
    // After the basic features the syllable is [reph (RaToBecomeReph), anusvara (SMVD)]: no glyph
    // after index 0 has a position <= the Reph's target class, so new_index == 0.
    let path = "devanagari/lohit_hi.ttf";
    let data = read_font(path);
    let g = gids(&data, &['\u{0930}', '\u{094D}', '\u{0915}', '\u{0902}', '\u{0916}']);
    let (ra, halant, ka, reph_glyph) = (g[0], g[1], g[2], g[4]);
    let _anusvara = g[3];

    // MultipleSubst format 1: ka -> []
    let mut del = Vec::new();
    w16(&mut del, 1);
    w16(&mut del, 8); // coverage
    w16(&mut del, 1); // sequenceCount
    w16(&mut del, 14); // sequence offset
    coverage1(&mut del, ka); // 8..14
    w16(&mut del, 0); // glyphCount = 0

    // LigatureSubst format 1: ra + halant -> reph_glyph
    let mut lig = Vec::new();
    w16(&mut lig, 1);
    w16(&mut lig, 8); // coverage
    w16(&mut lig, 1); // ligSetCount
    w16(&mut lig, 14); // ligSet offset
    coverage1(&mut lig, ra); // 8..14
    w16(&mut lig, 1); // ligatureCount
    w16(&mut lig, 4); // ligature offset from set
    w16(&mut lig, reph_glyph);
    w16(&mut lig, 2); // componentCount
    w16(&mut lig, halant);

    let gsub = layout_table(
        tag::DEV2,
        &[(tag::AKHN, vec![0]), (tag::RPHF, vec![1])],
        &[
            Lookup { kind: 2, flag: 0, subtable: del },
            Lookup { kind: 4, flag: 0, subtable: lig },
        ],
    );

    let fd = ReadScope::new(&data).read::<FontData<'_>>().unwrap();
    let provider = Patched::new(fd.table_provider(0).unwrap())
        .set(tag::GSUB, gsub)
        .remove(tag::GPOS)
        .remove(tag::GDEF);
    let mut font = Font::new(provider).expect("font loads");
    let glyphs = font.map_glyphs(
        "\u{0930}\u{094D}\u{0915}\u{0902}",
        tag::DEVA,
        MatchingPresentation::NotRequired,
    );
    assert_eq!(glyphs.len(), 4);
    expect_overflow_panic("site 120", SUB, "src/scripts/indic.rs:2212", || {
        let r = font.shape(
            glyphs,
            tag::DEVA,
            None,
            &Features::Mask(FeatureMask::default()),
            None,
            true,
        );
        match &r {
            Ok(infos) => eprintln!("ok {:?}", infos.iter().map(|i| i.glyph.glyph_index).collect::<Vec<_>>()),
            Err((e, infos)) => eprintln!("err {:?} {:?}", e, infos.iter().map(|i| i.glyph.glyph_index).collect::<Vec<_>>()),
        }
    });
}

// ---------------------------------------------------------------------------------------------
// site 125: subset.rs:436  num_h_metrics - 1
// ---------------------------------------------------------------------------------------------

#[test]
fn site125_subset_hhea_zero_h_metrics() {
    let data = read_font(TERMINUS);
    let fd = ReadScope::new(&data).read::<FontData<'_>>().unwrap();
    let inner = fd.table_provider(0).unwrap();
    let mut hhea = inner.read_table_data(tag::HHEA).unwrap().into_owned();
    hhea[34] = 0; // numberOfHMetrics = 0
    hhea[35] = 0;
    let provider = Patched::new(inner).set(tag::HHEA, hhea);
    expect_overflow_panic("site 125", SUB, "src/subset.rs:436", || {
        allsorts::subset::subset(&provider, &[0])
    });
}

// ---------------------------------------------------------------------------------------------
// site 128 (and, masked by it, 129): subset.rs:554  (1 << n) * 16 with >= 4096 tables
// ---------------------------------------------------------------------------------------------

#[test]
fn site128_whole_font_4096_tables() {
    let data = read_font(TERMINUS);
    let fd = ReadScope::new(&data).read::<FontData<'_>>().unwrap();
    let mut provider = Patched::new(fd.table_provider(0).unwrap());
    let mut tags = Vec::new();
    for i in 0..4096u32 {
        // 'x' 'A'+.. tags that do not collide with real tables
        let t = 0x7A7A_0000 | i;
        provider = provider.set(t, vec![0, 0, 0, 0]);
        tags.push(t);
    }
    expect_overflow_panic("site 128", MUL, "src/subset.rs:554", || {
        allsorts::subset::whole_font(&provider, &tags)
    });
}

// ---------------------------------------------------------------------------------------------
// site 158: tables/cmap/subset.rs:141  (prev + 1) == gid  with prev == 0xFFFF
// site 161: tables/cmap/subset.rs:256  gid == prev_gid + 1
// A glyph id list with duplicates (documented as rejected with BadValue, but not checked) that is
// 65536 entries long gives glyph 'A' the new id 0xFFFF.
// ---------------------------------------------------------------------------------------------

fn dup_glyph_ids(x: u16, y: u16) -> Vec<u16> {
    let mut ids = vec![0u16];
    ids.extend(std::iter::repeat(y).take(65534));
    ids.push(x); // index 65535
    ids
}

#[test]
fn site158_format4_segment_prev_plus_one() {
    let data = read_font(TERMINUS);
    let g = gids(&data, &['A', 'B']);
    let ids = dup_glyph_ids(g[0], g[1]);
    let fd = ReadScope::new(&data).read::<FontData<'_>>().unwrap();
    let provider = fd.table_provider(0).unwrap();
    expect_overflow_panic("site 158", ADD, "src/tables/cmap/subset.rs:141", || {
        allsorts::subset::subset(&provider, &ids)
    });
}

#[test]
fn site161_format12_prev_gid_plus_one() {
    // needs a glyf/CFF font whose kept mappings include a supplementary plane character
    let path = "noto/NotoSansTamil-Regular.ttf";
    let data = read_font(path);
    let fd = ReadScope::new(&data).read::<FontData<'_>>().unwrap();
    let (c, x, y, z) = {
        let mut font = Font::new(fd.table_provider(0).unwrap()).unwrap();
        let mut lookup = |cp: u32| {
            std::char::from_u32(cp)
                .map(|ch| font.lookup_glyph_index(ch, MatchingPresentation::NotRequired, None).0)
                .unwrap_or(0)
        };
        let astral = (0x10000..0x20000u32).find(|&cp| lookup(cp) != 0).expect("astral char");
        let z = lookup(astral);
        let c = (0x21..0x3000u32)
            .find(|&cp| {
                let (x, y) = (lookup(cp), lookup(cp + 1));
                x != 0 && y != 0 && x != y && x != z && y != z
            })
            .expect("two consecutive mapped chars");
        (c, lookup(c), lookup(c + 1), z)
    };
    eprintln!("U+{:04X} -> {}, U+{:04X} -> {}, astral glyph {}", c, x, c + 1, y, z);
    let mut ids = dup_glyph_ids(x, y);
    ids[1] = z; // keep an astral mapping as well
    let provider = fd.table_provider(0).unwrap();
    expect_overflow_panic("site 161", ADD, "src/tables/cmap/subset.rs:256", || {
        allsorts::subset::subset(&provider, &ids)
    });
}

// ---------------------------------------------------------------------------------------------
// sites 163-165: tables/cmap/subset.rs:461/463, only reachable with the `prince` feature
// (CmapTarget::MacRoman is never constructed otherwise)
// ---------------------------------------------------------------------------------------------

#[cfg(feature = "prince")]
mod prince {
    use super::*;
    use allsorts::subset::prince::{subset, PrinceCmapTarget};

    /// TTF fixture with a (3,0) Symbol format 12 cmap mapping `ch` -> glyph 1, and the given
    /// OS/2.usFirstCharIndex
    fn run(ch: u32, first_char: u16, msg: &str, loc: &str, what: &str) {
        let data = read_font(TERMINUS);
        let fd = ReadScope::new(&data).read::<FontData<'_>>().unwrap();
        let inner = fd.table_provider(0).unwrap();
        let mut os2 = inner.read_table_data(tag::OS_2).unwrap().into_owned();
        os2[64..66].copy_from_slice(&first_char.to_be_bytes());
        let mut cmap = Vec::new();
        w16(&mut cmap, 0);
        w16(&mut cmap, 1);
        w16(&mut cmap, 3);
        w16(&mut cmap, 0);
        w32(&mut cmap, 12);
        w16(&mut cmap, 12); // format
        w16(&mut cmap, 0);
        w32(&mut cmap, 28); // length
        w32(&mut cmap, 0); // language
        w32(&mut cmap, 1); // numGroups
        w32(&mut cmap, ch);
        w32(&mut cmap, ch);
        w32(&mut cmap, 1);
        let provider = Patched::new(inner).set(tag::OS_2, os2).set(tag::CMAP, cmap);
        expect_overflow_panic(what, msg, loc, || {
            subset(&provider, &[0, 1], PrinceCmapTarget::MacRoman, false)
        });
    }

    #[test]
    fn site163_164_165() {
        run(0xFFFF_FFFF, 0x20, ADD, "src/tables/cmap/subset.rs:461", "site 163");
        run(0xFFFF_0FF0, 0x20, ADD, "src/tables/cmap/subset.rs:463", "site 164");
        run(0x41, 0xFFFF, SUB, "src/tables/cmap/subset.rs:463", "site 165");
    }
}
