"""C17 — text preprocessing only reorders marks and applies documented decompositions.

T17-DISP  preprocess_text dispatches on every ScriptType variant, no wildcard; Myanmar has no effect
T17-EFF   effect whitelist on the character buffer: every operation that can mutate the buffer,
          transitively from preprocess_text, is a permutation primitive (stable) or one of the
          named, documented transformations of its function
T17-SPLIT in the non-decomposing scripts every permutation acts on a sub-slice obtained from
          split_mut(|c| mcc(c) == NotReordered): base characters keep their position
T17-SIG   the non-decomposing entry points take `&mut [char]` (the length cannot change)
"""
import effects
import sym
from facts import callee_is

LEVEL = "other"
EXPLANATION = (
    "Decides C17 as an effect discipline over the type-checked program: starting at scripts::preprocess_text, the character buffer's mutable "
    "capability is followed through every reborrow, deref, sub-slice, split and callee (may-alias propagation per body, recursion into every "
    "crate function that receives it). Every use of that capability must be (a) a stable permutation primitive (sort/sort_by/sort_by_key, "
    "rotate_left/right, swap, reverse) — sort_unstable* is a violation of the stability clause; for Default/Syriac/Arabic additionally on a "
    "sub-slice produced by split_mut with the predicate `modified_combining_class(c) == NotReordered`, so bases keep their position and "
    "marks only move within their run, and the entry points take &mut [char] so the length cannot change; or (b), for Thai/Lao, Khmer and "
    "Indic only, one of the documented transformations listed per function: an element store or insert fed by split_am_vowel / split_matra / a "
    "constant (dotted circle, U+17C1, U+09DF), the single remove of the Bengali ya-nukta recomposition. Anything else (retain, dedup, "
    "truncate, clear, push, drain, extend, a new remove/insert, capture by a closure, passing the buffer to unknown code) is a violation. "
    "The dispatch must list every ScriptType variant and Myanmar must stay effect-free."
)
NOT_DECIDED = (
    "that the Arabic comparator and rotate arguments realise AMTRA exactly, that the matra/vowel tables equal the documented decompositions, "
    "and the index arithmetic of the Thai/Lao and Indic loops are value properties and are not decided."
)
ASSUMPTIONS = ["slice::sort*/rotate*/swap/reverse permute their receiver and sort/sort_by/sort_by_key are stable, as documented by std"]

ROOT = "scripts::preprocess_text"
NON_DECOMPOSING = ("Arabic", "Default", "Syriac")
DECOMPOSING = ("Indic", "Khmer", "ThaiLao")
EFFECT_FREE = ("Myanmar",)

# documented transformations: function -> {(kind, value source)}; value source is a callee suffix whose
# result feeds the stored/inserted char, or 'const'
DOCUMENTED = {
    "scripts::thai_lao::reorder_marks": {("store", "scripts::thai_lao::split_am_vowel"), ("insert", "scripts::thai_lao::split_am_vowel")},
    "scripts::indic::constrain_vowel": {("insert", "const")},
    "scripts::indic::decompose_matra": {("store", "scripts::indic::split_matra"), ("insert", "scripts::indic::split_matra")},
    "scripts::indic::recompose_bengali_ya_nukta": {("store", "const"), ("remove", "")},
    "scripts::khmer::decompose_matra": {("insert", "const")},
}


def value_source(b, prov, eff):
    """'const' or the path of the (single) crate function whose result the stored value is drawn from"""
    if eff.kind == "store":
        t = prov.rvalue(eff.value)
    else:
        t = prov.op(eff.value)
    t = sym.strip(t)
    if t[0] == "c":
        return "const"
    if t[0] == "uneval":
        return "const"
    calls = [x[1] for x in sym.walk(t) if x[0] == "call" and x[1]]
    crate_calls = [c for c in calls if c.startswith("scripts::") or c.startswith("unicode::")]
    if len(set(crate_calls)) == 1:
        return crate_calls[0]
    return "?:" + sym.show(t)[:60]


def split_predicate_ok(fx, closure_dp):
    """closure body is `modified_combining_class(c) == NotReordered`"""
    cb = fx.by_dp.get(closure_dp)
    if cb is None:
        return False
    calls = list(cb.calls())
    has_mcc = any(callee_is(t, "unicode::mcc::modified_combining_class") for _, t in calls)
    eq = [t for _, t in calls if callee_is(t, "std::cmp::PartialEq::eq")]
    if not has_mcc or len(eq) != 1:
        return False
    prov = sym.Prov(cb)
    args = [sym.strip(prov.op(a)) for a in eq[0]["args"]]
    consts = []
    for a in args:
        while a[0] in ("ref", "deref"):
            a = sym.strip(a[1])
        if a[0] == "promoted":
            consts.append(a)
    if len(consts) != 1:
        return False
    st = consts[0][1]
    ok = any(s.endswith("= unicode::mcc::ModifiedCombiningClass::NotReordered") for s in st)
    # the closure's result must be the eq result itself (not negated)
    ret = sym.strip(prov.local(0))
    return ok and ret[0] == "call" and (ret[4] or "").endswith("PartialEq::eq")


class Walker:
    def __init__(self, run, fx, rule):
        self.run, self.fx, self.rule = run, fx, rule
        self.seen = {}
        self.edges = {}     # callee dp -> list of (caller body, effect) that pass the buffer
        self.bodies = {}    # dp -> (body, BufferEffects)

    def visit(self, body, params):
        key = (body.dp, tuple(params))
        if key in self.seen:
            return
        be = effects.BufferEffects(self.fx, body, params)
        self.seen[key] = be
        self.bodies[body.dp] = (body, be)
        for e in be.effects:
            if e.kind == "local":
                cb = self.fx.by_dp[e.name]
                ps = [i + 1 for (i, a) in e.recv]
                self.edges.setdefault(cb.dp, []).append((body, e))
                self.visit(cb, ps)
            elif e.kind == "capture":
                pass


def t17_disp(run, fx):
    rule = "T17-DISP"
    run.rule(rule, "preprocess_text switches on the ScriptType discriminant with an arm for every variant and an unreachable otherwise-edge; "
                   "each variant reaches the expected preprocessing entry and Myanmar reaches none")
    b = fx.body(ROOT)
    if b is None:
        run.anchor_missing(rule, ROOT)
        return None
    adt = fx.adt("scripts::ScriptType")
    if adt is None:
        run.anchor_missing(rule, "scripts::ScriptType")
        return None
    variants = {v["discr"]: v["name"] for v in adt["variants"]}
    sw = None
    for bi, blk in enumerate(b.blocks):
        t = blk["t"]
        if t["k"] == "switch" and b.reachable(bi):
            prov = sym.Prov(b)
            d = sym.strip(prov.op(t["discr"]))
            if d[0] == "discr":
                sw = (bi, t)
                break
    if sw is None:
        run.fail(rule, "preprocess_text:no-dispatch", "no switch on the ScriptType discriminant found", "%s:%s" % (b.file, b.line))
        return None
    bi, t = sw
    listed = {v: tgt for v, tgt in t["arms"]}
    other = t["otherwise"]
    other_unreach = b.term(other)["k"] == "unreachable"
    arm_of = {}
    for d, name in sorted(variants.items()):
        if d in listed:
            arm_of[name] = listed[d]
            run.ok(rule, "variant %s has its own arm" % name)
        elif len(variants) - len(listed) == 1 and not other_unreach:
            # the last variant may be compiled as the otherwise edge
            arm_of[name] = other
            run.ok(rule, "variant %s is the otherwise edge (all others listed)" % name)
        else:
            run.fail(rule, "preprocess_text:variant:%s" % name, "ScriptType::%s is handled by a wildcard arm (or not at all)" % name, b.loc(t))
    return b, arm_of


def entry_calls(fx, b, start, stop_blocks):
    """crate-local calls reachable from `start` before control merges into blocks shared by other arms"""
    seen = b.reach_from(start, avoid=frozenset(stop_blocks))
    out = []
    for bb in sorted(seen):
        t = b.term(bb)
        if t["k"] == "call":
            dp = t["callee"].get("rdp") or t["callee"].get("dp")
            if dp in fx.by_dp:
                out.append((bb, t, fx.by_dp[dp]))
    return out


# UTR #53 (Unicode Arabic Mark Rendering), section 3: Modifier Combining Marks
MCM = {0x0654, 0x0655, 0x0658, 0x06DC, 0x06E3, 0x06E7, 0x06E8, 0x08CA, 0x08CB, 0x08CD, 0x08CE, 0x08CF, 0x08D3, 0x08F3}


def t17_mcm(run, fx):
    import tableread
    rule = "T17-MCM"
    run.rule(rule, "scripts::arabic::is_modifier_combining_mark is true exactly for the 14 Modifier Combining Marks of UTR #53 (the only marks the "
                   "AMTRA steps 2b/2c may move ahead of lower-class marks)")
    b = fx.body("scripts::arabic::is_modifier_combining_mark")
    if b is None:
        return run.anchor_missing(rule, "scripts::arabic::is_modifier_combining_mark")
    try:
        f, bps = tableread.scalar_fn(b)
    except tableread.TableShape as e:
        return run.fail(rule, "mcm:shape", "is_modifier_combining_mark is not a decision table: %s" % e, "%s:%s" % (b.file, b.line))
    pts = set(MCM) | set(bps)
    for v in list(pts):
        pts |= {v - 1, v + 1}
    bad = []
    for v in sorted(x for x in pts if 0 <= x <= 0x10FFFF):
        r = f(v)
        got = bool(r[1]) if r[0] == "some" else False
        if got != (v in MCM):
            bad.append("U+%04X -> %s" % (v, got))
    if bad:
        run.fail(rule, "mcm:" + ",".join(bad)[:80], "is_modifier_combining_mark differs from UTR #53: %s" % bad, "%s:%s" % (b.file, b.line))
    else:
        run.ok(rule, "14 modifier combining marks, %d points evaluated" % len(pts))


def t17_ord(run, fx):
    rule = "T17-ORD"
    run.rule(rule, "preprocess_indic applies its steps in the documented order: the vowel constraints are matched against the text as typed "
                   "(before multi-part matras are split), and marks are sorted after the split: constrain_vowel -> decompose_matra -> "
                   "sort_by_modified_combining_class on every path")
    b = fx.body("scripts::indic::preprocess_indic")
    if b is None:
        return run.anchor_missing(rule, "scripts::indic::preprocess_indic")
    import reach
    ok, msg = reach.ordered_calls(b, ["scripts::indic::constrain_vowel", "scripts::indic::decompose_matra", "sort_by_modified_combining_class"])
    if ok:
        run.ok(rule, "preprocess_indic: %s" % msg)
    else:
        run.fail(rule, "indic-order", "preprocess_indic: %s" % msg, "%s:%s" % (b.file, b.line))


def t17_fast(run, fx):
    rule = "T17-FAST"
    run.rule(rule, "modified_combining_class answers NotReordered without consulting the combining class table only below U+0300, the first "
                   "code point with a non-zero canonical combining class (UnicodeData: U+0300 COMBINING GRAVE ACCENT, ccc 230): walking the function "
                   "with c in U+0300..U+10FFFF (comparisons of c with constants decided on sub-ranges), every path to the return passes "
                   "get_canonical_combining_class")
    b = fx.body("unicode::mcc::modified_combining_class")
    if b is None:
        return run.anchor_missing(rule, "unicode::mcc::modified_combining_class")
    import guards
    prov = sym.Prov(b)
    if not any((t["callee"].get("path") or "").endswith("get_canonical_combining_class") for _, t in b.calls()):
        return run.fail(rule, "mcc-fast-path", "modified_combining_class never consults get_canonical_combining_class", "%s:%s" % (b.file, b.line))

    def kval(t):
        t = sym.strip(t)
        while t[0] == "cast":
            t = sym.strip(t[4])
        if t[0] != "c":
            return None
        k = t[1]
        if isinstance(k, str) and len(k) == 1:
            return ord(k)
        if isinstance(k, int) and not isinstance(k, bool):
            return k
        import re
        m = re.search(r"u\{([0-9a-fA-F]+)\}", str(t[3]) if len(t) > 3 else "")
        return int(m.group(1), 16) if m else None

    def is_c(t):
        t = sym.strip(t)
        while t[0] == "cast" or (t[0] == "call" and (t[1] or "").endswith("From<char> for u32>::from") and t[2]):
            t = sym.strip(t[4] if t[0] == "cast" else t[2][0])
        return t[0] == "arg" and t[1] == 1

    bad = []
    budget = [4000]

    def walk(bb, lo, hi, seen, depth):
        if budget[0] <= 0 or depth > 300:
            bad.append("walk too deep")
            return
        budget[0] -= 1
        t = b.term(bb)
        k = t["k"]
        if k == "return":
            if not seen:
                bad.append("U+%04X..U+%04X" % (lo, hi))
            return
        if k == "call":
            if (t["callee"].get("path") or "").endswith("get_canonical_combining_class"):
                seen = True
            if t.get("target") is not None:
                walk(t["target"], lo, hi, seen, depth + 1)
            return
        if k in ("goto", "assert", "drop"):
            if t.get("target") is not None:
                walk(t["target"], lo, hi, seen, depth + 1)
            return
        if k == "switch":
            d = sym.strip(prov.op(t["discr"]))
            neg = False
            while d[0] == "un" and d[1] == "Not":
                neg = not neg
                d = sym.strip(d[2])
            false_t = [tg for v, tg in t["arms"] if v == 0]
            if t.get("dty") == "bool" and d[0] == "bin" and d[1] in guards.CMP_FLIP and false_t:
                op, x, y = d[1], d[2], d[3]
                if is_c(y) and kval(x) is not None:
                    op, x, y = guards.CMP_FLIP[op], y, x
                kk = kval(y)
                if is_c(x) and kk is not None:
                    tt, ff = t["otherwise"], false_t[0]
                    if neg:
                        tt, ff = ff, tt
                    # sub-ranges of [lo, hi] where `c op kk` is true / false
                    if op in ("Lt", "Le"):
                        cut = kk - 1 if op == "Lt" else kk
                        parts = [(tt, lo, min(hi, cut)), (ff, max(lo, cut + 1), hi)]
                    elif op in ("Gt", "Ge"):
                        cut = kk + 1 if op == "Gt" else kk
                        parts = [(ff, lo, min(hi, cut - 1)), (tt, max(lo, cut), hi)]
                    elif op == "Eq":
                        parts = [(tt, max(lo, kk), min(hi, kk)), (ff, lo, hi)]
                    else:
                        parts = [(ff, max(lo, kk), min(hi, kk)), (tt, lo, hi)]
                    for tg, a, c in parts:
                        if a <= c:
                            walk(tg, a, c, seen, depth + 1)
                    return
            if t.get("dty") == "bool" and d[0] == "call" and (d[1] or "").endswith(("RangeInclusive::<Idx>::contains", "Range::<Idx>::contains")) and len(d[2]) == 2 and false_t:
                r, item = sym.strip(d[2][0]), sym.strip(d[2][1])
                while r[0] in ("ref", "deref"):
                    r = sym.strip(r[1])
                while item[0] in ("ref", "deref"):
                    item = sym.strip(item[1])
                bounds = None
                if r[0] == "call" and (r[1] or "").endswith("RangeInclusive::<Idx>::new") and len(r[2]) == 2:
                    bounds = (kval(r[2][0]), kval(r[2][1]))
                elif r[0] == "agg" and str(r[1]).endswith("ops::Range") and len(r[3]) == 2:
                    e = kval(r[3][1])
                    bounds = (kval(r[3][0]), e - 1 if e is not None else None)
                if is_c(item) and bounds and None not in bounds:
                    tt, ff = t["otherwise"], false_t[0]
                    if neg:
                        tt, ff = ff, tt
                    a0, b0 = bounds
                    for tg, a, c in ((tt, max(lo, a0), min(hi, b0)), (ff, lo, min(hi, a0 - 1)), (ff, max(lo, b0 + 1), hi)):
                        if a <= c:
                            walk(tg, a, c, seen, depth + 1)
                    return
            if is_c(d) and t.get("dty") != "bool":
                for v, tg in t["arms"]:
                    if lo <= v <= hi:
                        walk(tg, v, v, seen, depth + 1)
                walk(t["otherwise"], lo, hi, seen, depth + 1)
                return
            for tg in dict.fromkeys([x for _, x in t["arms"]] + [t["otherwise"]]):
                if b.term(tg)["k"] != "unreachable":
                    walk(tg, lo, hi, seen, depth + 1)
            return
    walk(0, 0x0300, 0x10FFFF, False, 0)
    if bad:
        run.fail(rule, "mcc-fast-path", "modified_combining_class: the NotReordered fast path is not limited to code points below U+0300 (the combining class table "
                 "is not consulted for %s): combining marks inside the widened range are no longer sorted and split the runs they sit in" % ", ".join(sorted(set(bad))[:4]),
                 "%s:%s" % (b.file, b.line))
    else:
        run.ok(rule, "every c in U+0300..U+10FFFF goes through the combining class table")


def t17_ya(run, fx):
    rule = "T17-YA"
    run.rule(rule, "the only recomposition of the Indic preprocessing is the documented one: recompose_bengali_ya_nukta rewrites exactly the pair "
                   "U+09AF BENGALI LETTER YA, U+09BC BENGALI SIGN NUKTA to U+09DF; both tests are equalities with these two constants (no "
                   "script-agnostic predicate), so no other character is ever removed from the text")
    b = fx.body("scripts::indic::recompose_bengali_ya_nukta")
    if b is None:
        return run.anchor_missing(rule, "scripts::indic::recompose_bengali_ya_nukta")
    import guards
    prov = sym.Prov(b)

    def cv(t):
        t = sym.strip(t)
        if t[0] != "c":
            return None
        v = t[1]
        if isinstance(v, str) and len(v) == 1:
            return ord(v)
        if isinstance(v, int) and not isinstance(v, bool):
            return v
        import re
        m = re.search(r"u\{([0-9a-fA-F]+)\}", str(t[3]) if len(t) > 3 else "")
        return int(m.group(1), 16) if m else None
    eqs = set()
    for tb, fb_, op, x, y, sw in guards.branch_conditions(b, prov):
        if op in ("Eq", "Ne"):
            for z in (x, y):
                k = cv(z)
                if k is not None:
                    eqs.add(k)
    # `matches!((a, b), (YA, NUKTA))` tests the characters with value switches instead of `==`
    for bi, blk in enumerate(b.blocks):
        t = blk["t"]
        if t["k"] == "switch" and b.reachable(bi) and t.get("dty") == "char":
            for v, _ in t["arms"]:
                eqs.add(v)
    preds = [c for tb, fb_, c, sw in guards.bool_call_conditions(b, prov) if not (c[4] or c[1] or "").endswith(("::lt", "::le", "::gt", "::ge"))]
    if eqs == {0x09AF, 0x09BC} and not preds:
        run.ok(rule, "recompose_bengali_ya_nukta: tests == U+09AF and == U+09BC only")
    else:
        run.fail(rule, "ya-nukta-pair", "recompose_bengali_ya_nukta decides with %s%s instead of the two equalities with U+09AF and U+09BC: characters other "
                 "than the Bengali nukta are deleted from the text" % (sorted(hex(k) for k in eqs), (" and the predicate(s) %s" % [(c[4] or c[1]).split("::")[-1] for c in preds]) if preds else ""),
                 "%s:%s" % (b.file, b.line))


def t17_sort(run, fx):
    rule = "T17-SORT"
    run.rule(rule, "every maximal run of reordering marks is sorted, whatever its length: in sort_by_modified_combining_class the sort call is not "
                   "control-dependent on any comparison (no length threshold, no early continue); the only branching is the iteration itself")
    b = fx.body("unicode::mcc::sort_by_modified_combining_class")
    if b is None:
        return run.anchor_missing(rule, "unicode::mcc::sort_by_modified_combining_class")
    import guards
    prov = sym.Prov(b)
    conds = guards.branch_conditions(b, prov)
    sorts = [bi for bi, t in b.calls() if (t["callee"].get("path") or "").split("::")[-1] in ("sort_by_key", "sort_by", "sort_by_cached_key")]
    if not sorts:
        return run.fail(rule, "mcc-sort-conditional", "sort_by_modified_combining_class does not call a stable sort", "%s:%s" % (b.file, b.line))
    if conds:
        run.fail(rule, "mcc-sort-conditional", "sort_by_modified_combining_class compares before sorting (%s): some mark runs are left unsorted" % (
            ", ".join("%s %s" % (c[2], sym.show(sym.strip(c[4]))[:20]) for c in conds[:3])), "%s:%s" % (b.file, b.line))
    else:
        run.ok(rule, "the sort of each run is unconditional")


# Canonical_Combining_Class values in use (UnicodeData.txt; the variants of ModifiedCombiningClass plus the three classes it removes)
CCC_IN_USE = [0, 1, 6, 7, 8, 9] + list(range(10, 37)) + [84, 91, 103, 107, 118, 122, 129, 130, 132, 202, 214, 216, 218, 220, 222, 224, 226, 228,
                                                        230, 232, 233, 234, 240]
# Hebrew points and accents in the order of the SBL Hebrew user manual (the same permutation as HarfBuzz's modified classes): ccc 10..26
HEBREW_SBL = [22, 15, 16, 17, 23, 18, 19, 20, 21, 14, 24, 12, 25, 13, 10, 11, 26]


def t17_mcc(run, fx):
    rule = "T17-MCC"
    run.rule(rule, "the modified combining class table (read from the evaluated constant): every canonical combining class in use maps to itself, "
                   "except the documented changes - the Hebrew classes 10..26 follow the SBL Hebrew manual order (22 15 16 17 23 18 19 20 21 14 24 "
                   "12 25 13 10 11 26), Telugu 84 -> 4, 91 -> 5, Thai 103 -> 3. Entries of classes no character has are not constrained")
    c = fx.const("unicode::mcc::MODIFIED_COMBINING_CLASS")
    if c is None or not c.get("bytes") or not c.get("array_len"):
        return run.anchor_missing(rule, "evaluated bytes of unicode::mcc::MODIFIED_COMBINING_CLASS")
    raw = bytes.fromhex(c["bytes"])
    size = (c.get("elem_layout") or {}).get("size") or 1
    n = c["array_len"]
    if size != 1 or n != 256 or len(raw) < 256:
        return run.anchor_missing(rule, "256 one-byte entries in MODIFIED_COMBINING_CLASS (found %d entries of %d bytes)" % (n, size))
    want = {v: v for v in CCC_IN_USE}
    want.update({84: 4, 91: 5, 103: 3})
    for i, v in enumerate(HEBREW_SBL):
        want[10 + i] = v
    bad = [(k, raw[k], w) for k, w in sorted(want.items()) if raw[k] != w]
    if bad:
        for k, got, w in bad[:6]:
            run.fail(rule, "mcc:%d" % k, "MODIFIED_COMBINING_CLASS[%d] is %d, the documented modified class is %d: marks of class %d sort in another place than "
                     "documented" % (k, got, w, k), "%s:%s" % (c.get("file"), c.get("line")))
    else:
        run.ok(rule, "%d classes in use map as documented" % len(want))


# opentype-shaping-thai-lao: the above-base marks a NIKHAHIT/NIGGAHITA that comes from SARA AM is moved in front of
THAI_LAO_ABOVE = {0x0E31} | set(range(0x0E34, 0x0E38)) | set(range(0x0E47, 0x0E4F)) | {0x0EB1} | set(range(0x0EB4, 0x0EB8)) | {0x0EBB} | set(range(0x0EC8, 0x0ECE))
AM_SPLIT = {0x0E33: (0x0E4D, 0x0E32), 0x0EB3: (0x0ECD, 0x0EB2)}


def t17_thai(run, fx):
    import tableread
    rule = "T17-THAI"
    run.rule(rule, "scripts::thai_lao::is_abovebase_mark is true exactly for the above-base vowels, tone marks and signs of Thai (U+0E31, U+0E34..0E37, "
                   "U+0E47..0E4E) and Lao (U+0EB1, U+0EB4..0EB7, U+0EBB, U+0EC8..0ECD): these are the marks the nikhahit split off SARA AM is rotated in "
                   "front of (evaluated over U+0D00..U+0FFF and around every constant of the function)")
    b = fx.body("scripts::thai_lao::is_abovebase_mark")
    if b is None:
        return run.anchor_missing(rule, "scripts::thai_lao::is_abovebase_mark")
    try:
        f, bps = tableread.scalar_fn(b)
        pts = set(range(0x0D00, 0x1000)) | set(THAI_LAO_ABOVE) | {0, 0x7F, 0x80, 0xFF, 0x10FFFF}
        for v in list(bps):
            if isinstance(v, int):
                pts |= {v - 1, v, v + 1}
        bad = []
        for v in sorted(x for x in pts if 0 <= x <= 0x10FFFF and not (0xD800 <= x <= 0xDFFF)):
            r = f(v)
            got = bool(r[1]) if r[0] == "some" else False
            if got != (v in THAI_LAO_ABOVE):
                bad.append("U+%04X -> %s" % (v, got))
    except tableread.TableShape as e:
        return run.fail(rule, "thai:shape", "is_abovebase_mark is not a decision over its argument that can be evaluated: %s" % e, "%s:%s" % (b.file, b.line))
    if bad:
        run.fail(rule, "thai:" + ",".join(bad)[:80], "is_abovebase_mark differs from the Thai/Lao above-base mark set: %s" % bad[:8], "%s:%s" % (b.file, b.line))
    else:
        run.ok(rule, "%d above-base marks, %d points evaluated" % (len(THAI_LAO_ABOVE), len(pts)))
    # order of the two steps (Thai/Lao shaping document: SARA AM is decomposed and its nikhahit moved first, the combining-class reordering
    # follows): nothing that splits or rotates runs after the sort
    rm = fx.body("scripts::thai_lao::reorder_marks")
    if rm is None:
        return run.anchor_missing(rule, "scripts::thai_lao::reorder_marks")
    sorts = [bi for bi, t in rm.calls() if (t["callee"].get("path") or "").endswith("mcc::sort_by_modified_combining_class") and rm.reachable(bi)]
    edits = [(bi, (t["callee"].get("path") or "").split("::")[-1]) for bi, t in rm.calls()
             if (t["callee"].get("path") or "").endswith(("::insert", "::rotate_right", "::rotate_left", "::swap")) and rm.reachable(bi)]
    if not sorts or not edits:
        return run.anchor_missing(rule, "the AM split and the combining-class sort in thai_lao::reorder_marks")
    late = sorted({nm for sb in sorts for bi, nm in edits if bi in rm.reach_from(sb)})
    if late:
        run.fail(rule, "thai:sort-before-split", "thai_lao::reorder_marks still edits the text (%s) after sort_by_modified_combining_class: the nikhahit split off a SARA AM "
                 "is then placed among marks that were ordered without it" % ", ".join(late), "%s:%s" % (rm.file, rm.line))
    else:
        run.ok(rule, "the combining-class sort follows the SARA AM split")



def t17_mps(run, fx, floors=True):
    rule = "T17-MPS"
    run.rule(rule, "the script-specific mark reordering functions sort every text: in each function other than the dispatcher that calls "
                   "sort_by_modified_combining_class, every path from entry to a normal return passes that call (a fast path that returns early "
                   "leaves mark runs unsorted); only a return for a text of fewer than two characters may bypass it")
    import guards
    n = 0
    for b in fx.bodies:
        if b.kind == "Closure" or b.root == "scripts::preprocess_text" or b.root.startswith("unicode::mcc::"):
            continue
        cut = {bi for bi, t in b.calls() if (t["callee"].get("path") or "").endswith("mcc::sort_by_modified_combining_class")}
        if not cut:
            continue
        n += 1
        prov = sym.Prov(b)
        trivial = set()
        for tb, fb, op, x, y, sw in guards.branch_conditions(b, prov):
            for blk, o in ((tb, op), (fb, guards.CMP_NEG.get(op))):
                if blk is None or o is None:
                    continue
                xs, ys = sym.strip(x), sym.strip(y)
                if xs[0] == "call" and (xs[4] or xs[1] or "").endswith("::len") and ys[0] == "c" and isinstance(ys[1], int):
                    if (o == "Lt" and ys[1] <= 2) or (o == "Le" and ys[1] <= 1) or (o == "Eq" and ys[1] <= 1):
                        trivial.add(blk)
        for tb, fb, call, sw in guards.bool_call_conditions(b, prov):
            if tb is not None and (call[4] or call[1] or "").endswith("::is_empty"):
                trivial.add(tb)
        reach = b.reach_from(0, avoid=frozenset(cut | trivial))
        leaks = [r for r in b.return_blocks() if r in reach]
        if leaks:
            run.fail(rule, "sort-bypassed:%s" % b.root, "%s can return without calling sort_by_modified_combining_class: on that path mark runs keep their input order" % b.path,
                     "%s:%s" % (b.file, b.line))
        else:
            run.ok(rule, "%s sorts on every path" % b.path)
    if floors and n < 4:
        run.anchor_missing(rule, "script functions that call sort_by_modified_combining_class (found %d)" % n)

def check(run, fx, tier, floors=True):
    import bsearch
    bsearch.rule_bsearch(run, fx, "T17-BS", select=lambda b: b.file.startswith(('src/scripts', 'src/unicode')), floors=floors, floor_n=0)
    if floors or fx.body("scripts::arabic::is_modifier_combining_mark") is not None:
        t17_mcm(run, fx)
    if floors or fx.body("scripts::indic::preprocess_indic") is not None:
        t17_ord(run, fx)
    if floors or fx.body("scripts::indic::recompose_bengali_ya_nukta") is not None:
        t17_ya(run, fx)
    if floors or fx.body("unicode::mcc::modified_combining_class") is not None:
        t17_fast(run, fx)
    if floors or fx.body("unicode::mcc::sort_by_modified_combining_class") is not None:
        t17_sort(run, fx)
    if floors or fx.const("unicode::mcc::MODIFIED_COMBINING_CLASS") is not None:
        t17_mcc(run, fx)
    if floors or fx.body("scripts::thai_lao::is_abovebase_mark") is not None:
        t17_thai(run, fx)
    if floors or fx.body("scripts::arabic::reorder_marks") is not None:
        t17_mps(run, fx, floors)
    r = t17_disp(run, fx)
    rule = "T17-EFF"
    run.rule(rule, "every use of the character buffer's mutable capability reachable from preprocess_text is a stable permutation primitive or a "
                   "documented transformation listed for its function (value fed by the named decomposition table or a constant)")
    run.rule("T17-SPLIT", "for Default/Syriac/Arabic every permutation primitive acts on a slice derived from split_mut whose predicate is "
                          "modified_combining_class(c) == NotReordered (through callers where the slice is a parameter)")
    run.rule("T17-SIG", "the Default/Syriac/Arabic entry points take &mut [char]: the text length cannot change")
    if r is None:
        return
    b, arm_of = r
    # blocks shared by several arms (the join) are not part of any single arm
    arm_blocks = {n: b.reach_from(s) for n, s in arm_of.items()}
    shared = set()
    names = list(arm_blocks)
    for i in range(len(names)):
        for j in range(i + 1, len(names)):
            shared |= (arm_blocks[names[i]] & arm_blocks[names[j]])
    n_eff = 0
    for name, start in sorted(arm_of.items()):
        calls = entry_calls(fx, b, start, shared)
        buf_calls = []
        for bb, t, cb in calls:
            # the buffer is parameter 1 of preprocess_text
            be0 = effects.BufferEffects(fx, b, [1])
            ps = [i + 1 for i, a in enumerate(t["args"]) if a["k"] in ("copy", "move") and be0.derived(a["p"]["l"]) and effects.is_mut_cap(b.local_ty(a["p"]["l"]))]
            if ps:
                buf_calls.append((bb, t, cb, ps))
        if name in EFFECT_FREE:
            if buf_calls:
                run.fail(rule, "effect:%s:%s" % (name, buf_calls[0][2].root), "ScriptType::%s must leave the text untouched but passes it to %s" % (name, buf_calls[0][2].path), b.loc(buf_calls[0][1]))
            else:
                run.ok(rule, "ScriptType::%s: no use of the buffer" % name)
            continue
        if not buf_calls:
            run.fail(rule, "effect:%s:none" % name, "ScriptType::%s no longer preprocesses the text (expected a call receiving the buffer)" % name, b.loc(b.term(start)))
            continue
        decomposing = name in DECOMPOSING
        w = Walker(run, fx, rule)
        for bb, t, cb, ps in buf_calls:
            if not decomposing:
                for p in ps:
                    ty = cb.local_ty(p)
                    if ty == "&mut [char]":
                        run.ok("T17-SIG", "%s: %s takes &mut [char]" % (name, cb.path))
                    else:
                        run.fail("T17-SIG", "sig:%s:%s" % (name, cb.root), "entry point %s for ScriptType::%s takes %s, not &mut [char]: the text length may change" % (cb.path, name, ty), "%s:%s" % (cb.file, cb.line))
            w.visit(cb, ps)
        # also direct effects inside preprocess_text's own arm
        for dp, (fb, be) in sorted(w.bodies.items()):
            prov = sym.Prov(fb)
            for e in be.effects:
                n_eff += 1
                site = fb.loc(e.item)
                if e.kind == "local":
                    continue
                if e.kind == "permute":
                    run.ok(rule, "%s [%s]: %s (permutation)" % (fb.root, name, e.name))
                    if not decomposing:
                        why = split_rooted(fx, w, fb, be, e, set())
                        if why is True:
                            run.ok("T17-SPLIT", "%s: %s acts on a NotReordered-delimited run" % (fb.root, e.name))
                        else:
                            run.fail("T17-SPLIT", "split:%s:%s" % (fb.root, e.name), "permutation %s in %s (ScriptType::%s) is not confined to a run of reordering marks: %s" % (e.name, fb.root, name, why), site)
                    continue
                if e.kind == "unstable":
                    run.fail(rule, "effect:%s:unstable:%s" % (fb.root, e.name), "%s is not a stable sort: marks of equal class may be reordered" % e.name, site)
                    continue
                if e.kind in ("store", "insert", "remove"):
                    src = value_source(fb, prov, e) if e.kind != "remove" else ""
                    allowed = DOCUMENTED.get(fb.root, set()) if decomposing else set()
                    if (e.kind, src) in allowed:
                        run.ok(rule, "%s [%s]: %s fed by %s (documented transformation)" % (fb.root, name, e.kind, src or "-"))
                    else:
                        run.fail(rule, "effect:%s:%s:%s" % (fb.root, e.kind, src), "buffer %s in %s (ScriptType::%s) is not a documented transformation (value from %s)" % (e.kind, fb.root, name, src or "-"), site)
                    continue
                run.fail(rule, "effect:%s:%s:%s" % (fb.root, e.kind, e.name), "the character buffer is %s in %s (ScriptType::%s): not a permutation primitive or documented transformation" % (
                    "captured by a closure" if e.kind == "capture" else "passed to " + e.name, fb.root, name), site)
    if floors:
        run.floor(rule, "buffer effects reachable from preprocess_text", n_eff, 20)


def split_rooted(fx, w, fb, be, e, seen):
    """True when the receiver of permutation effect `e` derives from a NotReordered split, locally or
    through every caller that passes the buffer to this function; else a reason string"""
    root = e.root
    if root.startswith("split:"):
        return True if split_predicate_ok(fx, root[len("split:"):]) else "split_mut predicate is not modified_combining_class(c) == NotReordered"
    # parameter-rooted: every caller edge must pass a split-rooted slice
    if fb.dp in seen:
        return True
    seen = seen | {fb.dp}
    edges = w.edges.get(fb.dp, [])
    if not edges:
        return "acts directly on the whole text"
    for (cb, ce) in edges:
        cbe = w.bodies[cb.dp][1]
        r = split_rooted(fx, w, cb, cbe, ce, seen)
        if r is not True:
            return "%s (via %s)" % (r, cb.root)
    return True
