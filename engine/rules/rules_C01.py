"""C01 — untrusted font data is rejected with an error, never a crash (clauses a, b, c, d, f)."""
import arith
import indexing
import overflow
import loops
import panics
import recursion

LEVEL = "other"
EXPLANATION = (
    "C01 is split into clauses that are visible in the shape of the code and decided over the whole crate: (C01-a) every "
    "recursive cycle of the per-instance call graph passes a depth guard with a monotone counter — bounded stack for every font; "
    "(C01-b) every documented panic site (unwrap/expect, panic!/unreachable!/assert!/todo!, range slicing, std calls that panic on "
    "an argument relation) is locally discharged by a dominating check, or is an audited exception with a written reason in "
    "ledger/explicit_panic.jsonl, or a known finding — a new site or a site whose guard is removed is a violation; (C01-c) every "
    "allocation size originates from a constant, an in-memory length, a type-bounded value or an API argument; (C01-d) every "
    "division by a non-constant is guarded against zero; (C01-f) every hand-written loop has a progress witness; (C01-g) every element "
    "indexing site x[i] is discharged by a constant/type-bounded index into a fixed-size array or a dominating i < x.len() on the same "
    "receiver and value, or is an audited site with a written in-range argument (ledger/index.jsonl, 257 sites read by four independent "
    "reviewers) — a new indexing site or a removed bound check is a violation."
)
NOT_DECIDED = (
    "integer add/mul/neg/shift/sub overflow (about 700 overflow asserts; wrap-around in release builds): proving them absent needs "
    "relational value-range reasoning across loops and calls; running time of terminating loops "
    "(e.g. cmap format 12 group iteration); decompression output size in WOFF/WOFF2; unsigned subtraction overflow (clause e) is not claimed."
)
ASSUMPTIONS = ["std/core functions panic only as documented", "third-party crates (brotli, flate2, encoding_rs) do not panic on any input"]


def check(run, fx, tier, floors=True):
    recursion.run_rule(run, fx, "C01-a", lambda f: True, floors_n=6 if floors else None)
    rule_panics(run, fx, "C01-b", None, floors)
    arith.rule_alloc(run, fx, "C01-c", floors)
    arith.rule_div(run, fx, "C01-d", floors)
    loops.rule_loops(run, fx, "C01-f", floors)
    indexing.rule_index(run, fx, "C01-g", floors)
    overflow.rule_overflow(run, fx, "C01-e", floors)


def rule_panics(run, fx, rule, select, floors, floor_n=200):
    run.rule(rule, "every documented panic site is discharged by a dominating check, audited in ledger/explicit_panic.jsonl (key = kind|function|callee|payload, "
                   "with a count), or a known finding; new sites, higher counts and removed guards are violations")
    sites = panics.enumerate_sites(fx)
    n = 0
    for s in sites:
        if select and not select(s.body):
            continue
        n += 1
        why = panics.discharge(fx, s)
        if why:
            run.ok(rule, "%s in %s: %s" % (s.what, s.body.path, why))
            continue
        msg = "explicit panic site (%s %s %s) is neither discharged by a dominating check nor audited" % (s.cls, s.what, s.payload)
        if s.debug_only:
            msg += " [debug builds only]"
        run.fail(rule, s.key(), msg, s.loc(), ledger="explicit_panic")
    if floors:
        run.floor(rule, "explicit panic sites", n, floor_n)
    return n
