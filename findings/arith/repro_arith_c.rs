// Reproductions for the arithmetic overflow panics of audit group C (all fixed in /repo): copy to /repo/tests/
// and run `cargo test --offline --test repro_arith_c`. Every site_* test panicked before the fixes.
// Reproductions for the arithmetic-overflow audit, site list C.
//
// Every test drives the PUBLIC API only, with hand-built (or patched) table bytes, and asserts that
// the resulting panic is "attempt to ... with overflow" at the audited source line.
//
// Run: cargo test --offline --test arith_repro_c

use std::borrow::Cow;
use std::collections::HashMap;
use std::panic::{self, AssertUnwindSafe};
use std::sync::{Mutex, Once};
use std::thread::{self, ThreadId};

use tinyvec::tiny_vec;

use allsorts::binary::read::ReadScope;
use allsorts::binary::write::{WriteBinary, WriteBuffer};
use allsorts::bitmap::sbix::SbixGlyph;
use allsorts::error::ParseError;
use allsorts::font_data::FontData;
use allsorts::gpos::{self, Info};
use allsorts::gsub::{Features, GlyphOrigin, RawGlyph, RawGlyphFlags};
use allsorts::layout::{new_layout_cache, GDEFTable, LayoutTable, GPOS};
use allsorts::tables::cmap::{owned as cmap_owned, CmapSubtable};
use allsorts::tables::kern::KernTable;
use allsorts::tables::variable_fonts::fvar::{FvarTable, OwnedTuple};
use allsorts::tables::{F2Dot14, Fixed, FontTableProvider};
use allsorts::tag;

// ---------------------------------------------------------------------------------------------
// panic location capture

static HOOK: Once = Once::new();
static PANICS: Mutex<Option<HashMap<ThreadId, (String, u32, String)>>> = Mutex::new(None);

fn install_hook() {
    HOOK.call_once(|| {
        let prev = panic::take_hook();
        panic::set_hook(Box::new(move |info| {
            let msg = if let Some(s) = info.payload().downcast_ref::<&str>() {
                s.to_string()
            } else if let Some(s) = info.payload().downcast_ref::<String>() {
                s.clone()
            } else {
                String::from("?")
            };
            if let Some(loc) = info.location() {
                let mut guard = PANICS.lock().unwrap_or_else(|e| e.into_inner());
                guard
                    .get_or_insert_with(HashMap::new)
                    .insert(thread::current().id(), (loc.file().to_string(), loc.line(), msg));
            }
            prev(info);
        }));
    });
}

/// Run `f`. Before the fixes it panicked with an arithmetic overflow at `file`:`line`; it must return now.
/// (The audit version of this helper asserted the panic and its location.)
fn expect_overflow_at<R>(file: &str, line: u32, f: impl FnOnce() -> R) {
    install_hook();
    let res = panic::catch_unwind(AssertUnwindSafe(f));
    assert!(res.is_ok(), "panicked; before the fix this overflowed at {}:{}", file, line);
}

// ---------------------------------------------------------------------------------------------
// byte helpers

fn w16(v: &mut Vec<u8>, x: u16) {
    v.extend_from_slice(&x.to_be_bytes());
}
fn w32(v: &mut Vec<u8>, x: u32) {
    v.extend_from_slice(&x.to_be_bytes());
}
fn words(ws: &[u16]) -> Vec<u8> {
    let mut v = Vec::new();
    for w in ws {
        w16(&mut v, *w);
    }
    v
}

/// GPOS 1.0 with script DFLT / default langsys, one feature `kern` that references every lookup,
/// each lookup having a single subtable.
fn build_gpos(lookups: &[(u16, Vec<u8>)]) -> Vec<u8> {
    let n = lookups.len() as u16;
    let mut script_list = Vec::new();
    w16(&mut script_list, 1); // scriptCount
    w32(&mut script_list, tag::DFLT);
    w16(&mut script_list, 8); // script table offset
    w16(&mut script_list, 4); // defaultLangSys offset
    w16(&mut script_list, 0); // langSysCount
    w16(&mut script_list, 0); // lookupOrder
    w16(&mut script_list, 0xFFFF); // requiredFeatureIndex
    w16(&mut script_list, 1); // featureIndexCount
    w16(&mut script_list, 0); // feature 0

    let mut feature_list = Vec::new();
    w16(&mut feature_list, 1);
    w32(&mut feature_list, tag::KERN);
    w16(&mut feature_list, 8);
    w16(&mut feature_list, 0); // featureParams
    w16(&mut feature_list, n);
    for i in 0..n {
        w16(&mut feature_list, i);
    }

    let mut lookup_list = Vec::new();
    w16(&mut lookup_list, n);
    let mut off = 2 + 2 * usize::from(n);
    let mut bodies = Vec::new();
    for (ty, sub) in lookups {
        w16(&mut lookup_list, off as u16);
        let mut l = Vec::new();
        w16(&mut l, *ty);
        w16(&mut l, 0); // lookupFlag
        w16(&mut l, 1); // subTableCount
        w16(&mut l, 8); // subtable offset
        l.extend_from_slice(sub);
        off += l.len();
        bodies.push(l);
    }
    for b in bodies {
        lookup_list.extend_from_slice(&b);
    }

    let mut t = Vec::new();
    w16(&mut t, 1);
    w16(&mut t, 0);
    let sl = 10u16;
    let fl = sl + script_list.len() as u16;
    let ll = fl + feature_list.len() as u16;
    w16(&mut t, sl);
    w16(&mut t, fl);
    w16(&mut t, ll);
    t.extend_from_slice(&script_list);
    t.extend_from_slice(&feature_list);
    t.extend_from_slice(&lookup_list);
    t
}

/// SinglePosFormat1 covering `glyph`. `vals` = (xPlacement, yPlacement, xAdvance) (None = absent),
/// `devs` = VariationIndex (outer, inner) for xPlaDevice, yPlaDevice, xAdvDevice.
fn single_pos(
    glyph: u16,
    vals: [Option<i16>; 3],
    devs: [Option<(u16, u16)>; 3],
) -> (u16, Vec<u8>) {
    let mut format = 0u16;
    let mut n = 0usize;
    for (i, v) in vals.iter().enumerate() {
        if v.is_some() {
            format |= 1 << i;
            n += 1;
        }
    }
    let dev_bits = [4, 5, 6];
    for (i, d) in devs.iter().enumerate() {
        if d.is_some() {
            format |= 1 << dev_bits[i];
            n += 1;
        }
    }
    let hdr_len = 6 + 2 * n;
    let cov_off = hdr_len;
    let mut dev_off = cov_off + 6;
    let mut s = Vec::new();
    w16(&mut s, 1);
    w16(&mut s, cov_off as u16);
    w16(&mut s, format);
    for v in vals.iter().flatten() {
        w16(&mut s, *v as u16);
    }
    let mut dev_tables = Vec::new();
    for (outer, inner) in devs.iter().flatten() {
        w16(&mut s, dev_off as u16);
        dev_off += 6;
        w16(&mut dev_tables, *outer);
        w16(&mut dev_tables, *inner);
        w16(&mut dev_tables, 0x8000);
    }
    assert_eq!(s.len(), hdr_len);
    s.extend_from_slice(&words(&[1, 1, glyph])); // coverage format 1
    s.extend_from_slice(&dev_tables);
    (1, s)
}

/// MarkBasePosFormat1: base glyph `base` with anchor (bx, by), mark glyph `mark` with anchor (0,0).
fn mark_base_pos(base: u16, mark: u16, bx: i16, by: i16) -> (u16, Vec<u8>) {
    let mut s = Vec::new();
    // header 12 bytes, mark coverage @12 (6), base coverage @18 (6), mark array @24, base array @36
    s.extend_from_slice(&words(&[1, 12, 18, 1, 24, 36]));
    s.extend_from_slice(&words(&[1, 1, mark]));
    s.extend_from_slice(&words(&[1, 1, base]));
    // MarkArray @24: count=1, record(class 0, anchor offset 6), anchor fmt1 (0,0) => 12 bytes
    s.extend_from_slice(&words(&[1, 0, 6, 1, 0, 0]));
    // BaseArray @36: count=1, record(anchor offset 4), anchor fmt 1
    s.extend_from_slice(&words(&[1, 4, 1, bx as u16, by as u16]));
    (4, s)
}

/// GDEF 1.3 with only an ItemVariationStore: one axis, one region (peak 1.0),
/// data 0 item 0 = short delta `+1`, data 1 item 0 = LONG_WORDS delta i32::MAX.
fn build_gdef_ivs() -> Vec<u8> {
    let mut ivs = Vec::new();
    w16(&mut ivs, 1); // format
    w32(&mut ivs, 16); // region list offset
    w16(&mut ivs, 2); // item variation data count
    w32(&mut ivs, 30); // data 0
    w32(&mut ivs, 40); // data 1
    assert_eq!(ivs.len(), 16);
    // region list: axisCount 1, regionCount 1, (start 0, peak 1.0, end 1.0)
    ivs.extend_from_slice(&words(&[1, 1, 0, 0x4000, 0x4000]));
    // padding to 30
    while ivs.len() < 30 {
        ivs.push(0);
    }
    // data 0: itemCount 1, wordDeltaCount 1, regionIndexCount 1, region 0, delta +1
    ivs.extend_from_slice(&words(&[1, 1, 1, 0, 1]));
    assert_eq!(ivs.len(), 40);
    // data 1: itemCount 1, wordDeltaCount LONG|1, regionIndexCount 1, region 0, delta 0x7FFFFFFF
    ivs.extend_from_slice(&words(&[1, 0x8001, 1, 0]));
    w32(&mut ivs, 0x7FFF_FFFF);

    let mut gdef = Vec::new();
    gdef.extend_from_slice(&words(&[1, 3, 0, 0, 0, 0, 0]));
    w32(&mut gdef, 18);
    assert_eq!(gdef.len(), 18);
    gdef.extend_from_slice(&ivs);
    gdef
}

/// `fvar` with a single axis (min, default, max given as raw 16.16 values).
fn build_fvar(min: i32, default: i32, max: i32) -> Vec<u8> {
    let mut f = Vec::new();
    f.extend_from_slice(&words(&[1, 0, 16, 2, 1, 20, 0, 8]));
    w32(&mut f, tag::WGHT);
    w32(&mut f, min as u32);
    w32(&mut f, default as u32);
    w32(&mut f, max as u32);
    w16(&mut f, 0);
    w16(&mut f, 256);
    f
}

fn peak_tuple() -> OwnedTuple {
    let fvar_data = build_fvar(0, 0, 0x10000);
    let fvar = ReadScope::new(&fvar_data).read::<FvarTable<'_>>().unwrap();
    fvar.owned_tuple(&[F2Dot14::from_raw(0x4000)]).unwrap()
}

fn glyph(glyph_index: u16) -> RawGlyph<()> {
    RawGlyph {
        unicodes: tiny_vec![],
        glyph_index,
        liga_component_pos: 0,
        glyph_origin: GlyphOrigin::Direct,
        flags: RawGlyphFlags::empty(),
        extra_data: (),
        variation: None,
    }
}

/// Position `glyphs` with the given GPOS lookups (all in feature `kern`, script DFLT).
fn run_gpos(lookups: &[(u16, Vec<u8>)], glyphs: &[u16], variable: bool) -> Result<(), ParseError> {
    let gpos_data = build_gpos(lookups);
    let gpos_table = ReadScope::new(&gpos_data).read::<LayoutTable<GPOS>>()?;
    let cache = new_layout_cache(gpos_table);
    let gdef_data = build_gdef_ivs();
    let gdef = ReadScope::new(&gdef_data).read::<GDEFTable>()?;
    let tuple = peak_tuple();
    let mut infos = Info::init_from_glyphs(Some(&gdef), glyphs.iter().copied().map(glyph).collect());
    gpos::apply(
        &cache,
        Some(&gdef),
        None,
        true,
        &Features::Custom(vec![]),
        variable.then(|| tuple.as_tuple()),
        tag::DFLT,
        None,
        &mut infos,
    )
}

const MAX: Option<i16> = Some(i16::MAX);

// ---------------------------------------------------------------------------------------------
// sanity: the builders produce tables that position glyphs when values are small

#[test]
fn builders_are_well_formed() {
    install_hook();
    let l = single_pos(1, [Some(3), Some(4), Some(5)], [Some((0, 0)), None, Some((0, 0))]);
    run_gpos(&[l.clone(), l], &[1], true).unwrap();
    run_gpos(&[mark_base_pos(1, 2, 10, 10), single_pos(2, [Some(1), Some(1), None], [None; 3])], &[1, 2], false).unwrap();
}

// ---------------------------------------------------------------------------------------------
// site 10: bitmap/sbix.rs:132  `length - 8`

#[test]
fn site_010_sbix_glyph_read_dep_short_length() {
    // Only reachable by calling the public ReadBinaryDep impl directly: SbixStrike::read_glyph
    // limits the scope to `length` bytes, so the three header reads fail first.
    let data = [0u8; 8];
    expect_overflow_at("src/bitmap/sbix.rs", 132, || {
        ReadScope::new(&data).read_dep::<SbixGlyph<'_>>(0).map(|_| ())
    });
}

// ---------------------------------------------------------------------------------------------
// site 77: gpos.rs:238 `kerning += value` over kern sub-tables

#[test]
fn site_077_kern_subtables_sum() {
    let mut kern = Vec::new();
    kern.extend_from_slice(&words(&[0, 2]));
    for _ in 0..2 {
        // version, length, coverage (format 0, horizontal), nPairs, searchRange, entrySelector, rangeShift
        kern.extend_from_slice(&words(&[0, 20, 0x0001, 1, 6, 0, 0]));
        kern.extend_from_slice(&words(&[1, 2, 0x7FFF]));
    }
    let kern = ReadScope::new(&kern).read::<KernTable<'_>>().unwrap();
    let mut infos = Info::init_from_glyphs(None, vec![glyph(1), glyph(2)]);
    expect_overflow_at("src/gpos.rs", 238, || gpos::apply_fallback(Some(kern), &mut infos));
}

// ---------------------------------------------------------------------------------------------
// sites 78-88: gpos.rs Placement::combine_distance / Adjust::apply

#[test]
fn site_078_distance_x_sum() {
    // xPlacement -1 + saturated i32::MAX delta = i32::MAX - 1, applied by two lookups
    let l = single_pos(1, [Some(-1), None, None], [Some((1, 0)), None, None]);
    expect_overflow_at("src/gpos.rs", 501, || run_gpos(&[l.clone(), l], &[1], true));
}

#[test]
fn site_079_distance_y_sum() {
    let l = single_pos(1, [None, Some(-1), None], [None, Some((1, 0)), None]);
    expect_overflow_at("src/gpos.rs", 501, || run_gpos(&[l.clone(), l], &[1], true));
}

#[test]
fn site_080_mark_anchor_x_plus_placement() {
    let lookups = [
        mark_base_pos(1, 2, i16::MAX, 0),
        single_pos(2, [Some(1), None, None], [None; 3]),
    ];
    expect_overflow_at("src/gpos.rs", 503, || run_gpos(&lookups, &[1, 2], false));
}

#[test]
fn site_081_mark_anchor_y_plus_placement() {
    let lookups = [
        mark_base_pos(1, 2, 0, i16::MAX),
        single_pos(2, [None, Some(1), None], [None; 3]),
    ];
    expect_overflow_at("src/gpos.rs", 504, || run_gpos(&lookups, &[1, 2], false));
}

#[test]
fn site_082_kerning_plus_x_advance() {
    let l = single_pos(1, [None, None, MAX], [None; 3]);
    expect_overflow_at("src/gpos.rs", 562, || run_gpos(&[l.clone(), l], &[1], false));
}

#[test]
fn site_083_x_advance_plus_delta() {
    let l = single_pos(1, [None, None, MAX], [None, None, Some((0, 0))]);
    expect_overflow_at("src/gpos.rs", 563, || run_gpos(&[l], &[1], true));
}

#[test]
fn site_084_kerning_plus_delta_only() {
    let lookups = [
        single_pos(1, [None, None, MAX], [None; 3]),
        single_pos(1, [None, None, None], [None, None, Some((0, 0))]),
    ];
    expect_overflow_at("src/gpos.rs", 569, || run_gpos(&lookups, &[1], true));
}

#[test]
fn site_085_x_placement_plus_delta() {
    let l = single_pos(1, [Some(1), None, None], [Some((1, 0)), None, None]);
    expect_overflow_at("src/gpos.rs", 572, || run_gpos(&[l], &[1], true));
}

#[test]
fn site_086_y_placement_plus_delta() {
    let l = single_pos(1, [None, Some(1), None], [None, Some((1, 0)), None]);
    expect_overflow_at("src/gpos.rs", 574, || run_gpos(&[l], &[1], true));
}

#[test]
fn site_087_x_advance_plus_delta_with_placement() {
    let l = single_pos(1, [Some(1), None, MAX], [None, None, Some((0, 0))]);
    expect_overflow_at("src/gpos.rs", 579, || run_gpos(&[l], &[1], true));
}

#[test]
fn site_088_kerning_plus_x_advance_with_placement() {
    let l = single_pos(1, [Some(1), None, MAX], [None; 3]);
    expect_overflow_at("src/gpos.rs", 580, || run_gpos(&[l.clone(), l], &[1], false));
}

// ---------------------------------------------------------------------------------------------
// sites 135-140: tables.rs Fixed / F2Dot14

#[test]
fn site_135_fixed_neg_via_fvar_normalize() {
    // axis min = -32768.0 (raw i32::MIN), default 0; user coordinate -32768.0
    let fvar_data = build_fvar(i32::MIN, 0, 0x10000);
    let fvar = ReadScope::new(&fvar_data).read::<FvarTable<'_>>().unwrap();
    let user = [Fixed::from_raw(i32::MIN)];
    expect_overflow_at("src/tables.rs", 1187, || fvar.normalize(user.iter().copied(), None).map(|_| ()));
}

#[test]
fn site_136_fixed_from_f32() {
    expect_overflow_at("src/tables.rs", 1233, || Fixed::from(-32768.0f32));
}

#[test]
fn site_137_fixed_from_f64() {
    expect_overflow_at("src/tables.rs", 1243, || Fixed::from(-32768.0f64));
}

#[test]
fn site_139_f2dot14_neg() {
    expect_overflow_at("src/tables.rs", 1314, || -F2Dot14::from_raw(i16::MIN));
}

#[test]
fn site_140_f2dot14_from_fixed() {
    expect_overflow_at("src/tables.rs", 1329, || F2Dot14::from(Fixed::from_raw(i32::MAX)));
}

// ---------------------------------------------------------------------------------------------
// cmap

#[test]
fn site_142_format4_seg_count_x2_on_write() {
    // Only via a caller-constructed owned sub-table: the reader limits segCount to 32767 and the
    // subsetter produces at most ~13k segments.
    let n = 32768;
    let sub = cmap_owned::CmapSubtable::Format4(cmap_owned::CmapSubtableFormat4 {
        language: 0,
        end_codes: vec![0; n],
        start_codes: vec![0; n],
        id_deltas: vec![0; n],
        id_range_offsets: vec![0; n],
        glyph_id_array: vec![],
    });
    expect_overflow_at("src/tables/cmap.rs", 388, || {
        let mut buf = WriteBuffer::new();
        cmap_owned::CmapSubtable::write(&mut buf, sub).map(|_| ())
    });
}

#[test]
fn site_145_format4_range_shift_zero_segments() {
    // format 4, length 16, language 0, segCountX2 0, searchRange, entrySelector, rangeShift, reservedPad
    let data = words(&[4, 16, 0, 0, 0, 0, 0, 0]);
    let sub = ReadScope::new(&data).read::<CmapSubtable<'_>>().unwrap();
    expect_overflow_at("src/tables/cmap.rs", 400, || {
        let mut buf = WriteBuffer::new();
        <CmapSubtable<'_> as WriteBinary<&CmapSubtable<'_>>>::write(&mut buf, &sub).map(|_| ())
    });
}

fn format12(groups: &[(u32, u32, u32)]) -> Vec<u8> {
    let mut d = Vec::new();
    w16(&mut d, 12);
    w16(&mut d, 0);
    w32(&mut d, 16 + 12 * groups.len() as u32);
    w32(&mut d, 0);
    w32(&mut d, groups.len() as u32);
    for (s, e, g) in groups {
        w32(&mut d, *s);
        w32(&mut d, *e);
        w32(&mut d, *g);
    }
    d
}

#[test]
fn site_147_format12_map_glyph() {
    let data = format12(&[(0, 0x10FFFF, 0xFFFF_FFFF)]);
    let sub = ReadScope::new(&data).read::<CmapSubtable<'_>>().unwrap();
    assert!(sub.map_glyph(0).is_err()); // 0xFFFFFFFF does not fit u16: an error, fine
    expect_overflow_at("src/tables/cmap.rs", 589, || sub.map_glyph(0x41).map(|_| ()));
}

#[test]
fn site_150_format10_mappings() {
    let mut data = Vec::new();
    w16(&mut data, 10);
    w16(&mut data, 0);
    w32(&mut data, 24);
    w32(&mut data, 0);
    w32(&mut data, 0xFFFF_FFFF); // startCharCode
    w32(&mut data, 2); // numChars
    w16(&mut data, 1);
    w16(&mut data, 2);
    let sub = ReadScope::new(&data).read::<CmapSubtable<'_>>().unwrap();
    expect_overflow_at("src/tables/cmap.rs", 767, || sub.mappings().map(|_| ()));
}

#[test]
fn site_151_format12_mappings() {
    let data = format12(&[(0x41, 0x42, 0xFFFF)]);
    let sub = ReadScope::new(&data).read::<CmapSubtable<'_>>().unwrap();
    expect_overflow_at("src/tables/cmap.rs", 775, || sub.mappings().map(|_| ()));
}

#[test]
fn site_157_owned_format12_map_glyph() {
    let data = format12(&[(0, 0x10FFFF, 0xFFFF_FFFF)]);
    let sub = ReadScope::new(&data).read::<CmapSubtable<'_>>().unwrap();
    let owned = sub.to_owned().unwrap();
    expect_overflow_at("src/tables/cmap.rs", 1038, || owned.map_glyph(0x41).map(|_| ()));
}

// ---------------------------------------------------------------------------------------------
// sites 196-198: variations.rs (instancing a variable TrueType font)

struct Patched<P> {
    inner: P,
    overrides: HashMap<u32, Vec<u8>>,
    hidden: Vec<u32>,
}

impl<P: FontTableProvider> FontTableProvider for Patched<P> {
    fn table_data(&self, tag: u32) -> Result<Option<Cow<'_, [u8]>>, ParseError> {
        if self.hidden.contains(&tag) {
            return Ok(None);
        }
        match self.overrides.get(&tag) {
            Some(data) => Ok(Some(Cow::Borrowed(data.as_slice()))),
            None => self.inner.table_data(tag),
        }
    }

    fn has_table(&self, tag: u32) -> bool {
        !self.hidden.contains(&tag) && self.inner.has_table(tag)
    }

    fn table_tags(&self) -> Option<Vec<u32>> {
        self.inner
            .table_tags()
            .map(|tags| tags.into_iter().filter(|t| !self.hidden.contains(t)).collect())
    }
}

/// Inter[slnt,wght].abc.ttf, glyph 1 ("a": xMin 144, lsb 144, aw 1588, at offset 0 of glyf) with
/// its glyf header xMin, hmtx advance and hmtx lsb overwritten; instanced at wght=900.
fn instance_inter(x_min: Option<i16>, aw: Option<u16>, lsb: i16, hide_hvar: bool) -> bool {
    let buffer = std::fs::read("tests/fonts/variable/Inter[slnt,wght].abc.ttf").unwrap();
    let font_file = ReadScope::new(&buffer).read::<FontData<'_>>().unwrap();
    let inner = font_file.table_provider(0).unwrap();
    let mut glyf = inner.read_table_data(tag::GLYF).unwrap().into_owned();
    if let Some(x_min) = x_min {
        glyf[2..4].copy_from_slice(&x_min.to_be_bytes());
    }
    let mut hmtx = inner.read_table_data(tag::HMTX).unwrap().into_owned();
    if let Some(aw) = aw {
        hmtx[4..6].copy_from_slice(&aw.to_be_bytes());
    }
    hmtx[6..8].copy_from_slice(&lsb.to_be_bytes());
    let mut overrides = HashMap::new();
    overrides.insert(tag::GLYF, glyf);
    overrides.insert(tag::HMTX, hmtx);
    let provider = Patched {
        inner,
        overrides,
        hidden: if hide_hvar { vec![tag::HVAR] } else { vec![] },
    };
    let user = [Fixed::from(900.0f32), Fixed::from(0.0f32)];
    allsorts::variations::instance(&provider, &user).is_ok()
}

#[test]
fn variable_fixture_instances_when_unpatched() {
    install_hook();
    assert!(instance_inter(None, None, 144, false));
    assert!(instance_inter(None, None, 144, true));
    // the patched values alone (without the other half of the scenario) are accepted
    assert!(instance_inter(None, Some(32767), 144, true));
    assert!(instance_inter(None, None, 244, true));
}

#[test]
fn site_196_apply_hvar_lsb_from_phantom_point() {
    // header xMin 0, lsb 32767 => pp1 = -32767; real xMin of the varied outline is > 0
    expect_overflow_at("src/variations.rs", 841, || instance_inter(Some(0), None, i16::MAX, false));
}

#[test]
fn site_197_hmtx_from_phantom_points_lsb() {
    expect_overflow_at("src/variations.rs", 875, || instance_inter(Some(0), None, i16::MAX, true));
}

#[test]
fn site_198_hmtx_from_phantom_points_advance() {
    // lsb = xMin + 100 => pp1 = -100, aw 32767 => pp2 = 32667, gvar widens the advance at wght=900
    expect_overflow_at("src/variations.rs", 876, || instance_inter(None, Some(32767), 244, true));
}
