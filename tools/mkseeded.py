#!/usr/bin/env python3
"""Turn independently confirmed seeded changes (written by sub-agents under /tmp/seed/<Cxx>/out/<mN>,
confirmed by tools/confirm_seed.py) into /verif/seeded/<Cxx>-<mN>/{patch.diff, demo.rs, README.md, meta.json}.
Seeds whose confirm.json is not `confirmed: true` are skipped (and listed).

  tools/mkseeded.py <repo HEAD the confirmation ran on> [<matrix json>]
With a matrix json (SEEDMATRIX_OUT of tools/seedmatrix.py) the caught_by field of every meta.json is
refreshed (also for seeds already under /verif/seeded)."""
import json
import os
import re
import shutil
import sys

HERE = os.path.dirname(os.path.dirname(os.path.abspath(__file__)))
SEEDED = os.path.join(HERE, "seeded")


def needs_of(readme):
    m = re.search(r"\*\*(?:Need(?:s|ed)?|Condition)\b[^*\n]*\*\*\s*:?\s*(.*?)(?:\n\s*\n|\n\*\*|\n#|\Z)", readme, re.S)
    if m:
        return re.sub(r"\s+", " ", m.group(1)).strip().lstrip(": ")
    paras = [re.sub(r"\s+", " ", p).strip() for p in re.split(r"\n\s*\n", readme)]
    for p in paras:
        if p.startswith("#") or "cargo " in p:
            continue
        if re.search(r"(?i)\b(needed to manifest|to manifest|it needs|needs an?|only (?:manifests )?(?:when|if|for)|requires)\b", p):
            return p
    return None


def title_of(readme):
    for l in readme.splitlines():
        if l.startswith("#"):
            return l.lstrip("# ").strip()
    return None


def main():
    head = sys.argv[1]
    matrix = json.load(open(sys.argv[2])) if len(sys.argv) > 2 else None
    skipped = []
    root = os.environ.get("SEED_ROOT", "/tmp/seed")
    tagp = os.environ.get("SEED_TAG", "")          # e.g. "r2" -> ids C01-r2m1
    if os.path.isdir(root):
        for prop in sorted(os.listdir(root)):
            out = os.path.join(root, prop, "out")
            if not os.path.isdir(out):
                continue
            for m in sorted(os.listdir(out)):
                sd = os.path.join(out, m)
                cj = os.path.join(sd, "confirm.json")
                if not os.path.isfile(cj):
                    continue
                c = json.load(open(cj))
                sid = "%s-%s%s" % (prop, tagp, m)
                if not c.get("confirmed"):
                    skipped.append((sid, {k: v for k, v in c.items() if k != "seed"}))
                    continue
                dst = os.path.join(SEEDED, sid)
                os.makedirs(dst, exist_ok=True)
                for f in ("patch.diff", "demo.rs", "README.md"):
                    if os.path.isfile(os.path.join(sd, f)):
                        shutil.copy(os.path.join(sd, f), os.path.join(dst, f))
                readme = open(os.path.join(sd, "README.md")).read() if os.path.isfile(os.path.join(sd, "README.md")) else ""
                meta = {
                    "id": sid,
                    "breaks": prop,
                    "title": title_of(readme),
                    "origin": "independent sub-agent that was given only the text of property %s and its own scratch worktree of /repo; nothing from /verif" % prop,
                    "needs_to_manifest": needs_of(readme),
                    "confirmed_by_me": {
                        "how": "tools/confirm_seed.py in a scratch worktree of /repo at %s: demo copied to tests/, `cargo test --offline --test <demo>` without the patch; "
                               "`git apply` the patch; `cargo build --offline` with and without `--features prince`; "
                               "`cargo test --workspace --no-fail-fast --offline`; the demo again" % head,
                        "demo_without_patch": c.get("demo_without_patch"),
                        "build_with_patch": c.get("build"),
                        "suite_with_patch": c.get("suite_with_patch"),
                        "demo_with_patch": c.get("demo_with_patch"),
                    },
                    "run_the_demo": "copy demo.rs to /repo/tests/demo_%s.rs, `cargo test --offline --test demo_%s` (remove it afterwards)" % (sid.replace("-", "_"), sid.replace("-", "_")),
                }
                old = os.path.join(dst, "meta.json")
                if os.path.isfile(old):
                    o = json.load(open(old))
                    for k in ("caught_by", "caught_by_rules", "verdict"):
                        if k in o:
                            meta[k] = o[k]
                json.dump(meta, open(old, "w"), indent=1)
    if matrix:
        for sid in sorted(os.listdir(SEEDED)):
            mp = os.path.join(SEEDED, sid, "meta.json")
            if not os.path.isfile(mp):
                continue
            key = sid
            if key not in matrix:
                continue
            meta = json.load(open(mp))
            got = matrix[key]
            if got is None:
                meta["verdict"] = "patch does not apply to the current tree"
            else:
                meta["caught_by"] = sorted(got)
                meta["caught_by_rules"] = {p: r for p, r in sorted(got.items())}
                if meta.get("breaks"):
                    meta["verdict"] = ("caught by the check of the property it breaks" if meta["breaks"] in got else
                                       ("caught only by other checks" if got else "missed: value-level change, see DESIGN.md 11.5"))
                else:
                    meta["verdict"] = "silent, as required" if not got else "FALSE ALARM"
            json.dump(meta, open(mp, "w"), indent=1)
    for sid, c in skipped:
        print("skipped (not confirmed): %s %s" % (sid, c))
    print("seeded:", len([d for d in os.listdir(SEEDED) if os.path.isfile(os.path.join(SEEDED, d, "meta.json"))]))


if __name__ == "__main__":
    main()
