"""C06 — cmap conformance: the Mac Roman conversions are mutual inverses (both match tables read
from MIR and compared exhaustively)."""
import re

import tableread
from facts import callee_is

LEVEL = "other"
EXPLANATION = (
    "Decides the clause 'the Mac Roman conversions used on the way are mutual inverses' exhaustively: both "
    "macroman::macroman_to_char and macroman::char_to_macroman are read from MIR as decision tables (range guards, "
    "SwitchInt value->constant maps); for all 256 codes b with to_char(b)=Some(c) the rule requires from_char(c)=Some(b), "
    "and for every scalar value c that any guard or arm of either table distinguishes (the functions are piecewise constant "
    "or identity between those breakpoints, so this covers all 0x110000 values) with from_char(c)=Some(b) it requires "
    "to_char(b)=Some(c). is_macroman must be char_to_macroman(..).is_some()."
)
NOT_DECIDED = ("format 0/2/4/6/10/12 lookup arithmetic, subtable preference order, symbol remapping, enumeration vs lookup "
               "agreement, and the Big5 conversions (delegated to encoding_rs, outside this crate).")


def t06_pua(run, fx):
    rule = "T06-PUA"
    run.rule(rule, "Symbol encoding: the Private Use Area block of a symbol font is U+F000..=U+F0FF, both ends included (OpenType cmap, "
                   "platform 3 encoding 0). Each function that folds the block tests membership with both bounds inclusive: comparisons "
                   "(< 0xF000 / > 0xF0FF or their negations) or RangeInclusive::contains over 0xF000..=0xF0FF")
    import sym
    import guards
    targets = [b for b in fx.bodies if b.kind != "Closure" and b.root.endswith(("::legacy_symbol_char_code", "legacy_symbol_char_code_to_unicode"))]
    if not targets:
        return run.anchor_missing(rule, "legacy_symbol_char_code / legacy_symbol_char_code_to_unicode")

    def cval(t):
        t = sym.strip(t)
        while t[0] == "cast":
            t = sym.strip(t[4])
        if t[0] == "c":
            v = t[1]
            if isinstance(v, str) and len(v) == 1:
                return ord(v)
            if isinstance(v, int):
                return v
            m = re.search(r"u\{([0-9a-fA-F]+)\}", str(t[3]) if len(t) > 3 else "")
            if m:
                return int(m.group(1), 16)
        return None
    for b in targets:
        prov = sym.Prov(b)
        lower = upper = False
        bad = []
        for tb, fb_, op, x, y, sw in guards.branch_conditions(b, prov):
            for (o, k) in ((op, cval(y)), (guards.CMP_FLIP.get(op), cval(x))):
                if k is None or o is None:
                    continue
                if k == 0xF000 and o in ("Lt", "Ge"):
                    lower = True
                elif k == 0xF0FF and o in ("Gt", "Le"):
                    upper = True
                elif k == 0xF100 and o in ("Lt", "Ge"):
                    upper = True
                elif k in (0xF000, 0xF0FF, 0xF100, 0xEFFF):
                    bad.append("%s %#x" % (o, k))
        for bi, t in b.calls():
            p = t["callee"].get("path") or ""
            if p.endswith("::contains") and "Range" in p:
                rt = prov.op(t["args"][0])
                ks = {cval(x) for x in sym.walk(rt) if x[0] == "c"}
                for x in sym.walk(rt):
                    if x[0] == "promoted":
                        for st in x[1]:
                            ks |= {int(m) for m in re.findall(r"const (\d+)_u32", st)}
                            ks |= {int(m, 16) for m in re.findall(r"const '\\u\{([0-9a-fA-F]+)\}'", st)}
                ks.discard(None)
                if "RangeInclusive" in p and {0xF000, 0xF0FF} <= ks:
                    lower = upper = True
                elif "RangeInclusive" not in p and {0xF000, 0xF100} <= ks:
                    lower = upper = True
                elif ks & {0xF000, 0xF0FF, 0xF100}:
                    bad.append("%s over %s" % (p.split("::")[-3] if p.count("::") > 2 else p, sorted(hex(k) for k in ks)))
        if lower and upper and not bad:
            run.ok(rule, "%s: membership test covers U+F000..=U+F0FF" % b.path)
        else:
            run.fail(rule, "pua:%s" % b.root, "%s: the symbol PUA block is not tested as U+F000..=U+F0FF inclusive (%s): a boundary character is folded "
                     "or left alone wrongly" % (b.path, "; ".join(bad) or "no inclusive test of both bounds found"), "%s:%s" % (b.file, b.line))


def t06_delta(run, fx):
    """format 4, idRangeOffset != 0: glyph = glyphIdArray value, plus idDelta modulo 65536 unless the value is 0 (missing glyph)"""
    import sym
    import guards
    rule = "T06-DELTA"
    run.rule(rule, "cmap format 4 with idRangeOffset != 0 (OpenType: 'if the value obtained from the indexing operation is not 0 (which indicates "
                   "missingGlyph), idDelta[i] is added to it'): in Format4::glyph_id_for_id_range_offset every result computed from the "
                   "glyphIdArray value also depends on id_delta, and the sum is only formed where the array value was compared with 0")
    bs = [b for b in fx.bodies if b.kind != "Closure" and b.path == "tables::cmap::Format4::glyph_id_for_id_range_offset"]
    if not bs:
        return run.anchor_missing(rule, "tables::cmap::Format4::glyph_id_for_id_range_offset")
    b = bs[0]
    prov = sym.Prov(b)
    gets = [(bi, t) for bi, t in b.calls() if (t["callee"].get("path") or "").endswith("glyph_id_array_get")]
    if not gets:
        return run.anchor_missing(rule, "glyph_id_array_get in the kernel")
    gb = gets[0][0]
    # results produced after the array read
    results = []
    for bi in range(len(b.blocks)):
        if not b.reachable(bi) or not b.dominates(gb, bi):
            continue
        for st in b.stmts(bi):
            if st["k"] == "assign" and st["p"]["l"] == 0 and not st["p"]["p"] and st["rv"]["k"] == "agg" and st["rv"].get("vname") == "Ok":
                results.append((bi, st, prov.op(st["rv"]["fields"][0])))
        t = b.term(bi)
        if t["k"] == "call" and t["dest"]["l"] == 0 and not t["dest"]["p"] and bi == gb:
            results.append((bi, t, ("call", "glyph_id_array_get", (), bi, None, None)))
    if not results:
        return run.anchor_missing(rule, "result of the idRangeOffset != 0 path")

    def from_array(v):
        return any(x[0] == "call" and (x[1] or "").endswith("glyph_id_array_get") for x in sym.walk(v))

    def uses_delta(v):
        return any(x[0] == "arg" and x[2] == "id_delta" for x in sym.walk(v))
    conds = guards.branch_conditions(b, prov)
    zero_tests = []
    for tb, fb, op, x, y, sw in conds:
        if op in ("Eq", "Ne"):
            xs, ys = sym.strip(x), sym.strip(y)
            for a, c in ((xs, ys), (ys, xs)):
                if c[0] == "c" and c[1] == 0 and from_array(a):
                    zero_tests.append((tb if op == "Ne" else fb, fb if op == "Ne" else tb))     # (non-zero block, zero block)
    for bi, item, v in results:
        if not from_array(v) and not (v[0] == "c"):
            continue
        if v[0] == "c":
            continue
        if not uses_delta(v):
            # returning the raw array value is right only where it is known to be 0
            if any(zb is not None and b.dominates(zb, bi) for _nz, zb in zero_tests):
                run.ok(rule, "a zero array value is returned as is (missing glyph)")
            else:
                run.fail(rule, "format4:delta-dropped", "glyph_id_for_id_range_offset returns the glyphIdArray value without idDelta: segments with both "
                         "idRangeOffset and idDelta non-zero map to the wrong glyph", b.loc(item))
        else:
            if any(nz is not None and b.dominates(nz, bi) for nz, _zb in zero_tests):
                run.ok(rule, "idDelta is added to a non-zero array value")
            else:
                run.fail(rule, "format4:delta-on-missing", "glyph_id_for_id_range_offset adds idDelta to the glyphIdArray value without testing it for 0: an entry "
                         "of 0 (missing glyph) in a segment whose idDelta is not 0 is mapped to glyph idDelta instead of to no glyph", b.loc(item))


def check(run, fx, tier, floors=True):
    import bsearch
    bsearch.rule_bsearch(run, fx, "T06-BS", select=lambda b: b.file.startswith(('src/tables/cmap.rs', 'src/font.rs', 'src/macroman.rs', 'src/big5.rs')), floors=floors, floor_n=0)
    import ignored
    ignored.run_for(run, fx, 'C06', floors)
    if floors or any(b.path == "tables::cmap::Format4::glyph_id_for_id_range_offset" for b in fx.bodies):
        t06_delta(run, fx)
    import speclayout
    speclayout.rule_layouts(run, fx, "T06-LAYOUT", ["cmap"], floors)
    speclayout.rule_records(run, fx, "T06-REC", ['cmap'], floors)
    macroman(run, fx, floors)
    if fx.body("font::find_good_cmap_subtable") is not None or floors:
        t06_pref(run, fx)
        t06_sib(run, fx)
        t06_shk(run, fx, floors)
    if floors or any(b.root.endswith("legacy_symbol_char_code") for b in fx.bodies):
        t06_pua(run, fx)
    # character codes and glyph ids are not narrowed silently on the lookup side either
    import narrowing
    narrowing.rule_narrowing(run, fx, "T06-NARROW", floors=floors, roots=None, floor_n=10,
                             select=lambda b: b.file in ("src/tables/cmap.rs", "src/font.rs", "src/big5.rs", "src/macroman.rs"))


# ---- T06-SHK: subHeaderKeys is a function of the lead byte, not the other way round --------------------------------------------------
INVERTING = ("Iterator::find", "Iterator::position", "Iterator::rposition", "Iterator::find_map", "Iterator::rfind", "Iterator::max_by_key", "Iterator::min_by_key")


def t06_shk(run, fx, floors=True):
    rule = "T06-SHK"
    run.rule(rule, "cmap format 2: subHeaderKeys maps each of the 256 first bytes to a sub-header, and several first bytes may share one sub-header "
                   "(OpenType, cmap format 2). The table may be indexed by a byte or walked for every byte; a search through it for the first byte "
                   "with a given key (find / position / find_map over an iterator made from sub_header_keys) inverts a many-to-one map and drops "
                   "every other byte that uses the same sub-header")
    import sym
    uses = 0
    for b in fx.bodies:
        if b.file != "src/tables/cmap.rs" or b.exp:
            continue
        prov = None
        for bi, t in b.calls():
            p = str(t["callee"].get("path") or "")
            if not t["args"]:
                continue
            prov = prov or sym.Prov(b)
            recv = prov.op(t["args"][0])
            if not any(x[0] == "field" and x[2] == "sub_header_keys" for x in sym.walk(recv)):
                continue
            uses += 1
            if p.endswith(INVERTING):
                run.fail(rule, "shk:inverted:%s" % b.root, "%s searches subHeaderKeys with %s: the first byte found stands for a sub-header that other first bytes may share, "
                         "whose codes are then never produced" % (b.path, p.split("::")[-1]), b.loc(t))
            else:
                run.ok(rule, "%s: sub_header_keys used through %s" % (b.root, p.split("::")[-1]))
    if floors:
        run.floor(rule, "uses of sub_header_keys in cmap.rs", uses, 2)


def macroman(run, fx, floors):
    run.rule("T06-INV", "macroman_to_char and char_to_macroman are mutual inverses on every code and every scalar value")
    m2c = fx.body("macroman::macroman_to_char")
    c2m = fx.body("macroman::char_to_macroman")
    if m2c is None or c2m is None:
        run.anchor_missing("T06-INV", "macroman::macroman_to_char / char_to_macroman")
        return
    try:
        f_m2c, bp1 = tableread.scalar_fn(m2c)
        f_c2m, bp2 = tableread.scalar_fn(c2m)
    except tableread.TableShape as e:
        run.fail("T06-INV", "ANCHOR-SHAPE:macroman", "conversion function is not of the recognised table shape: %s" % e, "%s:%s" % (m2c.file, m2c.line))
        return
    site1 = "%s:%s" % (m2c.file, m2c.line)
    site2 = "%s:%s" % (c2m.file, c2m.line)
    n = 0
    for b in range(256):
        r = f_m2c(b)
        n += 1
        if r[0] == "some":
            c = r[1]
            back = f_c2m(c)
            if back != ("some", b):
                run.fail("T06-INV", "macroman:byte:%d" % b, "macroman_to_char(%d) = U+%04X but char_to_macroman(U+%04X) = %s" % (
                    b, c, c, "None" if back[0] == "none" else back[1]), site1)
            else:
                run.ok("T06-INV", "code %d <-> U+%04X" % (b, c) if b in (65, 128, 255) else None)
        else:
            run.ok("T06-INV")
    # chars: every value distinguished by either table, with neighbours, plus domain ends
    pts = set()
    results_chars = set()
    for b in range(256):
        r = f_m2c(b)
        if r[0] == "some":
            results_chars.add(r[1])
    for v in list(bp2) + list(results_chars) + [0, 0x7E, 0x7F, 0x80, 0xFF, 0x100, 0xD7FF, 0xE000, 0x10FFFF]:
        for d in (-1, 0, 1):
            x = v + d
            if 0 <= x <= 0x10FFFF and not (0xD800 <= x <= 0xDFFF):
                pts.add(x)
    for c in sorted(pts):
        r = f_c2m(c)
        if r[0] == "some":
            b = r[1]
            if not (0 <= b <= 255):
                run.fail("T06-INV", "macroman:char:U+%04X" % c, "char_to_macroman yields %d, not a byte" % b, site2)
                continue
            back = f_m2c(b)
            if back != ("some", c):
                run.fail("T06-INV", "macroman:char:U+%04X" % c, "char_to_macroman(U+%04X) = %d but macroman_to_char(%d) = %s" % (
                    c, b, b, "None" if back[0] == "none" else "U+%04X" % back[1]), site2)
            else:
                run.ok("T06-INV")
        else:
            run.ok("T06-INV")
    run.analysed["macroman_points"] = {"codes": 256, "scalar_breakpoints_evaluated": len(pts)}
    # is_macroman is defined through char_to_macroman
    run.rule("T06-IS", "is_macroman(c) is char_to_macroman(c).is_some()")
    ism = fx.body("macroman::is_macroman")
    if ism is None:
        run.anchor_missing("T06-IS", "macroman::is_macroman")
    else:
        calls = [t for _, t in ism.calls()]
        names = [t["callee"].get("path") for t in calls]
        if len(calls) == 2 and callee_is(calls[0], "macroman::char_to_macroman") and callee_is(calls[1], "::is_some") and not any(
                b["t"]["k"] == "switch" for b in ism.blocks):
            run.ok("T06-IS", "is_macroman = char_to_macroman(chr).is_some()")
        else:
            run.fail("T06-IS", "is_macroman", "is_macroman is not char_to_macroman(..).is_some(): calls %s" % names, "%s:%s" % (ism.file, ism.line))
    if floors:
        run.floor("T06-INV", "codes and scalar breakpoints compared", run.by_rule["T06-INV"]["obligations"], 500)


# (platform id, encoding id) -> meaning, from the OpenType cmap specification
SPEC_PAIRS = {(3, 10): "Unicode", (3, 1): "Unicode", (0, 4): "Unicode", (0, 3): "Unicode", (0, 6): "Unicode", (3, 0): "Symbol",
              (1, 0): "AppleRoman", (3, 4): "Big5"}
FULL_REPERTOIRE = {(3, 10), (0, 4), (0, 6)}


def const_val(fx, t):
    import sym
    t = sym.strip(t)
    if t[0] == "c":
        return t[1]
    if t[0] == "uneval":
        c = fx.const(t[1])
        return c.get("val") if c else None
    return None


def t06_pref(run, fx):
    """the sub-table preference is a decision list of (platform, encoding) probes: read it from the CFG"""
    import sym
    rule = "T06-PREF"
    run.rule(rule, "font::find_good_cmap_subtable probes (platform id, encoding id) pairs in an order where every pair means, by the cmap "
                   "specification, the Encoding it is returned as; full-repertoire Unicode sub-tables (3,10)/(0,4) are probed before BMP-only "
                   "ones of the same platform; every Unicode probe precedes Symbol, Mac Roman and Big5")
    b = fx.body("font::find_good_cmap_subtable")
    if b is None:
        return run.anchor_missing(rule, "font::find_good_cmap_subtable")
    prov = sym.Prov(b)
    probes = []
    for bi in b.rpo():
        t = b.term(bi)
        if t["k"] != "call":
            continue
        if callee_is(t, "Cmap::<'a>::find_subtable"):
            pl, en = const_val(fx, prov.op(t["args"][1])), const_val(fx, prov.op(t["args"][2]))
        elif callee_is(t, "Cmap::<'a>::find_subtable_for_platform"):
            pl, en = const_val(fx, prov.op(t["args"][1])), "*"
        else:
            continue
        # the Encoding returned when this probe succeeds: first Encoding aggregate in the success region
        succ = []
        import guards
        for sb in guards.success_blocks(b, t["dest"]["l"]):
            succ.append(sb)
        enc = None
        seen = set()
        st = list(succ)
        while st and enc is None:
            x = st.pop()
            if x in seen:
                continue
            seen.add(x)
            for s_ in b.stmts(x):
                if s_["k"] == "assign" and s_["rv"]["k"] == "agg" and s_["rv"].get("adt") == "font::Encoding":
                    enc = s_["rv"]["vname"]
            if enc is None and b.term(x)["k"] in ("goto",):
                st.append(b.term(x)["target"])
        probes.append((bi, pl, en, enc, t))
    if len(probes) < 5:
        return run.anchor_missing(rule, "probes in find_good_cmap_subtable (found %d)" % len(probes))
    order = {}
    for i, (bi, pl, en, enc, t) in enumerate(probes):
        key = (pl, en)
        order[key] = i
        if en == "*":
            want = "Unicode" if pl == 0 else None
        else:
            want = SPEC_PAIRS.get((pl, en))
        if want is None:
            run.fail(rule, "pref:pair:%s,%s" % (pl, en), "probe of (platform %s, encoding %s) is not a pair the specification assigns to a supported encoding" % (pl, en), b.loc(t))
        elif enc != want:
            run.fail(rule, "pref:meaning:%s,%s" % (pl, en), "(platform %s, encoding %s) is %s by the specification but is returned as Encoding::%s" % (pl, en, want, enc), b.loc(t))
        else:
            run.ok(rule, "probe %d: (platform %s, encoding %s) -> Encoding::%s" % (i + 1, pl, en, enc))
    # ordering constraints
    def before(a, c):
        return a in order and c in order and order[a] < order[c]
    cons = [((3, 10), (3, 1), "the Windows UCS-4 sub-table before the Windows BMP one"), ((0, 4), (0, "*"), "the Unicode full-repertoire sub-table before any other Unicode-platform sub-table")]
    uni = [k for k in order if (SPEC_PAIRS.get(k) == "Unicode" or (k[1] == "*" and k[0] == 0))]
    non = [k for k in order if k not in uni]
    for a, c, what in cons:
        if before(a, c):
            run.ok(rule, what)
        else:
            run.fail(rule, "pref:order:%s<%s" % (a, c), "preference order: expected %s" % what, "%s:%s" % (b.file, b.line))
    if uni and non and max(order[k] for k in uni) < min(order[k] for k in non):
        run.ok(rule, "all Unicode probes precede Symbol / Mac Roman / Big5")
    else:
        run.fail(rule, "pref:order:unicode-first", "a legacy encoding is preferred over a Unicode sub-table", "%s:%s" % (b.file, b.line))


def proj_root(t):
    import sym
    path = []
    t = sym.strip(t)
    while t[0] in ("field", "variant", "deref", "ref"):
        if t[0] == "field":
            path.append(str(t[2]))
        t = sym.strip(t[1])
    root = t[0] if t[0] != "call" else "call:" + (t[4] or t[1] or "").split("::")[-1]
    return tuple(reversed(path)), root


def loop_early_exits(b):
    """blocks inside a loop with an edge out of the loop that is neither the None arm of a switch on an Iterator::next() result nor the start
    of an error return (a `?`: the target block reaches FromResidual::from_residual before anything else)"""
    import sym
    n = len(b.blocks)
    reach = {}

    def reachable_from(x):
        if x not in reach:
            seen, todo = set(), list(b.succs(x))
            while todo:
                y = todo.pop()
                if y in seen:
                    continue
                seen.add(y)
                todo.extend(b.succs(y))
            reach[x] = seen
        return reach[x]
    prov = sym.Prov(b)
    out = []
    for u in range(n):
        if not b.reachable(u) or u not in reachable_from(u):
            continue
        scc = {v for v in reachable_from(u) if u in reachable_from(v)} | {u}
        for v in b.succs(u):
            if v in scc or b.term(v)["k"] == "unreachable":
                continue
            t = b.term(u)
            if t["k"] == "switch":
                d = sym.strip(prov.op(t["discr"]))
                is_next = d[0] == "discr" and any(x[0] == "call" and (x[4] or x[1] or "").endswith("Iterator::next") for x in sym.walk(d))
                none_arm = [tg for val, tg in t["arms"] if val == 0]
                if is_next and v in none_arm:
                    continue
            # error path: straight line from v to a from_residual call
            w, ok, steps = v, False, 0
            while steps < 6:
                tw = b.term(w)
                if tw["k"] == "call" and (tw["callee"].get("path") or "").endswith("from_residual"):
                    ok = True
                    break
                nx = b.succs(w)
                if len(nx) != 1:
                    break
                w = nx[0]
                steps += 1
            if ok:
                continue
            if t["k"] in ("call", "drop", "assert"):
                continue        # cleanup / unwind edges and drops on the way out are not decisions
            out.append(u)
    return out


def t06_sib(run, fx):
    """single lookups and enumeration of a format 4 sub-table go through one kernel with the raw segment values"""
    import sym
    rule = "T06-SIB"
    run.rule(rule, "Format4::map_glyph and Format4::mappings_fn both obtain the glyph from glyph_id_for_id_range_offset and hand it the "
                   "segment's idRangeOffset and idDelta exactly as produced by the segment iterator (same projection in both), so enumeration "
                   "lists what single lookups return; CmapSubtable::map_glyph and mappings_fn have an arm for every sub-table format")
    sibs = {}
    for name in ("map_glyph", "mappings_fn"):
        bs = [b for b in fx.bodies if b.path == "tables::cmap::Format4::%s" % name]
        if len(bs) != 1:
            run.anchor_missing(rule, "tables::cmap::Format4::%s" % name)
            return
        b = bs[0]
        prov = sym.Prov(b)
        ks = [(bi, t) for bi, t in b.calls() if callee_is(t, "Format4::glyph_id_for_id_range_offset")]
        if len(ks) != 1:
            run.fail(rule, "sibling:format4:%s:kernel" % name, "Format4::%s calls the shared kernel %d time(s), expected once" % (name, len(ks)), "%s:%s" % (b.file, b.line))
            return
        t = ks[0][1]
        sibs[name] = (b, t, [proj_root(prov.op(a)) for a in t["args"]])
    a, c = sibs["map_glyph"][2], sibs["mappings_fn"][2]
    # argument 1 = id_range_offset, argument 3 = id_delta
    bad = []
    for k, what in ((1, "idRangeOffset"), (3, "idDelta")):
        # the element may be handed out by next() (a `for` loop) or by find() (a search written as an iterator adaptor): both yield the
        # iterator's own items; what has to agree is the projection out of the item
        yielding = ("call:next", "call:find")
        if a[k][0] != c[k][0] or not a[k][1].startswith(yielding) or not c[k][1].startswith(yielding):
            bad.append("%s: map_glyph passes %s, mappings_fn passes %s" % (what, a[k], c[k]))
    if bad:
        run.fail(rule, "sibling:format4:args", "; ".join(bad), sibs["map_glyph"][0].loc(sibs["map_glyph"][1]))
    else:
        run.ok(rule, "format 4: both siblings pass the iterator's idRangeOffset %s and idDelta %s to the shared kernel" % (a[1][0], a[3][0]))
    # the enumeration walks every segment the lookup can hit: its segment iterator is not shortened or filtered
    mb = sibs["mappings_fn"][0]
    cut = sorted({(t["callee"].get("path") or "").split("::")[-1] for bi, t in mb.calls()
                  if (t["callee"].get("path") or "").endswith(("Iterator::take", "Iterator::skip", "Iterator::step_by", "Iterator::filter",
                                                               "Iterator::take_while", "Iterator::skip_while", "Iterator::filter_map"))})
    if cut:
        run.fail(rule, "sibling:format4:truncated", "Format4::mappings_fn shortens or filters its segment iterator (%s) while map_glyph searches every "
                 "segment: mappings held in a skipped segment are looked up but not enumerated" % ", ".join(cut), "%s:%s" % (mb.file, mb.line))
    else:
        run.ok(rule, "format 4: the enumeration visits every segment (no take/skip/filter on the segment iterator)")
    # ... and it does not leave its loops early: every loop exit is the iterator's end or an error return (`?`)
    early = loop_early_exits(mb)
    if early:
        run.fail(rule, "sibling:format4:early-exit", "Format4::mappings_fn leaves its segment loop early (%d exit(s) that are neither the end of the iterator nor an "
                 "error return): mappings of the remaining segments are looked up but not enumerated" % len(early), mb.loc(mb.term(early[0])))
    else:
        run.ok(rule, "format 4: the enumeration loops end only with their iterators or with an error")
    import shape
    for path in ("tables::cmap::CmapSubtable::<'a>::map_glyph", "tables::cmap::CmapSubtable::<'a>::mappings_fn"):
        b = fx.body(path)
        if b is None:
            run.anchor_missing(rule, path)
            continue
        n, problems = shape.exhaustive_dispatch(fx, b, "tables::cmap::CmapSubtable")
        if n == 0:
            run.fail(rule, "sibling:dispatch:%s" % path, "%s does not dispatch on the sub-table format" % path, "%s:%s" % (b.file, b.line))
        elif problems:
            run.fail(rule, "sibling:dispatch:%s" % path, "%s: format(s) %s fall into a wildcard arm" % (path, problems[0][1]), "%s:%s" % (b.file, b.line))
        else:
            run.ok(rule, "%s lists every sub-table format" % path)
