"""Values that a reader takes from the font and then drops.

A primitive read (`ctxt.read_u16be()?` ...) whose value reaches a named local that is never used is a field the reader ignores. The
specification allows that for reserved fields and padding, for the binary-search hints (searchRange, entrySelector, rangeShift: they are
functions of the count) and for minor version numbers (additive revisions); a local named after one of these is accepted as what it
says. Any other ignored field - an offset, a count, a length, a format - needs an entry in ledger/ignored.jsonl that says why the reader
may ignore it. An offset that is read and no longer used (the data is then taken from wherever the cursor happens to be) is the
realistic regression this catches."""
import re

import guards
from facts import op_place

READ = re.compile(r"binary::read::ReadCtxt::<'a>::read_(u8|i8|u16be|i16be|u24be|u32be|i32be|u64be|i64be)$")
BY_NAME = re.compile(r"reserved|(^|_)pad(ding)?($|_|\d)|unused|search_range|entry_selector|range_shift|minor_version")


def _final_named(b, v, depth=0):
    res = []
    uses = list(guards.uses_of_local(b, v))
    nm = b.local_name(v)
    if nm and nm != "val":
        return [(nm, len(uses))]
    for bi, kind, item in uses:
        if kind == "stmt" and item["rv"]["k"] == "use" and not item["p"]["p"]:
            p = op_place(item["rv"]["op"])
            if p and p["l"] == v and not p["p"] and depth < 4:
                res += _final_named(b, item["p"]["l"], depth + 1)
                continue
        res.append(("<used>", 1))
    if not uses:
        res.append((nm or "_", 0))
    return res


def ignored_reads(fx, select):
    for b in fx.bodies:
        if not select(b):
            continue
        for bi, t in b.calls():
            if not READ.search(t["callee"].get("path") or "") or t["dest"]["p"] or not b.reachable(bi):
                continue
            fin = []
            for v in guards.unwrapped_value_locals(b, t["dest"]["l"]):
                fin += _final_named(b, v)
            if fin and all(n == 0 for _, n in fin):
                yield b, t, fin[0][0]


def rule_ignored(run, fx, rule, select, floors=True, floor_n=1):
    run.rule(rule, "every value a reader takes from the font and then drops (a primitive read bound to a local that is never used) is a field the "
                   "specification lets a reader ignore: the local is named after a reserved field, padding, a binary-search hint or a minor version, or the "
                   "field is audited in ledger/ignored.jsonl (key = ignored|function, with the number of ignored fields audited there)")
    n = 0
    for b, t, name in ignored_reads(fx, select):
        n += 1
        bare = name.lstrip("_")
        if BY_NAME.search(bare):
            run.ok(rule, "%s: %s is ignored by name" % (b.path, name))
            continue
        # the ledger names the reader, not the local: renaming `_feature_params` is not a change of what the reader ignores. The budget of
        # the function's entry is the number of its audited ignored fields, so one more ignored read in the same reader exceeds it
        key = "ignored|%s" % b.root
        run.fail(rule, key, "%s reads a value from the font into `%s` and never uses it: if the field positions, counts or selects what follows, the "
                 "reader now takes that from somewhere else" % (b.path, name), b.loc(t), ledger="ignored",
                 alt_keys=tuple("ignored|%s" % c for c in fx.caller_roots(b)))
    if floors:
        run.floor(rule, "ignored reads in scope", n, floor_n)
    return n


# ---- R-OFF: an offset that is read is used to locate something -----------------------------------------------------------------------
CMP_OPS = ("Lt", "Le", "Gt", "Ge", "Eq", "Ne")
COMPARING = ("::eq", "::ne", "::lt", "::le", "::gt", "::ge", "::cmp", "::partial_cmp", "::check", "::check_index", "::check_version", "::contains")


def _locating_use(b, v):
    """does the value of local v reach something that locates data or keeps the value - an argument of any call other than a comparison /
    check, a field of an aggregate, the result - through copies, casts, conversions and arithmetic? Comparisons yield a bool and end the
    flow: an offset that is only compared locates nothing"""
    tainted, todo = set(), [v]
    while todo:
        l = todo.pop()
        if l in tainted:
            continue
        tainted.add(l)
        if l == 0:
            return True
        for bi, kind, item in guards.uses_of_local(b, l):
            if kind == "stmt":
                rv = item["rv"]
                if rv["k"] == "agg":
                    return True
                if rv["k"] == "bin" and str(rv.get("bop", "")).replace("WithOverflow", "") in CMP_OPS:
                    continue
                if item["p"]["p"]:
                    return True         # stored into a field of something
                todo.append(item["p"]["l"])
            elif kind == "call":
                p = str(item["callee"].get("path") or "")
                if p.endswith(COMPARING):
                    continue
                conv = p.endswith(("From::from", "Into::into", "TryFrom::try_from", "TryInto::try_into", "Try::branch", "::unwrap", "::expect", "::ok_or", "::ok",
                                   "::map_err", "::checked_add", "::checked_sub", "::checked_mul", "::saturating_sub", "::saturating_add", "::wrapping_add",
                                   "::wrapping_sub", "::min", "::max", "SafeFrom::safe_from", "::safe_from", "Clone::clone"))
                if not conv:
                    return True         # handed to a function that can use it (scope.offset(..), read_at, a constructor, ...)
                if item.get("dest") and not item["dest"]["p"]:
                    todo.append(item["dest"]["l"])
                    todo.extend(guards.unwrapped_value_locals(b, item["dest"]["l"]))
            elif kind == "switch":
                continue
    return False


def rule_offsets(run, fx, rule, select, floors=True, floor_n=1):
    run.rule(rule, "every value a reader takes from the font into a local named as an offset is used to locate data or is kept: through copies, casts, "
                   "conversions and arithmetic it reaches an argument of a call other than a comparison or validity check, a field of the value that is "
                   "built, or the result. An offset that only takes part in comparisons (a range check) locates nothing: the data it points to is then "
                   "taken from somewhere else, usually from wherever the cursor happens to be")
    n = 0
    for b in fx.bodies:
        if not select(b):
            continue
        for bi, t in b.calls():
            if not READ.search(t["callee"].get("path") or "") or t["dest"]["p"] or not b.reachable(bi):
                continue
            for v in guards.unwrapped_value_locals(b, t["dest"]["l"]):
                for name, nuses in _final_named(b, v):
                    if "offset" not in (name or "") or nuses == 0:
                        continue        # never used at all: R-IGN's business
                    # the named local that received the value
                    named = [l for l in range(b.arg_count + 1, len(b.locals)) if b.local_name(l) == name]
                    n += 1
                    if any(_locating_use(b, l) for l in named):
                        run.ok(rule, "%s: %s locates data or is kept" % (b.root, name))
                    else:
                        run.fail(rule, "offset-unused|%s" % b.root, "%s reads `%s` from the font and only compares it: nothing is located with it" % (b.path, name), b.loc(t))
    if floors and floor_n:
        run.floor(rule, "offsets read into named locals", n, floor_n)
    return n


# property -> (source files whose readers it owns, ignored reads counted there on the pinned tree)
SCOPE = {
    "C02": (("src/tables/morx.rs",), 4),
    "C04": (("src/layout.rs",), 4),
    "C05": (("src/layout.rs", "src/tables/kern.rs"), 9),
    "C06": (("src/tables/cmap.rs", "src/tables/cmap/"), 7),
    "C11": (("src/woff2.rs", "src/woff2/"), 2),
    "C12": (("src/tables/variable_fonts", "src/variations.rs"), 6),
    "C13": (("src/tables/variable_fonts/fvar.rs", "src/tables/variable_fonts/avar.rs"), 5),
    "C15": (("src/tables.rs", "src/tables/os2.rs", "src/post.rs", "src/cff.rs", "src/cff/"), 6),
}


# offsets read into named locals, counted on the pinned tree (cmap.rs reads its offsets through records: none)
# only the larger scopes carry a floor (with the usual 10 % tolerance): the rule goes by the names of locals, and a scope with one or two
# offsets loses its whole count to a rename
OFFSETS = {"C04": 11, "C05": 14, "C12": 12}


def run_for(run, fx, prop, floors=True):
    files, n = SCOPE[prop]
    rule_offsets(run, fx, "R-OFF", lambda b: b.file.startswith(files) and not b.exp, floors, OFFSETS.get(prop, 0))
    return rule_ignored(run, fx, "R-IGN", lambda b: b.file.startswith(files), floors, n)
