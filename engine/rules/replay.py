"""Thorough tier: replay a few kept breaking changes (seeded/<id>/patch.diff, listed in seeded/EXPECTED.json) against the rules of
the property, in a scratch copy of /repo's working tree, and record whether the expected rule reports each of them. This is the
"fires on a broken variant" half of the both-ways test, re-done on the tree as it is today. It never raises a violation: a patch
that no longer applies to a changed tree is skipped, and a change that is no longer reported is listed in the evidence (and
printed) for a human to look at - the verdict on /repo itself comes only from the rules."""
import json
import os
import shutil
import subprocess
import tempfile
import time

import core
import extract
import facts as F

VERIF = extract.VERIF


def replay(run, pid, mod, limit=3):
    path = os.path.join(VERIF, "seeded", "EXPECTED.json")
    if not os.path.isfile(path):
        return
    want = json.load(open(path)).get(pid, [])[:limit]
    if not want:
        return
    tmp = tempfile.mkdtemp(prefix="vf-replay-")
    out = []
    try:
        dst = os.path.join(tmp, "repo")
        for e in want:
            t0 = time.time()
            rec = {"seed": e["seed"], "expected_rules": e["rules"]}
            out.append(rec)
            patch = os.path.join(VERIF, "seeded", e["seed"], "patch.diff")
            if not os.path.isdir(os.path.join(VERIF, "seeded", e["seed"])):
                patch = os.path.join(VERIF, "selftest", e["seed"], "patch.diff")
            subprocess.run(["rsync", "-a", "--delete", "--exclude", ".git", "--exclude", "target", extract.REPO + "/", dst + "/"], check=True)
            r = subprocess.run(["git", "apply", "--unsafe-paths", "--directory=" + dst, patch], cwd=tmp, capture_output=True, text=True)
            if r.returncode != 0:
                r = subprocess.run(["patch", "-p1", "-s", "-i", patch], cwd=dst, capture_output=True, text=True)
            if r.returncode != 0:
                rec["result"] = "skipped: the patch does not apply to the current tree"
                continue
            try:
                raw = extract.extract(dst, "allsorts", "prince", extract.CONFIGS["prince"])
            except SystemExit as ex:
                rec["result"] = "skipped: the changed tree does not compile here (%s)" % str(ex)[:80]
                continue
            fx = F.Facts(raw)
            r2 = core.Run(pid, "quick")
            r2.set_config("prince")
            mod.check(r2, fx, "quick")
            got = sorted({v["rule"] for v in r2.violations if v["rule"] != "SELFTEST"})
            rec["reported_rules"] = got
            rec["result"] = "reported" if set(e["rules"]) & set(got) else "NOT REPORTED"
            rec["wall_s"] = round(time.time() - t0, 1)
    finally:
        shutil.rmtree(tmp, ignore_errors=True)
    run.analysed["mutation_replay"] = out
    n_rep = sum(1 for r in out if r.get("result") == "reported")
    print("mutation replay (%s): %d of %d kept breaking changes reported by the expected rule%s" % (
        pid, n_rep, len(out), "" if n_rep == len(out) else "; " + "; ".join("%s: %s" % (r["seed"], r.get("result")) for r in out if r.get("result") != "reported")))
