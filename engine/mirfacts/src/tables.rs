//! Type tables: ADTs, impls, evaluated consts/statics, unsafe blocks (HIR).
use crate::body::{dp, path, span_j, ty_s};
use crate::json::J;
use rustc_hir as hir;
use rustc_hir::def::DefKind;
use rustc_hir::intravisit::{self, Visitor};
use rustc_middle::mir::interpret::{GlobalAlloc, Scalar};
use rustc_middle::mir::ConstValue;
use rustc_middle::ty::print::with_no_trimmed_paths;
use rustc_middle::ty::{self, Ty, TyCtxt, TypingEnv};

fn scalar_j<'tcx>(ty: Ty<'tcx>, s: Scalar) -> J {
    if let Scalar::Int(si) = s {
        if ty.is_integral() || ty.is_bool() || ty.is_char() {
            let size = si.size();
            let bits = si.to_bits(size);
            let v: i128 = if ty.is_signed() { size.sign_extend(bits) as i128 } else { bits as i128 };
            return J::Int(v);
        }
    }
    J::Null
}

fn hex(bytes: &[u8]) -> String {
    let mut s = String::with_capacity(bytes.len() * 2);
    for b in bytes {
        s.push_str(&format!("{:02x}", b));
    }
    s
}

/// layout description of an array element type (struct of scalars) or scalar
fn layout_j<'tcx>(tcx: TyCtxt<'tcx>, ty: Ty<'tcx>) -> J {
    let env = TypingEnv::fully_monomorphized();
    let Ok(layout) = tcx.layout_of(env.as_query_input(ty)) else { return J::Null };
    let mut o = vec![("ty", J::s(ty_s(ty))), ("size", J::u(layout.size.bytes() as usize))];
    match ty.kind() {
        ty::Array(elem, n) => {
            o.push(("array_of", layout_j(tcx, *elem)));
            if let Some(n) = n.try_to_target_usize(tcx) {
                o.push(("len", J::u(n as usize)));
            }
        }
        ty::Adt(def, args) if def.is_struct() => {
            let mut fields = vec![];
            for (i, f) in def.non_enum_variant().fields.iter_enumerated() {
                let fty = f.ty(tcx, args);
                let off = layout.fields.offset(i.as_usize()).bytes() as usize;
                let fsize = tcx.layout_of(env.as_query_input(fty)).map(|l| l.size.bytes() as usize).unwrap_or(0);
                fields.push(J::Obj(vec![
                    ("name", J::s(f.name.to_string())),
                    ("offset", J::u(off)),
                    ("size", J::u(fsize)),
                    ("ty", J::s(ty_s(fty))),
                ]));
            }
            o.push(("fields", J::Arr(fields)));
        }
        _ => {}
    }
    J::Obj(o)
}

struct UnsafeFinder<'tcx> {
    tcx: TyCtxt<'tcx>,
    owner: String,
    owner_dp: String,
    out: Vec<J>,
}

impl<'tcx> Visitor<'tcx> for UnsafeFinder<'tcx> {
    fn visit_block(&mut self, b: &'tcx hir::Block<'tcx>) {
        if let hir::BlockCheckMode::UnsafeBlock(src) = b.rules {
            let (file, line) = span_j(self.tcx, b.span);
            self.out.push(J::Obj(vec![
                ("what", J::s("block")),
                ("owner", J::s(self.owner.clone())),
                ("owner_dp", J::s(self.owner_dp.clone())),
                ("file", J::s(file)),
                ("line", J::u(line)),
                ("exp", J::Bool(b.span.from_expansion())),
                ("macro", {
                    let d = b.span.ctxt().outer_expn_data();
                    match d.kind {
                        rustc_span::ExpnKind::Macro(_, name) => J::s(name.to_string()),
                        _ => J::Null,
                    }
                }),
                ("macro_local", {
                    // outermost macro in the backtrace decides: a local macro_rules! wrapping unsafe is hand-written code
                    let mut local = false;
                    for e in b.span.macro_backtrace() {
                        if let Some(md) = e.macro_def_id {
                            if md.is_local() {
                                local = true;
                            }
                        }
                    }
                    J::Bool(local)
                }),
                ("src", J::s(format!("{:?}", src))),
            ]));
        }
        intravisit::walk_block(self, b);
    }
}

pub fn export_tables(tcx: TyCtxt<'_>) -> J {
    let mut adts = vec![];
    let mut impls = vec![];
    let mut consts = vec![];
    let mut statics = vec![];
    let mut traits = vec![];
    let mut unsafe_items = vec![];
    let mut fns_nomir = vec![];

    let items = tcx.hir_crate_items(());
    let mut defs: Vec<_> = items.definitions().collect();
    defs.sort_by_key(|d| dp(tcx, d.to_def_id()));
    for ldid in defs {
        let did = ldid.to_def_id();
        let kind = tcx.def_kind(did);
        let exp = tcx.def_span(did).from_expansion();
        let (file, line) = span_j(tcx, tcx.def_span(did));
        match kind {
            DefKind::Struct | DefKind::Enum | DefKind::Union => {
                let def = tcx.adt_def(did);
                let mut variants = vec![];
                let discrs: Vec<i128> = if def.is_enum() {
                    def.discriminants(tcx).map(|(_, d)| d.val as i128).collect()
                } else {
                    vec![0]
                };
                for (vi, v) in def.variants().iter_enumerated() {
                    let fields: Vec<J> = v
                        .fields
                        .iter()
                        .map(|f| {
                            J::Obj(vec![
                                ("name", J::s(f.name.to_string())),
                                ("vis", J::s(format!("{:?}", f.vis))),
                                ("pub", J::Bool(f.vis.is_public())),
                                ("ty", J::s(ty_s(tcx.type_of(f.did).skip_binder()))),
                            ])
                        })
                        .collect();
                    variants.push(J::Obj(vec![
                        ("name", J::s(v.name.to_string())),
                        ("discr", J::Int(*discrs.get(vi.as_usize()).unwrap_or(&0))),
                        ("fields", J::Arr(fields)),
                    ]));
                }
                adts.push(J::Obj(vec![
                    ("path", J::s(path(tcx, did))),
                    ("dp", J::s(dp(tcx, did))),
                    ("kind", J::s(format!("{:?}", kind))),
                    ("file", J::s(file)),
                    ("line", J::u(line)),
                    ("exp", J::Bool(exp)),
                    ("vis", J::s(format!("{:?}", tcx.visibility(did)))),
                    ("variants", J::Arr(variants)),
                ]));
            }
            DefKind::Impl { of_trait } => {
                let self_ty = tcx.type_of(did).skip_binder();
                let mut o = vec![
                    ("dp", J::s(dp(tcx, did))),
                    ("self", J::s(ty_s(self_ty))),
                    ("file", J::s(file)),
                    ("line", J::u(line)),
                    ("exp", J::Bool(exp)),
                    ("generic", J::Bool(tcx.generics_of(did).requires_monomorphization(tcx))),
                ];
                if of_trait {
                    let tr = tcx.impl_trait_ref(did).skip_binder();
                    o.push(("trait", J::s(path(tcx, tr.def_id))));
                    o.push(("trait_ref", J::s(with_no_trimmed_paths!(format!("{}", tr)))));
                    let header = tcx.impl_trait_header(did);
                    o.push(("unsafe", J::Bool(header.safety.is_unsafe())));
                }
                let mut ai = vec![];
                for a in tcx.associated_items(did).in_definition_order() {
                    let mut e = vec![
                        ("name", J::s(a.name().to_string())),
                        ("kind", J::s(format!("{:?}", a.kind).split(|c: char| !c.is_alphanumeric()).next().unwrap_or("").to_string())),
                        ("path", J::s(path(tcx, a.def_id))),
                        ("dp", J::s(dp(tcx, a.def_id))),
                    ];
                    if matches!(tcx.def_kind(a.def_id), DefKind::AssocTy) {
                        e.push(("ty", J::s(ty_s(tcx.type_of(a.def_id).skip_binder()))));
                    }
                    ai.push(J::Obj(e));
                }
                o.push(("items", J::Arr(ai)));
                impls.push(J::Obj(o));
            }
            DefKind::Trait => {
                let td = tcx.trait_def(did);
                traits.push(J::Obj(vec![
                    ("path", J::s(path(tcx, did))),
                    ("unsafe", J::Bool(td.safety.is_unsafe())),
                    ("file", J::s(file)),
                    ("line", J::u(line)),
                ]));
            }
            DefKind::Const { .. } | DefKind::AssocConst { .. } => {
                let ty = tcx.type_of(did).skip_binder();
                let generic = tcx.generics_of(did).requires_monomorphization(tcx);
                let mut o = vec![
                    ("path", J::s(path(tcx, did))),
                    ("dp", J::s(dp(tcx, did))),
                    ("kind", J::s(format!("{:?}", kind).split(|c: char| !c.is_alphanumeric()).next().unwrap_or("").to_string())),
                    ("ty", J::s(ty_s(ty))),
                    ("file", J::s(file)),
                    ("line", J::u(line)),
                    ("exp", J::Bool(exp)),
                    ("generic", J::Bool(generic)),
                ];
                // only items with a body (trait consts without default have none)
                let has_body = tcx.hir_maybe_body_owned_by(ldid).is_some();
                if !generic && has_body {
                    if let Ok(cv) = tcx.const_eval_poly(did) {
                        match cv {
                            ConstValue::Scalar(s) => {
                                // `&'static [T; N]` tables (e.g. unicode::mcc::MODIFIED_COMBINING_CLASS): a thin pointer to the array
                                if let (ty::Ref(_, inner, _), Scalar::Ptr(ptr, _)) = (ty.kind(), s) {
                                    if let ty::Array(elem, _) = inner.kind() {
                                        let (prov, off) = ptr.into_raw_parts();
                                        if let GlobalAlloc::Memory(t) = tcx.global_alloc(prov.alloc_id()) {
                                            let ta = t.inner();
                                            let start = off.bytes() as usize;
                                            if ta.provenance().ptrs().is_empty() && ta.len() <= 1 << 16 && start <= ta.len() {
                                                let tb = ta.inspect_with_uninit_and_ptr_outside_interpreter(start..ta.len());
                                                let el = layout_j(tcx, *elem);
                                                o.push(("bytes", J::s(hex(tb))));
                                                if let Ok(l) = tcx.layout_of(TypingEnv::fully_monomorphized().as_query_input(*elem)) {
                                                    let sz = l.size.bytes() as usize;
                                                    if sz > 0 {
                                                        o.push(("array_len", J::u(tb.len() / sz)));
                                                    }
                                                }
                                                o.push(("elem_layout", el));
                                            }
                                        }
                                    }
                                }
                                let v = scalar_j(ty, s);
                                if matches!(v, J::Null) {
                                    // a newtype over an integer (e.g. PlatformId(u16)): export the raw unsigned bits
                                    if let Scalar::Int(si) = s {
                                        let size = si.size();
                                        o.push(("val", J::Int(si.to_bits(size) as i128)));
                                        o.push(("newtype", J::Bool(true)));
                                    } else {
                                        o.push(("val", J::Null));
                                    }
                                } else {
                                    o.push(("val", v));
                                }
                            }
                            ConstValue::Indirect { alloc_id, offset } => {
                                if let GlobalAlloc::Memory(alloc) = tcx.global_alloc(alloc_id) {
                                    let a = alloc.inner();
                                    if a.provenance().ptrs().is_empty() {
                                        let len = a.len();
                                        let bytes = a.inspect_with_uninit_and_ptr_outside_interpreter(offset.bytes() as usize..len);
                                        if bytes.len() <= 1 << 16 {
                                            o.push(("bytes", J::s(hex(bytes))));
                                            o.push(("layout", layout_j(tcx, ty)));
                                        }
                                    } else if a.provenance().ptrs().len() == 1 {
                                        // a fat pointer to a table: `&'static [T]` (e.g. gsub::FEATURE_MASKS)
                                        if let ty::Ref(_, inner, _) = ty.kind() {
                                            if let ty::Slice(elem) = inner.kind() {
                                                let base = offset.bytes() as usize;
                                                let raw = a.inspect_with_uninit_and_ptr_outside_interpreter(base..a.len());
                                                if let Some((_, prov)) = a.provenance().ptrs().iter().next() {
                                                    if raw.len() >= 16 {
                                                        let mut lb = [0u8; 8];
                                                        lb.copy_from_slice(&raw[8..16]);
                                                        let n = u64::from_le_bytes(lb) as usize;
                                                        if let GlobalAlloc::Memory(t) = tcx.global_alloc(prov.alloc_id()) {
                                                            let ta = t.inner();
                                                            if ta.provenance().ptrs().is_empty() && ta.len() <= 1 << 16 {
                                                                let tb = ta.inspect_with_uninit_and_ptr_outside_interpreter(0..ta.len());
                                                                o.push(("bytes", J::s(hex(tb))));
                                                                o.push(("slice_len", J::u(n)));
                                                                o.push(("elem_layout", layout_j(tcx, *elem)));
                                                            }
                                                        }
                                                    }
                                                }
                                            }
                                        }
                                    }
                                }
                            }
                            // `&'static [T]` tables (e.g. gsub::FEATURE_MASKS): export the bytes of the slice and the element layout
                            ConstValue::Slice { alloc_id, meta } => {
                                if let GlobalAlloc::Memory(alloc) = tcx.global_alloc(alloc_id) {
                                    let a = alloc.inner();
                                    if a.provenance().ptrs().is_empty() && a.len() <= 1 << 16 {
                                        let bytes = a.inspect_with_uninit_and_ptr_outside_interpreter(0..a.len());
                                        o.push(("bytes", J::s(hex(bytes))));
                                        o.push(("slice_len", J::u(meta as usize)));
                                        if let ty::Ref(_, inner, _) = ty.kind() {
                                            if let ty::Slice(elem) = inner.kind() {
                                                o.push(("elem_layout", layout_j(tcx, *elem)));
                                            }
                                        }
                                    }
                                }
                            }
                            _ => {}
                        }
                    }
                }
                consts.push(J::Obj(o));
            }
            DefKind::Static { mutability, nested, .. } => {
                if nested {
                    continue;
                }
                let ty = tcx.type_of(did).skip_binder();
                let env = TypingEnv::fully_monomorphized();
                let mut o = vec![
                    ("path", J::s(path(tcx, did))),
                    ("dp", J::s(dp(tcx, did))),
                    ("ty", J::s(ty_s(ty))),
                    ("file", J::s(file)),
                    ("line", J::u(line)),
                    ("exp", J::Bool(exp)),
                    ("mutable", J::Bool(mutability.is_mut())),
                    ("freeze", J::Bool(ty.is_freeze(tcx, env))),
                ];
                if let Ok(alloc) = tcx.eval_static_initializer(did) {
                    let a = alloc.inner();
                    let noptr = a.provenance().ptrs().is_empty();
                    o.push(("has_ptrs", J::Bool(!noptr)));
                    if noptr && a.len() <= 1 << 16 {
                        let bytes = a.inspect_with_uninit_and_ptr_outside_interpreter(0..a.len());
                        o.push(("bytes", J::s(hex(bytes))));
                        o.push(("layout", layout_j(tcx, ty)));
                    }
                }
                statics.push(J::Obj(o));
            }
            DefKind::Fn | DefKind::AssocFn => {
                if !tcx.is_mir_available(did) {
                    let sig = tcx.fn_sig(did).skip_binder();
                    fns_nomir.push(J::Obj(vec![
                        ("path", J::s(path(tcx, did))),
                        ("unsafe", J::Bool(sig.safety().is_unsafe())),
                        ("file", J::s(file)),
                        ("line", J::u(line)),
                    ]));
                }
            }
            _ => {}
        }
    }

    // unsafe blocks
    for owner in tcx.hir_body_owners() {
        let did = owner.to_def_id();
        let Some(body) = tcx.hir_maybe_body_owned_by(owner) else { continue };
        let root = tcx.typeck_root_def_id(did);
        let mut f = UnsafeFinder { tcx, owner: path(tcx, root), owner_dp: dp(tcx, root), out: vec![] };
        // closures are nested in their parents' bodies; only walk roots to avoid duplicates
        if root != did {
            continue;
        }
        f.visit_expr(body.value);
        unsafe_items.extend(f.out);
    }

    J::Obj(vec![
        ("adts", J::Arr(adts)),
        ("impls", J::Arr(impls)),
        ("traits", J::Arr(traits)),
        ("consts", J::Arr(consts)),
        ("statics", J::Arr(statics)),
        ("unsafe_blocks", J::Arr(unsafe_items)),
        ("fns_nomir", J::Arr(fns_nomir)),
    ])
}
