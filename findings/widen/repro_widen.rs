// Repro for the four font-reachable arithmetic overflow panics found by the C01-w audit (fixed in /repo).
// Copy to /repo/tests/ and run `cargo test --offline --test repro_widen`; every test panicked before the fixes.
use allsorts::binary::read::ReadScope;
use allsorts::bitmap::cbdt::{CBDTTable, CBLCTable};
use allsorts::bitmap::BitDepth;
use allsorts::tables::cmap::CmapSubtable;

fn be16(v: &mut Vec<u8>, x: u16) {
    v.extend_from_slice(&x.to_be_bytes());
}
fn be32(v: &mut Vec<u8>, x: u32) {
    v.extend_from_slice(&x.to_be_bytes());
}

/// CBLC with one strike, one index sub table record (first..=last), followed by `sub_table`.
fn cblc(first: u16, last: u16, sub_table: &[u8]) -> Vec<u8> {
    let mut v = Vec::new();
    be16(&mut v, 3); // major
    be16(&mut v, 0); // minor
    be32(&mut v, 1); // numSizes
    // BitmapSize (48 bytes)
    be32(&mut v, 56); // indexSubTableArrayOffset
    be32(&mut v, 0); // indexTablesSize
    be32(&mut v, 1); // numberOfIndexSubTables
    be32(&mut v, 0); // colorRef
    v.extend_from_slice(&[0; 24]); // hori, vert
    be16(&mut v, 0); // startGlyphIndex
    be16(&mut v, 0xFFFF); // endGlyphIndex
    v.extend_from_slice(&[16, 16, 32, 1]); // ppemX, ppemY, bitDepth, flags
    assert_eq!(v.len(), 56);
    // IndexSubTableRecord
    be16(&mut v, first);
    be16(&mut v, last);
    be32(&mut v, 8); // additionalOffsetToIndexSubtable
    v.extend_from_slice(sub_table);
    v
}

// sites 5: IndexSubTable format 1, last < first
#[test]
fn site5_fmt1_last_lt_first() {
    let mut st = Vec::new();
    be16(&mut st, 1); // indexFormat
    be16(&mut st, 17); // imageFormat
    be32(&mut st, 4); // imageDataOffset
    st.extend_from_slice(&[0; 64]);
    let data = cblc(5, 4, &st);
    let r = ReadScope::new(&data).read::<CBLCTable<'_>>();
    // reaching this line at all means no arithmetic overflow panic (run with overflow checks: the test profile)
    let _ = r.is_ok();
}

// site 5: overflow variant, first = 0, last = 0xFFFF
#[test]
fn site5_fmt1_full_range() {
    let mut st = Vec::new();
    be16(&mut st, 1);
    be16(&mut st, 17);
    be32(&mut st, 4);
    st.extend_from_slice(&[0; 64]);
    let data = cblc(0, 0xFFFF, &st);
    let r = ReadScope::new(&data).read::<CBLCTable<'_>>();
    // reaching this line at all means no arithmetic overflow panic (run with overflow checks: the test profile)
    let _ = r.is_ok();
}

// site 6: IndexSubTable format 3, last < first
#[test]
fn site6_fmt3_last_lt_first() {
    let mut st = Vec::new();
    be16(&mut st, 3);
    be16(&mut st, 17);
    be32(&mut st, 4);
    st.extend_from_slice(&[0; 64]);
    let data = cblc(5, 4, &st);
    let r = ReadScope::new(&data).read::<CBLCTable<'_>>();
    // reaching this line at all means no arithmetic overflow panic (run with overflow checks: the test profile)
    let _ = r.is_ok();
}

// site 6: overflow variant first = 0, last = 0xFFFE
#[test]
fn site6_fmt3_fffe() {
    let mut st = Vec::new();
    be16(&mut st, 3);
    be16(&mut st, 17);
    be32(&mut st, 4);
    st.extend_from_slice(&[0; 64]);
    let data = cblc(0, 0xFFFE, &st);
    let r = ReadScope::new(&data).read::<CBLCTable<'_>>();
    // reaching this line at all means no arithmetic overflow panic (run with overflow checks: the test profile)
    let _ = r.is_ok();
}

// site 4: IndexSubTable format 4, descending offsets
#[test]
fn site4_fmt4_descending_offsets() {
    let mut st = Vec::new();
    be16(&mut st, 4); // indexFormat
    be16(&mut st, 17); // imageFormat
    be32(&mut st, 4); // imageDataOffset
    be32(&mut st, 1); // numGlyphs  (array has numGlyphs + 1 entries)
    be16(&mut st, 5); // glyphID
    be16(&mut st, 10); // offset
    be16(&mut st, 6); // glyphID
    be16(&mut st, 4); // offset  < previous
    let data = cblc(5, 5, &st);
    let cblc = ReadScope::new(&data).read::<CBLCTable<'_>>().unwrap();
    let mut cbdt_data = vec![0, 3, 0, 0];
    cbdt_data.extend_from_slice(&[0; 64]);
    let cbdt = ReadScope::new(&cbdt_data).read::<CBDTTable<'_>>().unwrap();
    let strike = cblc.find_strike(5, 16, BitDepth::ThirtyTwo).unwrap();
    let r = strike.bitmap(&cbdt);
    // reaching this line at all means no arithmetic overflow panic (run with overflow checks: the test profile)
    let _ = r.is_ok();
}

// site 16: cmap format 2, first_code + entry_count > 0x10000
#[test]
fn site16_cmap_fmt2_low_byte_overflow() {
    let mut v = Vec::new();
    be16(&mut v, 2); // format
    be16(&mut v, 0); // length (ignored)
    be16(&mut v, 0); // language
    for i in 0..256u16 {
        be16(&mut v, if i == 1 { 8 } else { 0 }); // subHeaderKeys
    }
    // subHeader 0: empty
    be16(&mut v, 0);
    be16(&mut v, 0);
    be16(&mut v, 0);
    be16(&mut v, 0);
    // subHeader 1
    be16(&mut v, 0xFFFF); // firstCode
    be16(&mut v, 2); // entryCount
    be16(&mut v, 0); // idDelta
    be16(&mut v, 2); // idRangeOffset -> immediately after this sub header
    be16(&mut v, 1);
    be16(&mut v, 2);
    let sub = ReadScope::new(&v).read::<CmapSubtable<'_>>().unwrap();
    let r = sub.mappings();
    // reaching this line at all means no arithmetic overflow panic (run with overflow checks: the test profile)
    let _ = r.is_ok();
}

// SubHeader::contains, reached from map_glyph: first_code + entry_count in u16
#[test]
fn cmap_fmt2_contains_overflow() {
    let mut v = Vec::new();
    be16(&mut v, 2);
    be16(&mut v, 0);
    be16(&mut v, 0);
    for i in 0..256u16 {
        be16(&mut v, if i == 1 { 8 } else { 0 });
    }
    for _ in 0..4 {
        be16(&mut v, 0);
    }
    be16(&mut v, 0xFFFF);
    be16(&mut v, 2);
    be16(&mut v, 0);
    be16(&mut v, 2);
    be16(&mut v, 1);
    be16(&mut v, 2);
    let sub = ReadScope::new(&v).read::<CmapSubtable<'_>>().unwrap();
    let _ = sub.map_glyph(0x01FF);
}
