// Reproduction: the name table writers compute stringOffset from the absolute write position, so a
// name table written into a context that already holds data cannot be read back.
use allsorts::binary::read::ReadScope;
use allsorts::binary::write::{WriteBinary, WriteBuffer, WriteContext};
use allsorts::tables::{owned, NameTable};
use std::convert::TryFrom;

fn name_bin() -> Vec<u8> {
    std::fs::read("tests/fonts/opentype/name.bin").unwrap()
}

#[test]
fn name_table_round_trips_at_non_zero_position() {
    let data = name_bin();
    let name = ReadScope::new(&data).read::<NameTable<'_>>().unwrap();
    let expected: Vec<Vec<u8>> = name
        .name_records
        .iter()
        .map(|rec| {
            let off = usize::from(rec.offset);
            name.string_storage.data()[off..off + usize::from(rec.length)].to_vec()
        })
        .collect();

    let mut buf = WriteBuffer::new();
    buf.write_bytes(&[0xAA; 6]).unwrap(); // something precedes the table, e.g. another structure
    NameTable::write(&mut buf, &name).unwrap();
    let bytes = buf.into_inner();
    let reread = ReadScope::new(&bytes[6..])
        .read::<NameTable<'_>>()
        .expect("unable to re-read the written name table");
    let got: Vec<Vec<u8>> = reread
        .name_records
        .iter()
        .map(|rec| {
            let off = usize::from(rec.offset);
            reread.string_storage.data()[off..off + usize::from(rec.length)].to_vec()
        })
        .collect();
    assert_eq!(got, expected);
}

#[test]
fn owned_name_table_round_trips_at_non_zero_position() {
    let data = name_bin();
    let name = ReadScope::new(&data).read::<NameTable<'_>>().unwrap();
    let owned = owned::NameTable::try_from(&name).unwrap();
    let mut reference = WriteBuffer::new();
    owned::NameTable::write(&mut reference, &owned).unwrap();
    let reference = reference.into_inner();

    let mut buf = WriteBuffer::new();
    buf.write_bytes(&[0xAA; 6]).unwrap();
    owned::NameTable::write(&mut buf, &owned).unwrap();
    let bytes = buf.into_inner();
    assert_eq!(&bytes[6..], &reference[..], "the table bytes depend on where the table is written");
}
