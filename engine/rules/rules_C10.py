"""C10 — containers yield exactly the stored tables: the structural clauses.

T10-IDX   a member index travels unmodified from the public entry point to a total accessor
T10-FIND  tables are selected by tag equality through Iterator::find (order independent)
T10-SIB   has_table(tag) and table_data(tag) of every FontTableProvider select through the same finder
T10-PAN   explicit panic discipline in the container layer (rule C01-b restricted to it)
T10-WOFF  a WOFF table is inflated exactly when comp_length != orig_length, read at (offset, comp_length)
"""
import re

import rules_C01
import sym
from facts import callee_is, op_local

LEVEL = "other"
EXPLANATION = (
    "Decides the last clause of C10 — asking for an absent table, or for a member index beyond the end of a collection, reports absence or an "
    "error rather than other data — and the selection discipline behind 'the table returned for a tag is the table stored for that tag': "
    "(T10-IDX) in every function of the container layer that takes a member index, the index parameter is only ever copied and handed, "
    "unmodified, to the next container function or to a total accessor (ReadArray::get_item, slice::get, Directory::get); any arithmetic, mask, "
    "cast or other use is a violation, so no index can alias another member; (T10-FIND) the finders compare the requested tag with the record's "
    "tag by equality inside Iterator::find — no ordering comparison, binary search or sort is involved, so the result does not depend on the "
    "directory order; (T10-SIB) has_table and table_data of each FontTableProvider implementation reach the same terminal selector on the same "
    "argument; (T10-PAN) no unwrap/expect/panic!/range-slice in the container functions is left undischarged, so a failed selection propagates "
    "as None/Err; (T10-WOFF) the WOFF entry reader decides on inflation by comp_length != orig_length and reads (offset, comp_length)."
)
NOT_DECIDED = (
    "byte-for-byte equality of returned and stored table data, zlib/brotli decompression itself, and the values of offsets and lengths are "
    "properties of buffer contents and are not decided."
)
ASSUMPTIONS = ["Iterator::find returns the first element for which the predicate holds, Option/Result combinators propagate None/Err as documented"]

# functions of the container layer that receive a member index, by (body path regex)
INDEX_FNS = [
    r"^font_data::FontData::<'a>::table_provider$",
    r"^tables::OpenTypeFont::<'a>::table_provider$",
    r"^tables::OpenTypeFont::<'a>::offset_table$",
    r"^woff2::Woff2Font::<'a>::table_provider$",
    r"^woff2::Woff2Font::<'a>::find_table_entry$",
    r"^woff2::Woff2Font::<'a>::read_table$",
    r"^woff2::Woff2TableProvider::new$",
    r"^woff2::Woff2TableProvider::table_directory$",
    r"^woff2::collection::Directory::get$",
]
TOTAL_ACCESSORS = ("binary::read::ReadArray::<'a, T>::get_item", "core::slice::<impl [T]>::get", "std::vec::Vec::<T, A>::get",
                   "binary::read::ReadArrayCow::<'a, T>::get_item")
FINDERS = [
    (r"^tables::OffsetTable::<'a>::find_table_record$", "table_tag"),
    (r"^woff::WoffFont::<'a>::find_table_directory_entry$", "tag"),
    (r"^woff2::Woff2Font::<'a>::find_table_entry$", "tag"),
]
PANIC_SCOPE = INDEX_FNS + [f for f, _ in FINDERS] + [
    r"^tables::OffsetTable::<'a>::read_table$", r"^tables::TableRecord::read_table$", r"^woff::TableDirectoryEntry::read_table$",
    r"^woff2::TableDirectoryEntry::read_table$", r"^woff2::collection::FontEntry::table_entries",
    r" as tables::FontTableProvider>::(table_data|has_table|table_tags|read_table_data)$", r" as tables::SfntVersion>::sfnt_version$",
    r"^<font_data::FontData<'b> as binary::read::ReadBinary>::read$", r"^<tables::OpenTypeFont<'b> as binary::read::ReadBinary>::read$",
    r"^<tables::OffsetTable<'b> as binary::read::ReadBinary>::read$", r"^<tables::TTCHeader<'b> as binary::read::ReadBinary>::read$",
    r"^<woff::WoffFont<'b> as binary::read::ReadBinary>::read$", r"^<woff::WoffHeader as binary::read::ReadBinary>::read$",
]


def one(fx, rx):
    bs = [b for b in fx.bodies if re.search(rx, b.path) and b.kind != "Closure"]
    return bs


def arg_named(b, name):
    for l in range(1, b.arg_count + 1):
        if b.local_name(l) == name:
            return l
    return None


def copies_of(b, l0):
    """locals holding an unmodified copy of local l0 (or a reference to it), by fixpoint over plain moves/copies/refs"""
    s = {l0}
    changed = True
    while changed:
        changed = False
        for bi, blk in enumerate(b.blocks):
            if not b.reachable(bi):
                continue
            for st in blk["s"]:
                if st["k"] != "assign" or st["p"]["p"]:
                    continue
                rv = st["rv"]
                src = None
                if rv["k"] == "use" and rv["op"]["k"] in ("copy", "move"):
                    src = rv["op"]["p"]
                elif rv["k"] == "ref":
                    src = rv["p"]
                if src is not None and src["l"] in s and all(e == "*" for e in src["p"]) and st["p"]["l"] not in s:
                    s.add(st["p"]["l"])
                    changed = True
    return s


def t10_idx(run, fx, floors):
    rule = "T10-IDX"
    run.rule(rule, "in every container function taking a member index, the parameter `index` is only copied and passed unmodified to another "
                   "container function (at its index position) or to a total accessor; arithmetic, masks, casts and any other use are violations")
    n = 0
    allowed_dp = set()
    bodies = []
    for rx in INDEX_FNS:
        bs = one(fx, rx)
        if not bs:
            run.anchor_missing(rule, rx)
            continue
        for b in bs:
            bodies.append(b)
            allowed_dp.add(b.dp)
    for b in bodies:
        l0 = arg_named(b, "index")
        if l0 is None:
            run.anchor_missing(rule, "parameter `index` of %s" % b.path)
            continue
        fam = [b] + [c for c in fx.closures_of(b.dp)]
        cs = copies_of(b, l0)
        uses = 0
        for bi, blk in enumerate(b.blocks):
            if not b.reachable(bi):
                continue
            for st in blk["s"]:
                if st["k"] != "assign":
                    continue
                rv = st["rv"]
                ops = [rv.get(k) for k in ("op", "a", "b")] + list(rv.get("fields", []))
                hit = [o for o in ops if o and o.get("k") in ("copy", "move") and o["p"]["l"] in cs]
                if not hit:
                    continue
                if rv["k"] == "use" and not st["p"]["p"]:
                    continue  # plain copy, tracked
                if rv["k"] == "agg" and rv.get("agg") == "closure":
                    # captured by a closure: the closure family is checked below (the capture is a use)
                    run.fail(rule, "index-captured:%s" % b.root, "the member index is captured by a closure in %s; it must reach the accessor directly" % b.path, b.loc(st))
                    uses += 1
                    continue
                if rv["k"] == "bin" and rv["bop"] in ("Lt", "Le", "Gt", "Ge", "Eq", "Ne"):
                    continue  # a comparison guards, it does not transform
                uses += 1
                run.fail(rule, "index-transformed:%s" % b.root, "the member index is transformed (%s) before it selects a member in %s" % (rv.get("bop") or rv["k"], b.path), b.loc(st))
            t = blk["t"]
            if t["k"] == "call":
                for i, a in enumerate(t["args"]):
                    if a["k"] in ("copy", "move") and a["p"]["l"] in cs and all(e == "*" for e in a["p"]["p"]):
                        uses += 1
                        c = t["callee"]
                        dp = c.get("rdp") or c.get("dp")
                        if dp in allowed_dp:
                            cb = fx.by_dp[dp]
                            if cb.local_name(i + 1) == "index":
                                run.ok(rule, "%s: index -> %s(index)" % (b.path, cb.path))
                            else:
                                run.fail(rule, "index-position:%s->%s" % (b.root, cb.root), "the member index is passed to %s in the position of `%s`" % (cb.path, cb.local_name(i + 1)), b.loc(t))
                        elif callee_is(t, *TOTAL_ACCESSORS):
                            run.ok(rule, "%s: index -> total accessor %s" % (b.path, (c.get("path") or "").split("::")[-1]))
                        else:
                            run.fail(rule, "index-use:%s:%s" % (b.root, (c.get("path") or "?")), "the member index is used by %s, which is neither a container function nor a total accessor" % (c.get("rpath") or c.get("path")), b.loc(t))
        # a member function reached from here is always selected by the caller's own index: never by a constant or another value
        for bi, t in b.calls():
            c = t["callee"]
            dp = c.get("rdp") or c.get("dp")
            if dp not in allowed_dp or dp == b.dp:
                continue
            cb = fx.by_dp[dp]
            for i, a in enumerate(t["args"]):
                if cb.local_name(i + 1) != "index":
                    continue
                if a["k"] in ("copy", "move") and a["p"]["l"] in cs:
                    continue
                run.fail(rule, "index-other:%s->%s" % (b.root, cb.root), "%s selects a member of the collection with %s instead of its own `index`: the result mixes two members" % (
                    b.path, ("the constant %s" % a.get("val")) if a["k"] == "const" else "another value"), b.loc(t))
        if uses == 0:
            # a container function that ignores its index is only acceptable for non-collections; FontData::table_provider's WOFF arm and
            # OpenTypeData::Single do so inside functions that also use it, so a function with no use at all is a lost check
            run.fail(rule, "index-unused:%s" % b.root, "%s never uses its member index" % b.path, "%s:%s" % (b.file, b.line))
        n += uses
    if floors:
        run.floor(rule, "uses of a member index", n, 9)


def t10_find(run, fx, floors):
    rule = "T10-FIND"
    run.rule(rule, "each finder selects by `record.tag == tag` inside Iterator::find; its closure family contains no ordering comparison, binary "
                   "search or sort, and the finder returns the result of the search")
    for rx, field in FINDERS:
        bs = one(fx, rx)
        if len(bs) != 1:
            run.anchor_missing(rule, rx)
            continue
        b = bs[0]
        fam = fx.family(b)
        finds = 0
        bad = []
        eqs = 0
        for fb in fam:
            prov = sym.Prov(fb)
            for bi, t in fb.calls():
                p = (t["callee"].get("path") or "")
                if p == "std::iter::Iterator::find":
                    finds += 1
                if re.search(r"binary_search|partition_point|::sort|::cmp$|PartialOrd::(lt|le|gt|ge|partial_cmp)|Iterator::(position|rposition|min|max)", p):
                    bad.append("%s in %s" % (p.split("::")[-1], fb.path))
            for bi, blk in enumerate(fb.blocks):
                if not fb.reachable(bi):
                    continue
                for st in blk["s"]:
                    if st["k"] == "assign" and st["rv"]["k"] == "bin":
                        op = st["rv"]["bop"]
                        if op in ("Lt", "Le", "Gt", "Ge", "Cmp"):
                            bad.append("%s comparison in %s" % (op, fb.path))
                        if op in ("Eq", "Ne") and st["rv"].get("aty") == "u32":
                            a, c = sym.strip(prov.op(st["rv"]["a"])), sym.strip(prov.op(st["rv"]["b"]))
                            names = []
                            for x in (a, c):
                                for y in sym.walk(x):
                                    if y[0] == "field" and isinstance(y[2], str):
                                        names.append(y[2])
                            if op == "Eq" and field in names:
                                eqs += 1
                            else:
                                bad.append("%s on u32 not of the form record.%s == tag in %s" % (op, field, fb.path))
        # the finder's result is the search result
        ret = sym.strip(sym.Prov(b).local(0))
        direct = ret[0] == "call" and (ret[4] or "").endswith(("Iterator::find", "Option::<T>::and_then"))
        multi = ret[0] == "local"   # assigned on several arms; each arm is a find/and_then call
        if multi:
            ds = b.defs().get(0, [])
            direct = bool(ds) and all(d[2] == "call" and callee_is(d[3], "std::iter::Iterator::find", "std::option::Option::<T>::and_then") for d in ds)
        if finds == 0:
            bad.append("no Iterator::find")
        if eqs != finds:
            bad.append("%d tag equality test(s) for %d find call(s)" % (eqs, finds))
        if not direct:
            bad.append("the finder does not return the search result directly")
        if bad:
            run.fail(rule, "finder:%s" % b.root, "; ".join(bad), "%s:%s" % (b.file, b.line))
        else:
            run.ok(rule, "%s: %d Iterator::find over record.%s == tag, result returned" % (b.path, finds, field))


SELECTORS = ("find_table_record", "find_table_directory_entry", "find_table_entry", "::contains_key", "::get", "FontTableProvider::has_table",
             "FontTableProvider::table_data")
SIB_EQUIV = {"contains_key": "map", "get": "map", "has_table": "dyn", "table_data": "dyn"}


def terminal_selectors(fx, b, tag_local, depth=0, seen=None):
    """names of the terminal selection callees that receive the tag"""
    seen = seen or set()
    if b.dp in seen or depth > 4:
        return set()
    seen = seen | {b.dp}
    out = set()
    cs = copies_of(b, tag_local)
    for bi, t in b.calls():
        for i, a in enumerate(t["args"]):
            if a["k"] in ("copy", "move") and a["p"]["l"] in cs:
                c = t["callee"]
                p = c.get("path") or ""
                dp = c.get("rdp") or c.get("dp")
                if any(p.endswith(s) for s in SELECTORS):
                    nm = p.split("::")[-1]
                    out.add(SIB_EQUIV.get(nm, nm))
                elif dp in fx.by_dp:
                    out |= terminal_selectors(fx, fx.by_dp[dp], i + 1, depth + 1, seen)
                else:
                    out.add("?" + p)
    return out


def t10_sib(run, fx, floors):
    rule = "T10-SIB"
    run.rule(rule, "for every impl of FontTableProvider, has_table(tag) and table_data(tag) hand the tag to the same terminal selector "
                   "(finder, map lookup or the wrapped provider)")
    impls = {}
    for b in fx.bodies:
        m = re.match(r"^<(.+) as tables::FontTableProvider>::(has_table|table_data)$", b.path)
        if m:
            impls.setdefault(m.group(1), {})[m.group(2)] = b
    n = 0
    for ty, d in sorted(impls.items()):
        if "table_data" not in d:
            continue
        if "has_table" not in d:
            run.ok(rule, "%s: has_table is the trait default" % ty)
            continue
        n += 1
        sel = {}
        for k, b in d.items():
            tl = arg_named(b, "tag")
            sel[k] = terminal_selectors(fx, b, tl) if tl else {"?no tag parameter"}
        if sel["has_table"] == sel["table_data"] and sel["has_table"] and not any(s.startswith("?") for s in sel["has_table"]):
            run.ok(rule, "%s: has_table and table_data both select through %s" % (ty, sorted(sel["has_table"])))
        else:
            run.fail(rule, "sibling:%s" % ty, "has_table selects through %s but table_data through %s" % (sorted(sel["has_table"]), sorted(sel["table_data"])),
                     "%s:%s" % (d["table_data"].file, d["table_data"].line))
    if floors:
        run.floor(rule, "FontTableProvider impls with both methods", n, 4)


def t10_woff(run, fx):
    rule = "T10-WOFF"
    run.rule(rule, "woff::TableDirectoryEntry::is_compressed is `comp_length != orig_length`; read_table reads offset_length(offset, comp_length) "
                   "and inflates exactly under is_compressed()")
    b = fx.body("woff::TableDirectoryEntry::is_compressed")
    if b is None:
        run.anchor_missing(rule, "woff::TableDirectoryEntry::is_compressed")
    else:
        ret = sym.strip(sym.Prov(b).local(0))
        ok = False
        if ret[0] == "bin" and ret[1] == "Ne":
            fs = set()
            for x in (ret[2], ret[3]):
                x = sym.strip(x)
                if x[0] == "field":
                    fs.add(x[2])
            ok = fs == {"comp_length", "orig_length"}
        if ok:
            run.ok(rule, "is_compressed = Ne(self.comp_length, self.orig_length)")
        else:
            run.fail(rule, "woff:is_compressed", "is_compressed is not `self.comp_length != self.orig_length` (%s)" % sym.show(ret)[:80], "%s:%s" % (b.file, b.line))
    b = fx.body("woff::TableDirectoryEntry::read_table")
    if b is None:
        return run.anchor_missing(rule, "woff::TableDirectoryEntry::read_table")
    prov = sym.Prov(b)
    ol = [(bi, t) for bi, t in b.calls() if callee_is(t, "ReadScope::<'a>::offset_length")]
    good = False
    for bi, t in ol:
        fs = []
        for a in t["args"][1:]:
            names = [y[2] for y in sym.walk(sym.strip(prov.op(a))) if y[0] == "field" and isinstance(y[2], str)]
            fs.append(names)
        if len(fs) == 2 and "offset" in fs[0] and "comp_length" in fs[1]:
            good = True
    if good:
        run.ok(rule, "read_table reads scope.offset_length(self.offset, self.comp_length)")
    else:
        run.fail(rule, "woff:read_window", "read_table does not read the window (offset, comp_length)", "%s:%s" % (b.file, b.line))
    # inflate is control dependent on is_compressed(): the ZlibDecoder block is dominated by the true edge of a switch on is_compressed()
    z = [bi for bi, t in b.calls() if "ZlibDecoder" in (t["callee"].get("path") or "") or "read_to_end" in (t["callee"].get("path") or "")]
    sw_ok = False
    raw_ok = False
    for bi, blk in enumerate(b.blocks):
        t = blk["t"]
        if t["k"] == "switch" and b.reachable(bi):
            d = sym.strip(prov.op(t["discr"]))
            if d[0] == "call" and (d[1] or "").endswith("is_compressed"):
                fb = [tg for v, tg in t["arms"] if v == 0]
                tb = t["otherwise"]
                if z and all(b.dominates(tb, x) for x in z) and fb and not (b.reach_from(fb[0]) & set(z)):
                    sw_ok = True
                raw_ok = True
    if sw_ok:
        run.ok(rule, "inflate is reached only on the true edge of is_compressed()")
    else:
        run.fail(rule, "woff:inflate-guard", "the inflate path is not controlled exactly by is_compressed()", "%s:%s" % (b.file, b.line))
    # the whole stream is inflated: read_to_end on the decoder itself, no length-limiting adaptor that would cut the table short silently
    rte = [(bi, t) for bi, t in b.calls() if (t["callee"].get("path") or "").endswith("Read::read_to_end")]
    for bi, t in rte:
        recv = prov.op(t["args"][0])
        lim = [x for x in sym.walk(recv) if x[0] == "call" and (x[4] or x[1] or "").endswith(("Read::take", "::take", "Read::by_ref", "Read::chain"))]
        if lim:
            run.fail(rule, "woff:inflate-limited", "read_table inflates through %s: a table longer than the limit is returned truncated instead of "
                     "whole or as an error" % (lim[0][4] or lim[0][1]).split("::")[-1], b.loc(t))
        else:
            run.ok(rule, "read_table inflates the whole stream (read_to_end on the decoder itself)")


SFNT_MAGICS = {0x00010000: "0x00010000", 0x74727565: "'true'", 0x4F54544F: "'OTTO'"}


def t10_magic(run, fx, floors=True):
    rule = "T10-MAGIC"
    run.rule(rule, "every decision on the sfnt version of a single font (a u32 switch with one of 0x00010000, 'true', 'OTTO' among its arm values) "
                   "lists all three: the bare sfnt reader, the collection member reader, the format sniffing and any container that validates "
                   "its flavor accept the same fonts")
    n = 0
    import guards
    for b in fx.bodies:
        if b.exp:
            continue
        # magic numbers a value is tested against, per tested value: arms of a `match`, or a chain of `==` comparisons
        groups = {}
        prov = None
        for bi, blk in enumerate(b.blocks):
            t = blk["t"]
            if t["k"] != "switch" or not b.reachable(bi):
                continue
            if t.get("dty") == "u32":
                vals = {v for v, _ in t["arms"]}
                if vals & set(SFNT_MAGICS):
                    prov = prov or sym.Prov(b)
                    g = groups.setdefault(sym.norm(sym.strip(prov.op(t["discr"]))), [set(), t])
                    g[0] |= vals
        # `v == MAGIC` comparisons, wherever their result goes (a branch, or a flag tested later)
        eq_groups = {}
        for bi, blk in enumerate(b.blocks):
            if not b.reachable(bi):
                continue
            for st in blk["s"]:
                rv = st.get("rv") or {}
                if st.get("k") == "assign" and rv.get("k") == "bin" and rv.get("bop") in ("Eq", "Ne") and rv.get("aty") == "u32":
                    prov = prov or sym.Prov(b)
                    x, y = sym.strip(prov.op(rv["a"])), sym.strip(prov.op(rv["b"]))
                    for a, c in ((x, y), (y, x)):
                        k = c[1] if c[0] == "c" else ((fx.const(c[1]) or {}).get("val") if c[0] == "uneval" else None)
                        if isinstance(k, int) and not isinstance(k, bool) and k in SFNT_MAGICS:
                            g = eq_groups.setdefault(sym.norm(a), [set(), st])
                            g[0].add(k)
        for key_, (vals, st) in eq_groups.items():
            # 0x00010000 on its own is also a version number (maxp 1.0): a chain of comparisons is a flavour decision when it names
            # 'true' or 'OTTO'
            if vals & {0x74727565, 0x4F54544F}:
                g = groups.setdefault(key_, [set(), st])
                g[0] |= vals
        for key_, (vals, t) in groups.items():
            n += 1
            missing = set(SFNT_MAGICS) - vals
            if missing:
                run.fail(rule, "magic:%s" % b.root, "%s decides on the sfnt version but does not list %s: fonts of that flavour are treated differently here than by "
                         "the other readers" % (b.path, ", ".join(sorted(SFNT_MAGICS[m] for m in missing))), b.loc(t))
            else:
                run.ok(rule, "%s lists 0x00010000, 'true' and 'OTTO'" % b.path)
    if floors:
        run.floor(rule, "sfnt version decisions", n, 3)


def t10_flav(run, fx):
    rule = "T10-FLAV"
    run.rule(rule, "the container kind follows the magic number alone: in OpenTypeFont::read everything built under the 'ttcf' arm is "
                   "OpenTypeData::Collection and everything under the sfnt version arms is OpenTypeData::Single (a collection presented as a bare "
                   "font loses its member bound: an out-of-range member index is no longer an error)")
    bs = [b for b in fx.bodies if b.kind != "Closure" and b.path.startswith("<tables::OpenTypeFont<") and b.path.endswith("ReadBinary>::read")]
    if not bs:
        return run.anchor_missing(rule, "<tables::OpenTypeFont as ReadBinary>::read")
    b = bs[0]
    TTCF = 0x74746366
    sw = None
    for bi in range(len(b.blocks)):
        t = b.term(bi)
        if t["k"] == "switch" and b.reachable(bi) and t.get("dty") == "u32" and any(v == TTCF for v, _ in t["arms"]):
            sw = t
    if sw is None:
        return run.anchor_missing(rule, "match on the magic number in OpenTypeFont::read")
    n = 0
    for val, tgt in sw["arms"]:
        want = "Collection" if val == TTCF else ("Single" if val in SFNT_MAGICS else None)
        if want is None:
            continue
        for bi in range(len(b.blocks)):
            if not (b.reachable(bi) and b.dominates(tgt, bi)):
                continue
            for st in b.stmts(bi):
                rv = st.get("rv") or {}
                if st.get("k") == "assign" and rv.get("k") == "agg" and (rv.get("adt") or "").endswith("OpenTypeData"):
                    n += 1
                    if rv.get("vname") == want:
                        run.ok(rule, "magic %#x -> OpenTypeData::%s" % (val, want))
                    else:
                        run.fail(rule, "flavour:%s" % want, "OpenTypeFont::read builds OpenTypeData::%s under the magic number %#x" % (rv.get("vname"), val), b.loc(st))
    if n < 2:
        run.anchor_missing(rule, "OpenTypeData literals under the magic arms (found %d)" % n)


def t10_tags(run, fx, floors=True):
    """the tags offered are all the tags of the directory"""
    rule = "T10-TAGS"
    run.rule(rule, "FontTableProvider::table_tags lists every table of the font's directory: the list is built from the directory (records, entries, map "
                   "keys) by projection alone - no adaptor that drops or limits elements (filter, filter_map, skip, take, step_by, take_while, skip_while, "
                   "dedup, retain) stands between the directory and the result, in any provider")
    dropping = ("Iterator::filter", "Iterator::filter_map", "Iterator::skip", "Iterator::take", "Iterator::step_by", "Iterator::take_while",
                "Iterator::skip_while", "Iterator::flatten", "::retain", "::dedup", "::truncate", "::pop", "::remove", "::swap_remove", "::drain")
    n = 0
    for b in fx.bodies:
        if b.kind == "Closure" or not re.search(r" as tables::FontTableProvider>::table_tags$", b.path):
            continue
        n += 1
        bad = sorted({(t["callee"].get("path") or "").split("::")[-1] for _, t in b.calls() if (t["callee"].get("path") or "").endswith(dropping)})
        if bad:
            run.fail(rule, "tags-dropped|%s" % b.path.split(" as ")[0].lstrip("<").split("<")[0], "%s builds the tag list through %s: a table of the directory can be "
                     "missing from the tags although has_table and table_data serve it" % (b.path, ", ".join(bad)), "%s:%s" % (b.file, b.line))
        else:
            run.ok(rule, "%s: projection of the directory" % b.path.split(" as ")[0].lstrip("<"))
    if floors:
        run.floor(rule, "table_tags implementations", n, 5)


def check(run, fx, tier, floors=True):
    import speclayout
    speclayout.rule_layouts(run, fx, "T10-LAYOUT", ["container", "woff2"], floors)
    speclayout.rule_records(run, fx, "T10-REC", ['container'], floors)
    t10_idx(run, fx, floors)
    t10_find(run, fx, floors)
    t10_sib(run, fx, floors)
    t10_tags(run, fx, floors)
    t10_woff(run, fx)
    t10_magic(run, fx, floors)
    if floors or any(b.path.startswith("<tables::OpenTypeFont<") for b in fx.bodies):
        t10_flav(run, fx)
    rxs = [re.compile(r) for r in PANIC_SCOPE]
    rules_C01.rule_panics(run, fx, "T10-PAN", lambda b: any(r.search(b.root) for r in rxs), floors, floor_n=0)
