"""Record layouts the OpenType / WOFF2 specifications fix, compared with what the readers consume (layout traces of
layout.reader_items: the fixed-width reads along the success path before the first data-dependent branch).

An oracle row is (what, [item, ...]); an item is (shape, keyword):
  shape    2 / 4 / ...      a value of that many bytes
           "array:<Elem>"   an array whose element type ends with <Elem> ("array" alone: any element)
           "bytes"          a byte range
  keyword  None, or a word the name of the struct field that receives the value must contain (case and underscores
           ignored): the oracle follows the meaning of the field, not its exact spelling, so renaming
           `_required_feature_index` to `required_feature` is not an alarm, storing the third offset in `lsb_mapping` is.
Only as many items as the oracle lists are compared (a reader may go on with data-dependent parts)."""
import re

import layout

LAYOUTS = {
    # ---- OpenType Layout common formats (GSUB/GPOS/GDEF) ----
    "<layout::LayoutTable<T> as binary::read::ReadBinary>::read": (
        "GSUB/GPOS header: majorVersion, minorVersion, scriptListOffset, featureListOffset, lookupListOffset",
        [(2, None), (2, None), (2, None), (2, None), (2, None)]),
    "<layout::GDEFTable as binary::read::ReadBinary>::read": (
        "GDEF header: majorVersion, minorVersion, glyphClassDefOffset, attachListOffset, ligCaretListOffset, markAttachClassDefOffset",
        [(2, None), (2, None), (2, None), (2, None), (2, None), (2, None)]),
    "<layout::LangSys as binary::read::ReadBinary>::read": (
        "LangSys: lookupOrderOffset, requiredFeatureIndex, featureIndexCount, featureIndices[]",
        [(2, None), (2, "required"), (2, "feature"), ("array:U16Be", "feature")]),
    "<layout::FeatureTable as binary::read::ReadBinary>::read": (
        "Feature: featureParamsOffset, lookupIndexCount, lookupListIndices[]",
        [(2, None), (2, "lookup"), ("array:U16Be", "lookup")]),
    "<layout::Lookup<'b, T> as binary::read::ReadBinary>::read": (
        "Lookup: lookupType, lookupFlag, subTableCount, subtableOffsets[]",
        [(2, None), (2, None), (2, None), ("array:U16Be", None)]),
    "<layout::Ligature as binary::read::ReadBinary>::read": (
        "Ligature: ligatureGlyph, componentCount, componentGlyphIDs[]",
        [(2, "ligature"), (2, "component"), ("array:U16Be", "component")]),
    "<layout::SubRule as binary::read::ReadBinary>::read": (
        "SequenceRule: glyphCount, seqLookupCount, inputSequence[], seqLookupRecords[]",
        [(2, "input"), (2, "lookup"), ("array:U16Be", "input"), ("array", "lookup")]),
    "<layout::SubClassRule as binary::read::ReadBinary>::read": (
        "ClassSequenceRule: glyphCount, seqLookupCount, inputSequence[], seqLookupRecords[]",
        [(2, "input"), (2, "lookup"), ("array:U16Be", "input"), ("array", "lookup")]),
    "<layout::ChainSubRule as binary::read::ReadBinary>::read": (
        "ChainedSequenceRule: backtrack count + glyphs, input count + glyphs, lookahead count + glyphs, lookup count + records",
        [(2, "backtrack"), ("array:U16Be", "backtrack"), (2, "input"), ("array:U16Be", "input"), (2, "lookahead"), ("array:U16Be", "lookahead"),
         (2, "lookup"), ("array", "lookup")]),
    "<layout::ChainSubClassRule as binary::read::ReadBinary>::read": (
        "ChainedClassSequenceRule: backtrack, input, lookahead, lookup records",
        [(2, "backtrack"), ("array:U16Be", "backtrack"), (2, "input"), ("array:U16Be", "input"), (2, "lookahead"), ("array:U16Be", "lookahead"),
         (2, "lookup"), ("array", "lookup")]),
    "<layout::PairValueRecord as binary::read::ReadBinaryDep>::read_dep": (
        "PairValueRecord: secondGlyph, valueRecord1, valueRecord2",
        [(2, "second"), (None, "1"), (None, "2")]),
    "<layout::MarkGlyphSets as binary::read::ReadBinary>::read": (
        "MarkGlyphSets: format, markGlyphSetCount, coverageOffsets[] (Offset32)",
        [(2, None), (2, None), ("array:U32Be", None)]),
    "<layout::FeatureVariations<'_> as binary::read::ReadBinary>::read": (
        "FeatureVariations: majorVersion, minorVersion, featureVariationRecordCount (uint32), records[]",
        [(2, None), (2, None), (4, None), ("array", None)]),
    "<layout::FeatureTableSubstitutionTable<'_> as binary::read::ReadBinary>::read": (
        "FeatureTableSubstitution: majorVersion, minorVersion, substitutionCount (uint16), records[]",
        [(2, None), (2, None), (2, None), ("array", None)]),
    "<layout::MultipleSubst as binary::read::ReadBinaryDep>::read_dep": (
        "MultipleSubstFormat1: format, coverageOffset, sequenceCount, sequenceOffsets[]",
        [(2, None), (2, "coverage"), (2, "sequence"), ("array:U16Be", "sequence")]),
    "<layout::AlternateSubst as binary::read::ReadBinaryDep>::read_dep": (
        "AlternateSubstFormat1: format, coverageOffset, alternateSetCount, alternateSetOffsets[]",
        [(2, None), (2, "coverage"), (2, "alternate"), ("array:U16Be", "alternate")]),
    "<layout::LigatureSubst as binary::read::ReadBinaryDep>::read_dep": (
        "LigatureSubstFormat1: format, coverageOffset, ligatureSetCount, ligatureSetOffsets[]",
        [(2, None), (2, "coverage"), (2, "ligature"), ("array:U16Be", "ligature")]),
    "<layout::ReverseChainSingleSubst as binary::read::ReadBinaryDep>::read_dep": (
        "ReverseChainSingleSubstFormat1: format, coverageOffset, backtrack count + offsets, lookahead count + offsets, glyph count + substitutes",
        [(2, None), (2, "coverage"), (2, "backtrack"), ("array:U16Be", "backtrack"), (2, "lookahead"), ("array:U16Be", "lookahead"),
         (2, "substitute"), ("array:U16Be", "substitute")]),
    "<layout::ExtensionSubst<'b, T> as binary::read::ReadBinary>::read": (
        "Extension format 1: format, extensionLookupType, extensionOffset (Offset32)",
        [(2, None), (2, "type"), (4, "offset")]),
    "<layout::CursivePos as binary::read::ReadBinaryDep>::read_dep": (
        "CursivePosFormat1: format, coverageOffset, entryExitCount, entryExitRecords[]",
        [(2, None), (2, "coverage"), (2, "entryexit"), ("array", "entryexit")]),
    "<layout::MarkBasePos as binary::read::ReadBinaryDep>::read_dep": (
        "MarkBasePosFormat1: format, markCoverageOffset, baseCoverageOffset, markClassCount, markArrayOffset, baseArrayOffset",
        [(2, None), (2, "markcoverage"), (2, "basecoverage"), (2, "classcount"), (2, "markarray"), (2, "basearray")]),
    "<layout::MarkLigPos as binary::read::ReadBinaryDep>::read_dep": (
        "MarkLigPosFormat1: format, markCoverageOffset, ligatureCoverageOffset, markClassCount, markArrayOffset, ligatureArrayOffset",
        [(2, None), (2, "markcoverage"), (2, "ligacoverage"), (2, "classcount"), (2, "markarray"), (2, "ligaturearray")]),
    "<layout::Anchor as binary::read::ReadBinary>::read": (
        "Anchor: format, xCoordinate, yCoordinate",
        [(2, None), (2, "x"), (2, "y")]),
    # ---- containers ----
    "<tables::OffsetTable<'b> as binary::read::ReadBinary>::read": (
        "sfnt offset table: sfntVersion, numTables, searchRange, entrySelector, rangeShift, tableRecords[]",
        [(4, "version"), (2, None), (2, "searchrange"), (2, "entryselector"), (2, "rangeshift"), ("array:TableRecord", "records")]),
    "<woff::WoffHeader as binary::read::ReadBinary>::read": (
        "WOFF header: signature, flavor, length, numTables, reserved, totalSfntSize, majorVersion, minorVersion, metaOffset, metaLength, "
        "metaOrigLength, privOffset, privLength",
        [(4, None), (4, "flavor"), (4, "length"), (2, "numtables"), (2, None), (4, "totalsfnt"), (2, "major"), (2, "minor"), (4, "metaoffset"), (4, "metalength"),
         (4, "metaoriglength"), (4, "privoffset"), (4, "privlength")]),
    "<woff2::Woff2Header as binary::read::ReadBinary>::read": (
        "WOFF2 header: signature, flavor, length, numTables, reserved, totalSfntSize, totalCompressedSize, majorVersion, minorVersion, metaOffset, "
        "metaLength, metaOrigLength, privOffset, privLength",
        [(4, None), (4, "flavor"), (4, "length"), (2, "numtables"), (2, None), (4, "totalsfnt"), (4, "totalcompressed"), (2, "major"), (2, "minor"),
         (4, "metaoffset"), (4, "metalength"), (4, "metaoriglength"), (4, "privoffset"), (4, "privlength")]),
    "<woff2::collection::Directory as binary::read::ReadBinary>::read": (
        "WOFF2 CollectionHeader: version (UInt32), numFonts (255UInt16)",
        [(4, "version"), ("type:PackedU16", None)]),
    "<woff2::collection::FontEntry as binary::read::ReadBinary>::read": (
        "WOFF2 CollectionFontEntry: numTables (255UInt16), flavor (UInt32)",
        [("type:PackedU16", None), (4, "flavor")]),
    # ---- CFF ----
    "<cff::Header as binary::read::ReadBinary>::read": (
        "CFF header: major, minor, hdrSize, offSize (Card8 each)",
        [(1, "major"), (1, "minor"), (1, "size"), (1, "offsize")]),
    "<cff::cff2::Header as binary::read::ReadBinary>::read": (
        "CFF2 header: majorVersion, minorVersion, headerSize (uint8 each), topDictLength (uint16)",
        [(1, "major"), (1, "minor"), (1, "size"), (2, "topdict")]),
    # ---- sfnt tables that are also written (a swap made in reader and writer alike passes the reader/writer comparison) ----
    "<tables::HeadTable as binary::read::ReadBinary>::read": (
        "head: majorVersion, minorVersion, fontRevision, checksumAdjustment, magicNumber, flags, unitsPerEm, created, modified, xMin, yMin, xMax, "
        "yMax, macStyle, lowestRecPPEM, fontDirectionHint, indexToLocFormat, glyphDataFormat",
        [(2, "major"), (2, "minor"), (4, "revision"), (4, "checksum"), (4, "magic"), (2, "flags"), (2, "unitsperem"), (8, "created"), (8, "modified"),
         (2, "xmin"), (2, "ymin"), (2, "xmax"), (2, "ymax"), (2, "macstyle"), (2, "lowestrec"), (2, "direction"), (None, "loc"), (2, "glyphdata")]),
    "<tables::HheaTable as binary::read::ReadBinary>::read": (
        "hhea: majorVersion, minorVersion, ascender, descender, lineGap, advanceWidthMax, minLeftSideBearing, minRightSideBearing, xMaxExtent, "
        "caretSlopeRise, caretSlopeRun, caretOffset, 4 reserved, metricDataFormat, numberOfHMetrics",
        [(2, None), (2, None), (2, "ascender"), (2, "descender"), (2, "linegap"), (2, "advancewidthmax"), (2, "minleft"), (2, "minright"), (2, "xmaxextent"),
         (2, "sloperise"), (2, "sloperun"), (2, "caretoffset"), (2, None), (2, None), (2, None), (2, None), (2, None), (2, "hmetrics")]),
    "<tables::MaxpVersion1SubTable as binary::read::ReadBinary>::read": (
        "maxp 1.0: maxPoints, maxContours, maxCompositePoints, maxCompositeContours, maxZones, maxTwilightPoints, maxStorage, maxFunctionDefs, "
        "maxInstructionDefs, maxStackElements, maxSizeOfInstructions, maxComponentElements, maxComponentDepth",
        [(2, "maxpoints"), (2, "maxcontours"), (2, "compositepoints"), (2, "compositecontours"), (2, "zones"), (2, "twilight"), (2, "storage"), (2, "functiondefs"),
         (2, "instructiondefs"), (2, "stackelements"), (2, "sizeofinstructions"), (2, "componentelements"), (2, "componentdepth")]),
    "<post::Header as binary::read::ReadBinary>::read": (
        "post header: version, italicAngle, underlinePosition, underlineThickness, isFixedPitch, minMemType42, maxMemType42, minMemType1, maxMemType1",
        [(4, "version"), (4, "italic"), (2, "underlineposition"), (2, "underlinethickness"), (4, "fixedpitch"), (4, "minmemtype42"), (4, "maxmemtype42"),
         (4, "minmemtype1"), (4, "maxmemtype1")]),
    "<tables::os2::Os2 as binary::read::ReadBinaryDep>::read_dep": (
        "OS/2 version 0 part: version, xAvgCharWidth, usWeightClass, usWidthClass, fsType, ten subscript/superscript/strikeout values, sFamilyClass, "
        "panose[10], ulUnicodeRange1-4, achVendID, fsSelection, usFirstCharIndex, usLastCharIndex",
        [(2, None), (2, None), (2, None), (2, None), (2, None)] + [(2, None)] * 11 + [("bytes", None)] + [(4, None)] * 5 + [(2, None), (2, None), (2, None)]),
    # ---- cmap ----
    "<tables::cmap::Cmap<'b> as binary::read::ReadBinary>::read": (
        "cmap header: version, numTables, encodingRecords[]",
        [(2, None), (2, None), ("array:EncodingRecord", None)]),
    # ---- WOFF2 transformed glyf ----
    "<woff2::TransformedGlyphTable<'b> as binary::read::ReadBinary>::read": (
        "transformed glyf: reserved+optionFlags, numGlyphs, indexFormat, the seven stream sizes nContour, nPoints, flag, glyph, composite, bbox, "
        "instruction, then the streams in the same order (bboxBitmap before bboxStream)",
        [(4, "!const"), (2, "glyphs"), (2, "format"), (4, "contour"), (4, "points"), (4, "flag"), (4, "glyph"), (4, "composite"), (4, "bbox"), (4, "instruction"),
         ("bytes", "contour"), ("bytes", "points"), ("bytes", "flag"), ("bytes", "glyph"), ("bytes", "composite"), ("bytes", "bitmap"), ("bytes", "bbox"),
         ("bytes", "instruction")]),
    # ---- kern ----
    "<tables::kern::ClassTable<'_> as binary::read::ReadBinary>::read": (
        "kern format 2 class table: firstGlyph, nGlyphs, classes[]",
        [(2, "first"), (2, None), ("array:U16Be", None)]),
}


# Readers that dispatch on a format number read first: (what, {format: items after the format field})
ARMS = {
    "<layout::Coverage as binary::read::ReadBinary>::read": ("Coverage", {
        1: [(2, "glyph"), ("array:U16Be", "glyph")],
        2: [(2, None), ("array:CoverageRangeRecord", None)]}),
    "<layout::ClassDef as binary::read::ReadBinary>::read": ("ClassDef", {
        1: [(2, "start"), (2, "class"), ("array:U16Be", "class")],
        2: [(2, "range"), ("array:ClassRangeRecord", "range")]}),
    "<layout::SingleSubst as binary::read::ReadBinaryDep>::read_dep": ("SingleSubst", {
        1: [(2, "coverage"), (2, "delta")],
        2: [(2, "coverage"), (2, "substitute"), ("array:U16Be", "substitute")]}),
    "<layout::SinglePos as binary::read::ReadBinaryDep>::read_dep": ("SinglePos", {
        1: [(2, "coverage"), ("type:ValueFormat", None), (None, "value")],
        2: [(2, "coverage"), ("type:ValueFormat", None), (2, "value"), ("array", "value")]}),
    "<layout::PairPos as binary::read::ReadBinaryDep>::read_dep": ("PairPos", {
        1: [(2, "coverage"), ("type:ValueFormat", None), ("type:ValueFormat", None), (2, "pairset"), ("array:U16Be", "pairset")],
        2: [(2, "coverage"), ("type:ValueFormat", None), ("type:ValueFormat", None), (2, "classdef1"), (2, "classdef2"), (2, "class1"), (2, "class2"),
            ("array", "class1")]}),
    "<layout::ContextLookup<T> as binary::read::ReadBinaryDep>::read_dep": ("SequenceContext", {
        1: [(2, "coverage"), (2, "ruleset"), ("array:U16Be", "ruleset")],
        2: [(2, "coverage"), (2, "classdef"), (2, "classset"), ("array:U16Be", "classset")],
        3: [(2, "coverage"), (2, "lookup"), ("array:U16Be", "coverage"), ("array", "lookup")]}),
    "<layout::ChainContextLookup<T> as binary::read::ReadBinaryDep>::read_dep": ("ChainedSequenceContext", {
        1: [(2, "coverage"), (2, "ruleset"), ("array:U16Be", "ruleset")],
        2: [(2, "coverage"), (2, "backtrack"), (2, "input"), (2, "lookahead"), (2, "classset"), ("array:U16Be", "classset")],
        3: [(2, "backtrack"), ("array:U16Be", "backtrack"), (2, "input"), ("array:U16Be", "input"), (2, "lookahead"), ("array:U16Be", "lookahead"),
            (2, "lookup"), ("array", "lookup")]}),
}
ARMS["<tables::cmap::CmapSubtable<'b> as binary::read::ReadBinary>::read"] = ("cmap subtable", {
    0: [(2, None), (2, "language"), ("array:U8", "glyph")],
    2: [(2, None), (2, "language"), ("array:U16Be", "key"), ("array:SubHeader", "header")],
    4: [(2, None), (2, "language"), (2, None), (2, None), (2, None), (2, None), ("array:U16Be", "end"), (2, None), ("array:U16Be", "start"),
        ("array:I16Be", "delta"), ("array:U16Be", "rangeoffset"), ("array:U16Be", "glyph")],
    6: [(2, None), (2, "language"), (2, "first"), (2, None), ("array:U16Be", "glyph")],
    10: [(2, None), (4, None), (4, "language"), (4, "start"), (4, None), ("array:U16Be", "glyph")],
    12: [(2, None), (4, None), (4, "language"), (4, "group"), ("array:SequentialMapGroup", "group")]})
ARM_GROUPS = {"layout": [p for p in ARMS if p.startswith("<layout::")], "cmap": [p for p in ARMS if "cmap::" in p]}
LAYOUTS["<tables::kern::KernTable<'_> as binary::read::ReadBinary>::read"] = ("kern header: version, nTables", [(2, None), (2, "count")])
LAYOUTS["tables::kern::KernTable::<'a>::read_format0"] = (
    "kern format 0: nPairs, searchRange, entrySelector, rangeShift, pairs[]", [(2, "pair"), (2, None), (2, None), (2, None), ("array:KernPair", "pair")])
LAYOUTS["tables::kern::KernTable::<'a>::read_format2"] = (
    "kern format 2: rowWidth, leftClassOffset, rightClassOffset, kerningArrayOffset", [(2, None), (2, "left"), (2, "right"), (2, "array")])

GROUPS = {
    "layout": [p for p in LAYOUTS if p.startswith("<layout::")],
    "cmap": [p for p in LAYOUTS if "cmap::" in p],
    "woff2": [p for p in LAYOUTS if p.startswith("<woff2::")],
    "container": [p for p in LAYOUTS if p.startswith(("<tables::OffsetTable", "<woff::WoffHeader"))],
    "cff": [p for p in LAYOUTS if p.startswith("<cff::")],
    "sfnt": [p for p in LAYOUTS if p.startswith(("<tables::HeadTable", "<tables::HheaTable", "<tables::MaxpVersion1SubTable", "<post::Header", "<tables::os2::Os2"))],
    "kern": [p for p in LAYOUTS if "kern::" in p],
}


def _nolife(p):
    p = re.sub(r"<'\w+>", "", p)
    p = re.sub(r"'\w+, ", "", p)
    return p


def _norm(s):
    return (s or "").replace("_", "").lower()


def compare_items(spec, items, why):
    probs = []
    if len(items) < len(spec):
        probs.append("only %d reads before %s, the specification lists %d items" % (len(items), why, len(spec)))
    for k, ((shape, kw), it) in enumerate(zip(spec, items)):
        if isinstance(shape, int):
            if it.kind not in ("prim", "type") or it.width != shape:
                probs.append("item %d is %s (%s bytes), the specification has a %d-byte value" % (k, it.show(), it.width, shape))
                continue
        elif isinstance(shape, str) and shape.startswith("array"):
            elem = shape.partition(":")[2]
            if it.kind != "array" or (elem and not (it.ty or "").rstrip(")").endswith(elem)):
                probs.append("item %d is %s, the specification has an array%s" % (k, it.show(), " of " + elem if elem else ""))
                continue
        elif isinstance(shape, str) and shape.startswith("type:"):
            if it.kind != "type" or not (it.ty or "").endswith(shape[5:]):
                probs.append("item %d is %s, the specification has a %s" % (k, it.show(), shape[5:]))
                continue
        elif shape == "bytes":
            if it.kind != "bytes":
                probs.append("item %d is %s, the specification has a byte range" % (k, it.show()))
                continue
        if kw == "!const":
            # reserved bits / option flags: conforming files set them, the reader must not require a value
            if it.const is not None:
                probs.append("item %d is required to equal %s; the specification leaves its value to the encoder (reserved / option flags)" % (k, it.const))
            continue
        if kw and it.field and _norm(kw) not in _norm(it.field):
            probs.append("item %d ends up in `%s`; by the specification it is the %s item" % (k, it.field, kw))
    return probs


def rule_layouts(run, fx, rule, groups, floors=True):
    paths = [p for g in groups for p in GROUPS[g]]
    run.rule(rule, "the readers consume the records the specification lays out: for %d record types (%s) the fixed-width reads before the first "
                   "data-dependent branch have the specified widths and order, and where a value is kept in a struct field the field's name carries the "
                   "meaning of the specified item (a count stored as the glyph, two offsets or streams swapped, a 16-bit count read as 32 bits all "
                   "shift or mislabel what follows)" % (len(paths), ", ".join(groups)))
    n = 0
    # a lifetime parameter gained or lost by the record type does not change which record it is
    by_norm = {}
    for cand in fx.bodies:
        if cand.kind != "Closure" and ((cand.path.startswith("<") and "binary::read::Read" in cand.path) or cand.path in LAYOUTS):
            by_norm.setdefault(_nolife(cand.path), []).append(cand)
    for path in sorted(paths):
        what, spec = LAYOUTS[path]
        cands = by_norm.get(_nolife(path), [])
        b = cands[0] if len(cands) == 1 else None
        if b is None:
            if floors:
                run.anchor_missing(rule, path)
            continue
        items, why = layout.reader_items(fx, b, through_checks=True)
        items = [it for it in items if it.kind != "opaque"]
        n += 1
        probs = compare_items(spec, items, why)
        short = what.split(":")[0]
        if probs:
            run.fail(rule, "layout:%s" % short, "%s - %s: %s" % (what, path, "; ".join(probs)), "%s:%s" % (b.file, b.line))
        else:
            run.ok(rule, "%s: %s" % (short, " | ".join(it.show() for it in items[:len(spec)])))
    for path in sorted(p for g in groups for p in ARM_GROUPS.get(g, [])):
        what, table = ARMS[path]
        cands = by_norm.get(_nolife(path), [])
        b = cands[0] if len(cands) == 1 else None
        if b is None:
            if floors:
                run.anchor_missing(rule, path)
            continue
        head, why = layout.reader_items(fx, b, through_checks=True)
        m = re.search(r"branch at bb(\d+)", why)
        ra = layout.reader_arms(b, int(m.group(1)), head) if m else None
        if len(head) != 1 or head[0].width != 2 or ra is None or ra[0] != 0:
            run.fail(rule, "layout:%s" % what, "%s does not dispatch on a 16-bit format number read first (%s)" % (path, why), "%s:%s" % (b.file, b.line))
            continue
        n += 1
        _, arms_, _other = ra
        # format numbers name distinct encodings: two of them on one arm read one format as the other (cmap 13 has the byte layout of
        # 12 and another meaning; a layout comparison alone cannot object)
        by_target = {}
        for fmt, tgt in arms_.items():
            by_target.setdefault(tgt, []).append(fmt)
        for tgt, fmts in sorted(by_target.items()):
            if len(fmts) > 1 and not layout.error_exit(b, tgt):
                run.fail(rule, "layout:%s:shared-arm:%s" % (what, "+".join(str(f) for f in sorted(fmts))),
                         "%s reads the formats %s with one arm: the specification defines them as different encodings (%s)"
                         % (path, " and ".join(str(f) for f in sorted(fmts)), what), "%s:%s" % (b.file, b.line))
        for fmt, spec in sorted(table.items()):
            if fmt not in arms_:
                run.fail(rule, "layout:%s:format%d" % (what, fmt), "%s has no arm for format %d" % (path, fmt), "%s:%s" % (b.file, b.line))
                continue
            items, why2 = layout.reader_items(fx, b, start=arms_[fmt], through_checks=True)
            items = [it for it in items if it.kind != "opaque"]
            probs = compare_items(spec, items, why2)
            if probs:
                run.fail(rule, "layout:%s:format%d" % (what, fmt), "%s format %d - %s: %s" % (what, fmt, path, "; ".join(probs)), "%s:%s" % (b.file, b.line))
            else:
                run.ok(rule, "%s format %d: %s" % (what, fmt, " | ".join(it.show() for it in items[:len(spec)])))
    return n


# Fixed-size records read through ReadFrom (a tuple of primitives converted to a struct): type -> (group, [(bytes, keyword)])
RECORDS = {
    "tables::TableRecord": ("container", [(4, "tag"), (4, "checksum"), (4, "offset"), (4, "length")]),
    "woff::TableDirectoryEntry": ("container", [(4, "tag"), (4, "offset"), (4, "complength"), (4, "origlength"), (4, "origchecksum")]),
    "tables::cmap::EncodingRecord": ("cmap", [(2, None), (2, None), (4, "offset")]),
    "tables::cmap::SequentialMapGroup": ("cmap", [(4, "startchar"), (4, "endchar"), (4, "startglyph")]),
    "tables::cmap::SubHeader": ("cmap", [(2, "first"), (2, "count"), (2, "delta"), (2, "rangeoffset")]),
    "layout::CoverageRangeRecord": ("layout", [(2, "start"), (2, "end"), (2, "coverageindex")]),
    "layout::ClassRangeRecord": ("layout", [(2, "start"), (2, "end"), (2, "class")]),
    "layout::FeatureVariationRecord": ("layout", [(4, "condition"), (4, "substitution")]),
    "layout::FeatureTableSubstitutionRecord": ("layout", [(2, "index"), (4, "offset")]),
    "layout::ConditionFormat1": ("layout", [(2, "axis"), (2, "min"), (2, "max")]),
    "tables::kern::KernPair": ("kern", [(2, "left"), (2, "right"), (2, "value")]),
    "tables::variable_fonts::fvar::VariationAxisRecord": ("variations", [(4, "tag"), (4, "min"), (4, "default"), (4, "max"), (2, "flags"), (2, "name")]),
    "tables::variable_fonts::RegionAxisCoordinates": ("variations", [(2, "start"), (2, "peak"), (2, "end")]),
    "tables::variable_fonts::avar::AxisValueMap": ("variations", [(2, "from"), (2, "to")]),
    "tables::variable_fonts::mvar::ValueRecord": ("variations", [(4, "tag"), (2, "outer"), (2, "inner")]),
    "tables::variable_fonts::stat::AxisRecord": ("variations", [(4, "tag"), (2, "name"), (2, "ordering")]),
    "tables::NameRecord": ("sfnt", [(2, "platform"), (2, "encoding"), (2, "language"), (2, "nameid"), (2, "length"), (2, "offset")]),
    "tables::LangTagRecord": ("sfnt", [(2, "length"), (2, "offset")]),
    "tables::LongHorMetric": ("sfnt", [(2, "advance"), (2, "lsb")]),
    "tables::glyf::BoundingBox": ("sfnt", [(2, "xmin"), (2, "ymin"), (2, "xmax"), (2, "ymax")]),
}
HOST_WIDTH = {"u8": 1, "i8": 1, "u16": 2, "i16": 2, "u32": 4, "i32": 4, "u64": 8, "i64": 8, "tables::F2Dot14": 2, "tables::Fixed": 4, "F2Dot14": 2, "Fixed": 4}


def rule_records(run, fx, rule, groups, floors=True):
    run.rule(rule, "fixed-size records (%s): the tuple a ReadFrom impl receives has the specification's item widths in order and each item lands in "
                   "the struct field that carries its meaning (`(start, end, class)` destructured as `(end, start, class)` swaps two glyph ids of "
                   "every range)" % ", ".join(groups))
    n = 0
    for ty, (group, spec) in sorted(RECORDS.items()):
        if group not in groups:
            continue
        b = fx.body("<%s as binary::read::ReadFrom>::read_from" % ty)
        if b is None:
            if floors:
                run.anchor_missing(rule, "<%s as ReadFrom>::read_from" % ty)
            continue
        n += 1
        items, _ = layout.readfrom_items(fx, b, b.local_ty(1))
        probs = []
        if len(items) != len(spec):
            probs.append("%d items, the specification has %d" % (len(items), len(spec)))
        for k, ((w, kw), it) in enumerate(zip(spec, items)):
            got = HOST_WIDTH.get(it.ty) or HOST_WIDTH.get((it.ty or "").split("::")[-1])
            if got != w:
                probs.append("item %d is %s (%s bytes), the specification has %d bytes" % (k, it.ty, got, w))
            elif kw and it.field and not it.field.isdigit() and _norm(kw) not in _norm(it.field):
                probs.append("item %d ends up in `%s`; by the specification it is the %s item" % (k, it.field, kw))
        short = ty.split("::")[-1]
        if probs:
            run.fail(rule, "record:%s" % short, "%s: %s" % (ty, "; ".join(probs)), "%s:%s" % (b.file, b.line))
        else:
            run.ok(rule, "%s: %s" % (short, " | ".join(it.show() for it in items)))
    return n
