"""C15 — reading is the inverse of writing: the structural clauses.

C15-a  primitive codecs: bytes written by each primitive WriteBinary impl == SIZE of its reader
C15-b  record layout agreement: for every type with a reader and a writer, the sequences of items along the
       success path agree in width, field and constants (prefix up to the first data-dependent branch)
C15-c  no silent truncation in writers: integer narrowings reachable from writers are checked, bounded or audited
C15-f  CFF INDEX offSize is chosen by the spec thresholds from the largest offset
C15-e  offsets written into placeholders are relative (bytes_written() - start)
C15-d  placeholders are filled: a Placeholder obtained from the context is consumed on every Ok path
"""
import re

import guards

import layout
import narrowing
import reach
import sym
from facts import callee_is, op_local

LEVEL = "other"
EXPLANATION = (
    "Decides necessary structural conditions of round-tripping. (C15-a) every primitive codec writes exactly as many bytes as its reader's SIZE. "
    "(C15-b) for each of the types that have both a reader (ReadFrom/ReadBinary/ReadBinaryDep) and a writer (WriteBinary/WriteBinaryDep), the "
    "reader's and the writer's layout traces are extracted from MIR along the success path — the ordered fixed-width items with the struct field "
    "each one is stored in or taken from, placeholders and constants included — and compared position by position: a width mismatch, two fields "
    "swapped, a dropped or added item, or a constant the reader rejects is a violation for every value of the type. Traces are compared up to the "
    "first data-dependent branch and the evidence says how far. (C15-c) every integer narrowing in code reachable from a writer is a checked "
    "conversion, bounded by the provenance of its operand, or an audited site. (C15-d) every Placeholder is moved into write_placeholder*, "
    "returned or stored on every path that reaches an Ok exit, so no length/offset field is left zero."
)
NOT_DECIDED = (
    "equality of parsed and written values as such; data-dependent layouts beyond the compared prefix (CFF DICT/INDEX, glyf flags, cmap "
    "sub-table bodies, offsets computed from positions); the writer's declared normalisations."
)
ASSUMPTIONS = ["to_be_bytes yields big-endian bytes of the integer's width (std contract)"]

PRIMS = ("binary::U8", "binary::I8", "binary::U16Be", "binary::I16Be", "binary::U24Be", "binary::U32Be", "binary::I32Be", "binary::I64Be")
SKIP_TYPES = {"T": "blanket impl"}
# leading items of the writer that the type's own reader does not consume because the *parent* reader already did
# (one line of reason each); the comparison starts after them
WRITER_PREFIX = {
    "tables::glyf::SimpleGlyph": (1, "numberOfContours is read by Glyph::read and passed to SimpleGlyph::read_dep as its argument"),
    "tables::glyf::CompositeGlyph": (1, "numberOfContours (-1) is read by Glyph::read before CompositeGlyph::read"),
}


def c15_a(run, fx):
    rule = "C15-a"
    run.rule(rule, "each primitive WriteBinary impl writes to_be_bytes() of an integer whose width (or, for U24Be, constant sub-range) equals the "
                   "evaluated <X as ReadUnchecked>::SIZE")
    sizes = layout.size_table(fx)
    for ty in PRIMS:
        bs = [b for b in fx.bodies if b.path.startswith("<%s as binary::write::WriteBinary<T>>::write" % ty) and b.kind != "Closure"]
        if len(bs) != 1:
            run.anchor_missing(rule, "WriteBinary impl of %s" % ty)
            continue
        b = bs[0]
        prov = sym.Prov(b)
        n = None
        for bi, t in b.calls():
            if callee_is(t, "WriteContext::write_bytes"):
                a = prov.op(t["args"][1])
                # &x.to_be_bytes()  or  &x.to_be_bytes()[1..4]
                arr = None
                rng = None
                for x in sym.walk(a):
                    if x[0] == "call" and (x[1] or "").endswith("::to_be_bytes"):
                        m = re.search(r"\[u8; (\d+)\]", x[5] or "")
                        if m:
                            arr = int(m.group(1))
                    if x[0] == "agg" and x[4] and "start" in x[4] and "end" in x[4]:
                        f = dict(zip(x[4], x[3]))
                        s0, e0 = sym.strip(f["start"]), sym.strip(f["end"])
                        if s0[0] == "c" and e0[0] == "c":
                            rng = (s0[1], e0[1])
                if arr is None:
                    for x in sym.walk(a):
                        if x[0] == "agg" and x[1] == "array":
                            arr = len(x[3])
                if arr is not None:
                    n = (rng[1] - rng[0]) if rng else arr
                    if rng and rng[1] != arr:
                        n = None  # not the low-order bytes
        want = sizes.get(ty)
        if n is not None and want == n:
            run.ok(rule, "%s: writes %d byte(s) = SIZE" % (ty, n))
        else:
            run.fail(rule, "codec:%s" % ty, "%s writes %s byte(s) but its reader consumes %s" % (ty, n, want), "%s:%s" % (b.file, b.line))


def reader_writer_pairs(fx):
    rd, wr = {}, {}
    for i in fx.tables["impls"]:
        tr = i.get("trait") or ""
        st = re.sub(r"<.*$", "", i.get("self") or "")
        if not st:
            continue
        for it in i.get("items", []):
            if it["kind"] != "Fn":
                continue
            if re.search(r"binary::read::(ReadBinary|ReadBinaryDep|ReadFrom)$", tr) and it["name"] in ("read", "read_dep", "read_from"):
                rd.setdefault(st, []).append((it["dp"], it["name"], i))
            if re.search(r"binary::write::(WriteBinary|WriteBinaryDep)$", tr) and it["name"] in ("write", "write_dep"):
                wr.setdefault(st, []).append((it["dp"], it["name"], i))
    return rd, wr


def assoc_type(fx, impl, name):
    for a in impl.get("assoc", []) or []:
        if a.get("name") == name:
            return a.get("ty")
    return None


def c15_b(run, fx, floors):
    rule = "C15-b"
    run.rule(rule, "reader and writer of the same type agree, item by item along the success path, on width, on the field an item belongs to, on "
                   "constants, and (when both sides are straight-line) on the number of items")
    rd, wr = reader_writer_pairs(fx)
    both = sorted(set(rd) & set(wr))
    compared = 0
    npos = 0
    notes = []
    for ty in both:
        if ty in SKIP_TYPES:
            continue
        # pair every reader impl with every writer impl of the same self type whose generic arity matches (cff::Range has three)
        rlist, wlist = rd[ty], wr[ty]
        for k, (rdp, rname, rimpl) in enumerate(rlist):
            rb = fx.by_dp.get(rdp)
            if rb is None:
                continue
            wsel = wlist[k] if len(wlist) == len(rlist) else wlist[0]
            wb = fx.by_dp.get(wsel[0])
            if wb is None:
                continue
            if rname == "read_from":
                rt = rb.local_ty(1)
                ritems, rwhy = layout.readfrom_items(fx, rb, rt)
            else:
                ritems, rwhy = layout.reader_items(fx, rb, ty)
            witems, wwhy = layout.writer_items(fx, wb)
            if ty in WRITER_PREFIX:
                witems = witems[WRITER_PREFIX[ty][0]:]
            tagged = compare_tagged(run, fx, rule, ty, rb, wb, ritems, rwhy, witems, wwhy)
            if tagged is not None:
                compared += 1
                npos += tagged
                continue
            if not ritems or not witems:
                notes.append("%s: not compared (reader %d item(s), writer %d item(s) before %s / %s)" % (ty, len(ritems), len(witems), rwhy, wwhy))
                continue
            diffs, n, complete = layout.compare(ritems, rwhy, witems, wwhy)
            compared += 1
            npos += n
            if diffs:
                for pos, msg in diffs:
                    run.fail(rule, "layout:%s:%d" % (ty, pos), "%s, position %d: %s  [reader: %s | writer: %s]" % (
                        ty, pos, msg, " ".join(x.show() for x in ritems[:n + 2]), " ".join(x.show() for x in witems[:n + 2])), "%s:%s" % (wb.file, wb.line), ledger="layout")
            else:
                run.ok(rule, "%s: %d position(s) agree%s [%s]" % (ty, n, " (complete)" if complete else " (prefix; reader stops at %s, writer at %s)" % (rwhy.split(" (")[0], wwhy.split(" (")[0]),
                                                                     " ".join(x.show() for x in witems[:8])))
    run.analysed["layout_pairs_compared"] = compared
    run.analysed["layout_positions_compared"] = npos
    run.analysed["layout_not_compared"] = notes
    if floors:
        run.floor(rule, "reader/writer pairs compared", compared, 25)
        run.floor(rule, "layout positions compared", npos, 120)


def compare_tagged(run, fx, rule, ty, rb, wb, ritems, rwhy, witems, wwhy):
    """tagged codecs: the reader reads a tag and switches on it, the writer switches on its value's
    variant and writes the tag constant in each arm. Arms are paired by the tag constant and compared
    separately. Returns the number of positions compared, or None when the pair is not of this shape."""
    rbb, wbb = layout.branch_block(rwhy), layout.branch_block(wwhy)
    if rbb is None or wbb is None:
        return None
    ra = layout.reader_arms(rb, rbb, ritems)
    if ra is None:
        return None
    k, arms, other = ra
    if len(witems) > k:
        return None     # the writer emitted the tag before branching: plain prefix comparison applies
    total = 0
    paired = 0
    seen_tags = set()
    for wstart in layout.writer_arms(wb, wbb):
        wi, ww = layout.writer_items(fx, wb, wstart)
        wfull = witems + wi
        if len(wfull) <= k or wfull[k].const is None:
            continue
        tag = wfull[k].const
        # the tag may be written sign-extended or as unsigned: compare modulo the width
        rstart = arms.get(tag)
        if rstart is None:
            w = (wfull[k].width or 0) * 8
            for v, tg in arms.items():
                if w and (v - tag) % (1 << w) == 0:
                    rstart = tg
        which = "tag %s" % tag
        if rstart is None:
            rstart = other
            which = "tag %s (reader's fallback arm)" % tag
        ri, rw = layout.reader_items(fx, rb, ty, rstart)
        rfull = ritems + ri
        diffs, n, complete = layout.compare(rfull, rw, wfull, ww)
        paired += 1
        total += n
        seen_tags.add(tag)
        if diffs:
            for pos, msg in diffs:
                run.fail(rule, "layout:%s:tag%s:%d" % (ty, tag, pos), "%s, %s, position %d: %s  [reader: %s | writer: %s]" % (
                    ty, which, pos, msg, " ".join(x.show() for x in rfull[:n + 2]), " ".join(x.show() for x in wfull[:n + 2])), "%s:%s" % (wb.file, wb.line), ledger="layout")
        else:
            run.ok(rule, "%s, %s: %d position(s) agree%s [%s]" % (ty, which, n, " (complete)" if complete else " (prefix)", " ".join(x.show() for x in wfull[:8])))
    if paired == 0:
        return None
    return total


PLACEHOLDER_SRC = ("WriteContext::placeholder", "WriteContext::reserve", "WriteContext::placeholder_array")
PLACEHOLDER_SINK = ("WriteContext::write_placeholder", "WriteContext::write_placeholder_dep", "write_placeholder_array")


def c15_d(run, fx, floors):
    rule = "C15-d"
    run.rule(rule, "every Placeholder returned by placeholder()/reserve()/placeholder_array() is, on every path from its creation to a block that "
                   "sets the Ok result, moved into write_placeholder*, into the returned value, or into a collection/struct")
    n = 0
    for b in fx.bodies:
        for bi, t in b.calls():
            if not callee_is(t, *PLACEHOLDER_SRC) or t["dest"]["p"]:
                continue
            n += 1
            holders = follow_moves(b, t["dest"]["l"])
            consumers = set()
            for bj, blk in enumerate(b.blocks):
                if not b.reachable(bj):
                    continue
                for s in blk["s"]:
                    if s["k"] == "assign" and s["rv"]["k"] == "agg":
                        if any(f["k"] == "move" and f["p"]["l"] in holders for f in s["rv"]["fields"]):
                            consumers.add(bj)
                    if s["k"] == "assign" and s["p"]["l"] == 0 and s["rv"]["k"] == "use" and op_local(s["rv"]["op"]) in holders:
                        consumers.add(bj)
                tt = blk["t"]
                if tt["k"] == "call" and any(a["k"] == "move" and a["p"]["l"] in holders for a in tt["args"]) \
                        and not callee_is(tt, "std::ops::Try::branch", "std::convert::From::from", "std::convert::Into::into"):
                    consumers.add(bj)
            oks = ok_blocks(b)
            start = t.get("target")
            key = "placeholder|%s|%s" % (b.root, (t["callee"].get("args") or ["?", "?"])[1] if len(t["callee"].get("args") or []) > 1 else "?")
            if start is None or not oks:
                run.ok(rule)
                continue
            if reach.must_pass(b, start, oks, consumers):
                run.ok(rule, "%s: placeholder consumed on every Ok path" % b.path)
            else:
                run.fail(rule, key, "a Placeholder created in %s can reach an Ok return without being written or handed on: the reserved bytes stay zero" % b.path, b.loc(t), ledger="placeholders")
    if floors:
        run.floor(rule, "placeholder creation sites", n, 15)


def c15_e(run, fx, floors):
    rule = "C15-e"
    run.rule(rule, "an offset or length written through write_placeholder that is computed from the write position is a *difference* of two "
                   "positions of the same context (bytes_written() - start): the value is then independent of where the table is embedded; an "
                   "absolute position is only correct in a buffer that starts at the table and is audited")
    n = 0
    for b in fx.bodies:
        prov = None
        for bi, t in b.calls():
            if not callee_is(t, "WriteContext::write_placeholder") or len(t["args"]) < 3:
                continue
            if prov is None:
                prov = sym.Prov(b)
            v = prov.op(t["args"][2])
            bw = [x for x in sym.walk(v) if x[0] == "call" and (x[4] or x[1] or "").endswith("bytes_written")]
            if not bw:
                continue
            n += 1
            rel = False
            for x in sym.walk(v):
                if x[0] == "bin" and x[1] in ("Sub", "SubWithOverflow"):
                    l = any(y[0] == "call" and (y[4] or y[1] or "").endswith("bytes_written") for y in sym.walk(x[2]))
                    r = any(y[0] == "call" and (y[4] or y[1] or "").endswith("bytes_written") for y in sym.walk(x[3]))
                    if l and r:
                        rel = True
            if rel:
                run.ok(rule, "%s: placeholder value is bytes_written() - start" % b.path)
            else:
                run.fail(rule, "abs-offset|%s" % b.root, "%s writes an absolute write position into a placeholder (%s): wrong whenever the table does not start at position 0 of the context" % (
                    b.path, sym.show(sym.strip(v))[:80]), b.loc(t), ledger="offsets")
    if floors:
        run.floor(rule, "position-derived placeholder values", n, 10)


def c15_f(run, fx):
    rule = "C15-f"
    run.rule(rule, "CFF INDEX offSize: cff::offset_size is the decision table [0,0xFF]->1, [0x100,0xFFFF]->2, [0x10000,0xFFFFFF]->3, "
                   "[0x1000000,0xFFFFFFFF]->4, else None, applied to its argument unmodified; serialise_offset_array applies it to the last "
                   "(largest) element of the very offset list it then writes with that width")
    import tableread
    b = fx.body("cff::offset_size")
    if b is None:
        run.anchor_missing(rule, "cff::offset_size")
    else:
        try:
            f, bps = tableread.scalar_fn(b)
            want = {0: 1, 1: 1, 0xFF: 1, 0x100: 2, 0xFFFF: 2, 0x10000: 3, 0xFFFFFF: 3, 0x1000000: 4, 0xFFFFFFFF: 4, 0x100000000: None}
            bad = []
            for v, w in sorted(want.items()):
                r = f(v)
                got = r[1] if r[0] == "some" else None
                if got != w:
                    bad.append("offset_size(%#x) = %s, expected %s" % (v, got, w))
            if bad:
                run.fail(rule, "offsize:table", "; ".join(bad), "%s:%s" % (b.file, b.line))
            else:
                run.ok(rule, "offset_size: thresholds 0xFF / 0xFFFF / 0xFFFFFF / 0xFFFFFFFF on the unmodified argument")
        except tableread.TableShape as e:
            run.fail(rule, "offsize:shape", "cff::offset_size is not a decision table over its argument: %s" % e, "%s:%s" % (b.file, b.line))
    s_ = fx.body("cff::serialise_offset_array")
    if s_ is None:
        return run.anchor_missing(rule, "cff::serialise_offset_array")
    prov = sym.Prov(s_)
    calls = [(bi, t) for bi, t in s_.calls() if callee_is(t, "cff::offset_size")]
    if len(calls) != 1:
        return run.fail(rule, "offsize:caller", "expected one offset_size call in serialise_offset_array, found %d" % len(calls), "%s:%s" % (s_.file, s_.line))
    a = sym.strip(prov.op(calls[0][1]["args"][0]))
    ok = False
    t = a
    while t[0] in ("deref", "ref"):
        t = sym.strip(t[1])
    if t[0] == "call" and (t[4] or "").endswith(("::unwrap", "::expect")) and t[2]:
        l = sym.strip(t[2][0])
        if l[0] == "call" and (l[1] or "").endswith("::last") and any(x[0] == "arg" and x[1] == 1 for x in sym.walk(l)):
            ok = True
    if ok:
        run.ok(rule, "serialise_offset_array: off_size = offset_size(*offsets.last()) of the list it writes")
    else:
        run.fail(rule, "offsize:argument", "offset_size is applied to %s, not to the last offset of the list being written: the last offset may not fit the chosen width" % sym.show(a)[:70], s_.loc(calls[0][1]))


def follow_moves(b, l0):
    holders = {l0}
    changed = True
    while changed:
        changed = False
        for bi, blk in enumerate(b.blocks):
            for s in blk["s"]:
                if s["k"] == "assign" and not s["p"]["p"] and s["rv"]["k"] in ("use", "cast"):
                    o = s["rv"]["op"]
                    if o["k"] in ("move", "copy") and o["p"]["l"] in holders and s["p"]["l"] not in holders:
                        # payload extraction of `?`:  val = (_x as Continue).0
                        holders.add(s["p"]["l"])
                        changed = True
            t = blk["t"]
            if t["k"] == "call" and not t["dest"]["p"] and callee_is(t, "std::ops::Try::branch", "std::convert::From::from", "std::convert::Into::into"):
                if t["args"] and op_local(t["args"][0]) in holders and t["dest"]["l"] not in holders:
                    holders.add(t["dest"]["l"])
                    changed = True
    return holders


def ok_blocks(b):
    out = []
    for bi, blk in enumerate(b.blocks):
        if not b.reachable(bi):
            continue
        for s in blk["s"]:
            if s["k"] == "assign" and s["p"]["l"] == 0 and not s["p"]["p"] and s["rv"]["k"] == "agg" and s["rv"].get("vname") == "Ok":
                out.append(bi)
    return out


def in_cycle(b, bb):
    seen, todo = set(), list(b.succs(bb))
    while todo:
        x = todo.pop()
        if x == bb:
            return True
        if x in seen:
            continue
        seen.add(x)
        todo.extend(b.succs(x))
    return False


def c15_g(run, fx):
    rule = "C15-g"
    run.rule(rule, "composite glyph instructions: the reader (CompositeGlyphs::read) and the writer (CompositeGlyph::write) agree on where "
                   "WE_HAVE_INSTRUCTIONS is looked for - both accumulate the flag over all components (a bool that starts false and is set "
                   "inside the component loop from we_have_instructions()), so a glyph the reader accepts with the flag on any component is "
                   "written back with its instructions")
    fns = (("<tables::glyf::CompositeGlyphs<'b> as binary::read::ReadBinary>::read", "reader"),
           ("<tables::glyf::CompositeGlyph<'a> as binary::write::WriteBinary>::write", "writer"))
    for path, role in fns:
        b = fx.body(path)
        if b is None:
            cands = [x for x in fx.bodies if x.kind != "Closure" and x.path.startswith(path.split("<'")[0]) and x.path.endswith(path.split("::")[-1])
                     and ("CompositeGlyphs" in x.path) == ("CompositeGlyphs" in path)]
            b = cands[0] if cands else None
        if b is None:
            run.anchor_missing(rule, path)
            continue
        prov = sym.Prov(b)
        ok = False
        for l, ds in b.defs().items():
            if b.local_ty(l) != "bool" or len(ds) < 2:
                continue
            init_false = any(d[2] == "assign" and d[3]["rv"]["k"] == "use" and d[3]["rv"]["op"]["k"] == "const" and d[3]["rv"]["op"].get("val") in (0, False) for d in ds)
            in_loop = False
            for d in ds:
                if d[2] != "assign" or not in_cycle(b, d[0]):
                    continue
                rv = d[3]["rv"]
                if rv["k"] == "use" and rv["op"]["k"] == "const" and rv["op"].get("val") in (1, True):
                    # set to true: under a branch on we_have_instructions()
                    for tb, fb_, call, sw in guards.bool_call_conditions(b, prov):
                        if tb is not None and b.dominates(tb, d[0]) and (call[1] or "").endswith("we_have_instructions"):
                            in_loop = True
                elif rv["k"] == "bin" and rv["bop"] in ("BitOr",):
                    t = prov.rvalue(rv)
                    if any(x[0] == "call" and (x[1] or "").endswith("we_have_instructions") for x in sym.walk(t)):
                        in_loop = True
            if init_false and in_loop:
                ok = True
        if ok:
            run.ok(rule, "%s (%s): flag accumulated over all components" % (b.path, role))
        else:
            run.fail(rule, "instr-flag:%s" % role, "%s: the %s does not accumulate WE_HAVE_INSTRUCTIONS over all components (false, then set inside the "
                     "component loop): reader and writer disagree about composites that carry the flag on a component other than the last" % (b.path, role),
                     "%s:%s" % (b.file, b.line))


def c15_h(run, fx):
    rule = "C15-h"
    run.rule(rule, "CFF/CFF2 integer operands are written in the ranges the readers decode (CFF spec table 3, Type 2 charstring numbers): one "
                   "byte for -107..=107, two bytes for 108..=1131 and -1131..=-108, otherwise the 16-bit (and, in DICTs, 32-bit) forms: the set of "
                   "range bounds compared in <cff::Operand as WriteBinary>::write and <cff2::StackValue as WriteBinary>::write is exactly "
                   "{-1131, -108, -107, 107, 108, 1131} (plus i16::MIN/MAX where the 16-bit form is chosen)")
    want = {("Ge", -1131), ("Ge", -107), ("Ge", 108), ("Le", -108), ("Le", 107), ("Le", 1131)}
    opt = {("Ge", -32768), ("Le", 32767)}
    n = 0
    for b in fx.bodies:
        if b.kind == "Closure" or not (b.path.startswith("<cff::Operand as binary::write::WriteBinary") or b.path.startswith("<cff::cff2::StackValue as binary::write::WriteBinary")):
            continue
        n += 1
        # the writer itself and the private helpers of the cff modules it delegates to (an extracted `write_integer_operand`)
        group, todo = [b], [b]
        while todo and len(group) < 6:
            cur = todo.pop()
            for _, t in cur.calls():
                cp = t["callee"].get("path") or ""
                cb = fx.body(cp) if cp.startswith("cff::") and "WriteBinary" not in cp else None
                if cb is not None and cb not in group and cb.kind != "Closure":
                    group.append(cb)
                    todo.append(cb)
        ks = set()
        for gb in group:
            gprov = sym.Prov(gb)
            for tb, fb, op, x, y, sw in guards.branch_conditions(gb, gprov):
                xs, ys = sym.strip(x), sym.strip(y)
                if ys[0] == "c" and isinstance(ys[1], int) and not isinstance(ys[1], bool):
                    ks.add((op, ys[1]))
                if xs[0] == "c" and isinstance(xs[1], int) and not isinstance(xs[1], bool):
                    ks.add((guards.CMP_FLIP[op], xs[1]))
        ks = {k for k in ks if k[0] in ("Ge", "Le", "Gt", "Lt")}
        extra = ks - want - opt
        missing = want - ks
        if not extra and not missing:
            run.ok(rule, "%s: integer ranges -1131..=-108, -107..=107, 108..=1131" % b.path)
        else:
            run.fail(rule, "intranges:%s" % b.root, "%s: the integer encoding ranges differ from the specification (unexpected bounds %s, missing %s): a value "
                     "at the boundary is written in a form that decodes to another number" % (b.path, sorted(extra), sorted(missing)), "%s:%s" % (b.file, b.line))
    if n < 2:
        run.anchor_missing(rule, "<cff::Operand as WriteBinary>::write and <cff2::StackValue as WriteBinary>::write (found %d)" % n)


def c15_os2(run, fx):
    rule = "C15-o"
    run.rule(rule, "OS/2: the tail that version 0 tables may or may not have (sTypoAscender .. usWinDescent) is read exactly when the table is long "
                   "enough to hold it: the size test in Os2::read_dep is `table_size >= N` with N = the bytes consumed before the test plus the bytes "
                   "the guarded part reads (68 + 10 = 78), so a table of exactly that size keeps the fields it carries")
    b = fx.body("<tables::os2::Os2 as binary::read::ReadBinaryDep>::read_dep")
    if b is None:
        return run.anchor_missing(rule, "Os2::read_dep")
    prov = sym.Prov(b)
    items, why = layout.reader_items(fx, b)
    m = re.search(r"branch at bb(\d+)", why)
    if not m:
        return run.anchor_missing(rule, "size test in Os2::read_dep")
    sw = int(m.group(1))

    def width(it):
        if it.width:
            return it.width
        if it.kind == "bytes":
            t = b.term(it.bb)
            if len(t["args"]) > 1 and t["args"][1]["k"] == "const" and isinstance(t["args"][1].get("val"), int):
                return t["args"][1]["val"]
        return None
    ws = [width(it) for it in items]
    if None in ws:
        return run.anchor_missing(rule, "widths of the fixed part of OS/2")
    before = sum(ws)
    hit = None
    for tb, fb, op, x, y, sw2 in guards.branch_conditions(b, prov):
        if sw2 != sw:
            continue
        xs, ys = sym.strip(x), sym.strip(y)
        if ys[0] == "c" and isinstance(ys[1], int) and any(z[0] == "arg" for z in sym.walk(xs)):
            hit = (op, ys[1], tb, fb)
        elif xs[0] == "c" and isinstance(xs[1], int) and any(z[0] == "arg" for z in sym.walk(ys)):
            hit = (guards.CMP_FLIP[op], xs[1], tb, fb)
    if hit is None:
        return run.anchor_missing(rule, "comparison of table_size with a constant at the first branch of Os2::read_dep")
    op, k, tb, fb = hit
    # the side that reads: the one whose first block reads from the cursor
    def guarded(blk):
        if blk is None:
            return None
        its, _ = layout.reader_items(fx, b, start=blk)
        n = 0
        for it in its:
            if it.kind != "prim" and it.kind != "type":
                break
            n += it.width or 0
            if n >= 10:
                break
        return n
    gt, gf = guarded(tb), guarded(fb)
    # normalise to "reads when table_size >= N"
    if op in ("Ge", "Gt"):
        n_min, g = (k if op == "Ge" else k + 1), gt
    elif op in ("Lt", "Le"):
        n_min, g = (k if op == "Lt" else k + 1), gf
    else:
        n_min, g = None, None
    if n_min is not None and g and n_min == before + 10:
        run.ok(rule, "the version 0 tail is read when table_size >= %d = %d + 10" % (n_min, before))
    else:
        run.fail(rule, "os2:v0-tail", "Os2::read_dep reads the version 0 tail when table_size >= %s, but the fields before it take %d bytes and the tail 10: "
                 "a table of %d bytes loses (or a shorter one over-reads) sTypoAscender .. usWinDescent" % (n_min, before, before + 10), "%s:%s" % (b.file, b.line))


# ---- C15-s: the header size a CFF/CFF2 writer announces is the size of the header it writes -------------------------------------
HDR_WRITERS = ("<cff::Header as binary::write::WriteBinary<&cff::Header>>::write", "<cff::cff2::Header as binary::write::WriteBinary>::write")


def c15_s(run, fx, floors=True):
    rule = "C15-s"
    run.rule(rule, "CFF hdrSize / CFF2 headerSize (the third byte of the header, Technical Note 5176 section 6 and the CFF2 header): the reader skips "
                   "to that offset to find what follows the header, and the library keeps none of the bytes in between, so the value a header writer "
                   "emits there must be a constant equal to the number of bytes that writer emits - not the size parsed from the source font")
    n = 0
    for path in HDR_WRITERS:
        b = fx.body(path)
        if b is None:
            if floors:
                run.anchor_missing(rule, path)
            continue
        items, why = layout.writer_items(fx, b)
        if why != "return" or len(items) < 3 or any(i.width is None for i in items):
            run.fail(rule, "hdrsize-shape:%s" % path, "%s is no longer a straight sequence of fixed-width writes (%s): the announced header size is not decided" % (path, why), "%s:%s" % (b.file, b.line))
            continue
        n += 1
        total = sum(i.width for i in items)
        t = b.term(items[2].bb)
        val = sym.strip(sym.Prov(b).op(t["args"][1]))
        v = val[1] if val[0] == "c" else None
        if val[0] == "uneval":
            c = fx.const(val[1])
            v = c.get("val") if c else None
        if v is None:
            run.fail(rule, "hdrsize:%s" % path, "%s announces a header size that is not a constant (%s) although it always writes %d bytes: a source font with a longer header "
                     "makes the output point past its own header" % (path, sym.show(val)[:80], total), b.loc(t))
        elif v != total:
            run.fail(rule, "hdrsize:%s" % path, "%s announces a header of %s bytes and writes %d" % (path, v, total), b.loc(t))
        else:
            run.ok(rule, "%s: announces %d, writes %d bytes" % (path, v, total))
    if floors:
        run.floor(rule, "header writers", n, 2)


# ---- C15-v: the OS/2 version the writer announces matches the parts it writes -----------------------------------------------------------
def c15_v(run, fx):
    import fnread
    import pathwalk as pw
    rule = "C15-v"
    run.rule(rule, "OS/2 writer: the reader takes the version number as the list of parts that follow (version >= 1: the code page ranges, >= 2: sxHeight .. "
                   "usMaxContext, >= 5: the optical point sizes), so the version the writer announces is decided on the presence of each of the optional "
                   "parts it writes: none -> 0, version1 -> 1, version1 + version2to4 -> 2 to 4, all three -> 5. The decision in front of the first write "
                   "is read as a decision list over the three presence tests and evaluated for the four well-formed combinations")
    bs = [b for b in fx.bodies if b.path.startswith("<tables::os2::Os2 as binary::write::WriteBinary<&tables::os2::Os2>>::write") and b.kind != "Closure"]
    if len(bs) != 1:
        return run.anchor_missing(rule, "<Os2 as WriteBinary<&Os2>>::write")
    b = bs[0]
    writes = [bi for bi, t in b.calls() if (t["callee"].get("path") or "") == "binary::write::WriteBinary::write"]
    if not writes:
        return run.anchor_missing(rule, "first write of the OS/2 writer")
    first = min(writes, key=lambda bi: (0 if b.dominates(bi, writes[-1]) else 1, bi))
    first = [bi for bi in writes if all(b.dominates(bi, o) for o in writes)]
    if not first:
        return run.fail(rule, "os2-version-shape", "the OS/2 writer has no first write that dominates the others: the version decision is not decided", "%s:%s" % (b.file, b.line))
    first = first[0]
    w = pw.Walk(b, None, [first], start=0)
    if w.dropped or not w.paths:
        return run.fail(rule, "os2-version-shape", "the version decision of the OS/2 writer cannot be read as a decision list (%s)" % ("; ".join(w.dropped) or "no path"), "%s:%s" % (b.file, b.line))
    t = b.term(first)

    class Ev(fnread.GridEval):
        def atom(self, tm):
            # presence of an optional part: Option::is_some(&table.versionK) or the discriminant of table.versionK
            inner = tm[1] if tm[0] == "discr" else (tm[2][0] if tm[0] == "call" and str(tm[1] or "").endswith(("::is_some", "::is_none")) and tm[2] else None)
            if inner is None:
                return None
            txt = sym.show(inner, 0)
            for k in ("version5", "version2to4", "version1"):
                if txt.endswith("." + k) or ("." + k) in txt:
                    v = self.a[k]
                    if tm[0] == "call" and str(tm[1]).endswith("::is_none"):
                        v = 1 - v
                    return bool(v) if tm[0] == "call" else Fraction(v)
            return None
    from fractions import Fraction
    want = {(0, 0, 0): {0}, (1, 0, 0): {1}, (1, 1, 0): {2, 3, 4}, (1, 1, 1): {5}}
    bad = []
    try:
        for (v1, v2, v5), ok in want.items():
            ev = Ev({"version1": v1, "version2to4": v2, "version5": v5})
            hits = [env for conds, env, end, kind in w.paths if kind == "stop" and all(ev.holds(c) for c in conds)]
            if len(hits) != 1:
                raise fnread.Undecided("%d paths apply" % len(hits))
            self_env = hits[0]
            st = pw.Walk.__new__(pw.Walk)
            st.b, st.env, st.writes = b, dict(self_env), []
            for s_ in b.stmts(first):          # the walk stops on entry to the block: run its statements up to the call
                if s_["k"] == "assign":
                    st.write(s_["p"], st.rvalue(s_["rv"]))
            val = st.op(t["args"][1])
            got = ev.ev(val)
            if got not in {Fraction(x) for x in ok}:
                bad.append(((v1, v2, v5), got, sorted(ok)))
    except (fnread.Undecided, fnread.DivZero) as e:
        return run.fail(rule, "os2-version-shape", "the version decision of the OS/2 writer cannot be evaluated (%s)" % e, b.loc(t))
    if bad:
        (v1, v2, v5), got, ok = bad[0]
        run.fail(rule, "os2-version", "the OS/2 writer announces version %s for a table with version1 %s, version2to4 %s, version5 %s; the parts it writes make it version %s: "
                 "the reader then expects parts that are not there (or skips parts that are)" % (got, "present" if v1 else "absent", "present" if v2 else "absent",
                                                                                                 "present" if v5 else "absent", "/".join(map(str, ok))), b.loc(t))
    else:
        run.ok(rule, "OS/2 writer: version 0 / 1 / 4 / 5 for the four well-formed combinations of optional parts")


def check(run, fx, tier, floors=True):
    import ignored
    ignored.run_for(run, fx, 'C15', floors)
    if floors or fx.body("<tables::os2::Os2 as binary::read::ReadBinaryDep>::read_dep") is not None:
        c15_os2(run, fx)
    import speclayout
    speclayout.rule_layouts(run, fx, "C15-L", ["sfnt", "cff"], floors)
    speclayout.rule_records(run, fx, "C15-R", ['sfnt'], floors)
    c15_a(run, fx)
    c15_b(run, fx, floors)
    narrowing.rule_narrowing(run, fx, "C15-c", floors, roots=narrowing.writer_roots(fx))
    c15_d(run, fx, floors)
    c15_e(run, fx, floors)
    if floors or fx.body("cff::offset_size") is not None:
        c15_f(run, fx)
    if floors or fx.adt("tables::glyf::CompositeGlyphs") is not None:
        c15_g(run, fx)
    if floors or fx.adt("cff::Operand") is not None:
        c15_h(run, fx)
    if floors or any(fx.body(p) is not None for p in HDR_WRITERS):
        c15_s(run, fx, floors)
    if floors:
        c15_v(run, fx)
    # writers pair placeholders with the data they point at by position (name records and their strings, offsets and sub-tables):
    # both sides of such a zip must come from the collection in the same order
    import zipalign
    zipalign.rule_zip(run, fx, "C15-z", select=(lambda b: "WriteBinary" in b.root or "::write" in b.root) if floors else (lambda b: "WriteBinary" in b.root), floors=floors, floor_n=6)
