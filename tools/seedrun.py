#!/usr/bin/env python3
"""Run checks against a seeded change: apply <patch> to /repo, run `vf check` for the given
properties (default: all with a rules module), print the violations, and always restore /repo.

  tools/seedrun.py <patch.diff> [C01 C14 ...]
"""
import os
import subprocess
import sys

HERE = os.path.dirname(os.path.dirname(os.path.abspath(__file__)))
REPO = os.environ.get("VERIF_REPO", "/repo")


def main():
    patch = os.path.abspath(sys.argv[1])
    props = sys.argv[2:]
    if not props:
        props = sorted(f[len("rules_"):-3] for f in os.listdir(os.path.join(HERE, "engine", "rules")) if f.startswith("rules_C"))
    st = subprocess.run(["git", "-C", REPO, "status", "--porcelain", "--untracked-files=no"], capture_output=True, text=True).stdout.strip()
    if st:
        print("refusing: /repo has modified tracked files:\n" + st)
        return 2
    r = subprocess.run(["git", "-C", REPO, "apply", patch], capture_output=True, text=True)
    if r.returncode != 0:
        print("patch does not apply:", r.stderr)
        return 2
    caught = {}
    try:
        for p in props:
            r = subprocess.run([os.path.join(HERE, "vf"), "check", p, "--tier", "quick"], capture_output=True, text=True, cwd=HERE)
            lines = r.stdout.splitlines()
            vio = []
            for i, ln in enumerate(lines):
                if ln.startswith("VIOLATION"):
                    ctx = [x.strip() for x in lines[i + 1:i + 4]]
                    vio.append(" | ".join(ctx))
            if r.returncode not in (0, 1):
                print("%s: check crashed (rc=%d)\n%s" % (p, r.returncode, (r.stderr or r.stdout)[-1500:]))
            caught[p] = vio
            print("%s rc=%d %s" % (p, r.returncode, lines[-1] if lines else ""))
            for v in vio:
                print("    " + v[:400])
    finally:
        subprocess.run(["git", "-C", REPO, "checkout", "--", "."], check=True)
    hit = [p for p, v in caught.items() if v]
    print("CAUGHT-BY: %s" % (",".join(hit) if hit else "none"))
    return 0


if __name__ == "__main__":
    sys.exit(main())
