#!/usr/bin/env python3
"""Render the table of seeded changes (seeded/*/meta.json, refreshed by tools/mkseeded.py <head> <matrix.json>) as
markdown and splice it into DESIGN.md between the SEEDTABLE markers.   tools/seedtable.py [--write]"""
import json
import os
import re
import sys

HERE = os.path.dirname(os.path.dirname(os.path.abspath(__file__)))


def short(t, n=110):
    t = re.sub(r"^(C\d\d\s*(/|seed\d)?\s*(m|mutation )\s*\d\s*[—-]+\s*)", "", t or "")
    t = re.sub(r"^C\d\d\s*/\s*m\d\s*[—-]+\s*", "", t)
    t = t.replace("|", "/")
    return t if len(t) <= n else t[:n - 1] + "…"


def main():
    rows = []
    stats = {}
    for sid in sorted(os.listdir(os.path.join(HERE, "seeded"))):
        mp = os.path.join(HERE, "seeded", sid, "meta.json")
        if not os.path.isfile(mp):
            continue
        m = json.load(open(mp))
        if not m.get("breaks"):
            rows.append("| %s | — | negative control: %s | %s |" % (sid, short(m.get("what", ""), 90), m.get("verdict", m.get("ran", ""))[:60]))
            continue
        mm = re.search(r"-r(\d+)m\d+$", sid)
        rnd = int(mm.group(1)) if mm else 1
        stats.setdefault(rnd, [0, 0, 0])
        rules = m.get("caught_by_rules") or {}
        own = m["breaks"] in rules
        if rules:
            caught = "; ".join("%s (%s)" % (p, ", ".join(r)) for p, r in sorted(rules.items()))
        else:
            caught = "**missed**"
        if m.get("verdict", "").startswith("patch does not apply"):
            caught = "not evaluated: patch no longer applies to the repaired tree"
        else:
            stats[rnd][0] += 1
            stats[rnd][1] += 1 if rules else 0
            stats[rnd][2] += 1 if own else 0
        rows.append("| %s | %s | %s | %s |" % (sid, m["breaks"], short(m.get("title", "")), caught))
    head = "| seed | breaks | change | reported by (rule) |\n|---|---|---|---|\n"
    table = head + "\n".join(rows) + "\n"
    summary = []
    for r, (n, c, o) in sorted(stats.items()):
        if n:
            summary.append("round %d: %d evaluated, %d reported by some check, %d by the check of the property the change breaks" % (r, n, c, o))
    text = "<!-- SEEDTABLE:BEGIN -->\n" + "\n".join("* " + s for s in summary) + "\n\n" + table + "<!-- SEEDTABLE:END -->"
    if "--write" in sys.argv:
        p = os.path.join(HERE, "DESIGN.md")
        s = open(p).read()
        if "<!-- SEEDTABLE:BEGIN -->" in s:
            s = re.sub(r"<!-- SEEDTABLE:BEGIN -->.*?<!-- SEEDTABLE:END -->", lambda _: text, s, flags=re.S)
        else:
            s = s.rstrip("\n") + "\n\n" + text + "\n"
        open(p, "w").write(s)
    print("\n".join("* " + s for s in summary))


if __name__ == "__main__":
    main()
