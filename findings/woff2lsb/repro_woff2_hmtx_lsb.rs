// Reproduction: WOFF2 transformed `hmtx` table (WOFF2 spec section 5.4) with the
// `leftSideBearing[]` array omitted (flags bit 1 set) is reconstituted from the xMin of ALL
// glyphs instead of only the glyphs numberOfHMetrics..numGlyphs.
//
// Everything is built by hand through the public API; no fixture is needed:
//
// * a `glyf` + long `loca` with 3 one-point glyphs whose xMin are 10, 20 and 30
// * a transformed `hmtx` body: flags byte followed by advanceWidth[numberOfHMetrics = 1]
// * a `TableDirectoryEntry` with `transform_length: Some(_)` (all of its fields are public)
//
// Expected per the specification (and per the OpenType `hmtx` layout that `HmtxTable` models):
//   h_metrics          == [{advance 500, lsb 10}]
//   left_side_bearings == [20, 30]                (numGlyphs - numberOfHMetrics = 2 entries)
//   metric(1).lsb == 20, metric(2).lsb == 30
//   the table writes out as 1 * 4 + 2 * 2 = 8 bytes

use allsorts::binary::read::ReadScope;
use allsorts::binary::write::{WriteBinary, WriteBuffer};
use allsorts::tables::glyf::{GlyfRecord, GlyfTable};
use allsorts::tables::loca::LocaTable;
use allsorts::tables::{HmtxTable, IndexToLocFormat, LongHorMetric};
use allsorts::tag;
use allsorts::woff2::{TableDirectoryEntry, Woff2HmtxTable};

const NUM_GLYPHS: usize = 3;
const NUM_H_METRICS: usize = 1;
const X_MINS: [i16; NUM_GLYPHS] = [10, 20, 30];
const ADVANCE: u16 = 500;
const GLYPH_LEN: usize = 20;

/// A valid simple glyph with one contour consisting of the single on-curve point (x, 0).
/// 17 bytes of data padded to 20.
fn one_point_glyph(x: i16) -> Vec<u8> {
    assert!((0..=255).contains(&x));
    let mut data = Vec::new();
    data.extend_from_slice(&1i16.to_be_bytes()); // numberOfContours
    data.extend_from_slice(&x.to_be_bytes()); // xMin
    data.extend_from_slice(&0i16.to_be_bytes()); // yMin
    data.extend_from_slice(&x.to_be_bytes()); // xMax
    data.extend_from_slice(&0i16.to_be_bytes()); // yMax
    data.extend_from_slice(&0u16.to_be_bytes()); // endPtsOfContours[0]
    data.extend_from_slice(&0u16.to_be_bytes()); // instructionLength
    data.push(0x01 | 0x02 | 0x04 | 0x10 | 0x20); // on curve, x short +ve, y short +ve
    data.push(x as u8); // x
    data.push(0); // y
    data.resize(GLYPH_LEN, 0);
    data
}

fn glyf_and_loca_data() -> (Vec<u8>, Vec<u8>) {
    let mut glyf = Vec::new();
    let mut loca = Vec::new();
    for x_min in X_MINS {
        loca.extend_from_slice(&(glyf.len() as u32).to_be_bytes());
        glyf.extend_from_slice(&one_point_glyph(x_min));
    }
    loca.extend_from_slice(&(glyf.len() as u32).to_be_bytes());
    (glyf, loca)
}

fn hmtx_entry(transform_length: usize) -> TableDirectoryEntry {
    TableDirectoryEntry {
        tag: tag::HMTX,
        offset: 0,
        // Length of the reconstructed table: 1 longHorMetric + 2 leftSideBearings
        orig_length: (NUM_H_METRICS * 4 + (NUM_GLYPHS - NUM_H_METRICS) * 2) as u32,
        transform_length: Some(transform_length as u32),
    }
}

/// Transformed hmtx: flags, advanceWidth[numberOfHMetrics], then whichever optional arrays
/// the flags say are present.
fn transformed_hmtx(flags: u8, lsb: &[i16], left_side_bearing: &[i16]) -> Vec<u8> {
    let mut data = vec![flags];
    for _ in 0..NUM_H_METRICS {
        data.extend_from_slice(&ADVANCE.to_be_bytes());
    }
    for value in lsb.iter().chain(left_side_bearing) {
        data.extend_from_slice(&value.to_be_bytes());
    }
    data
}

fn check(hmtx: &HmtxTable<'_>) {
    let h_metrics: Vec<_> = hmtx.h_metrics.iter().collect();
    let left_side_bearings: Vec<_> = hmtx.left_side_bearings.iter().collect();

    assert_eq!(
        h_metrics,
        vec![LongHorMetric {
            advance_width: ADVANCE,
            lsb: 10
        }]
    );
    assert_eq!(
        left_side_bearings,
        vec![20, 30],
        "left_side_bearings must hold the xMin of glyphs numberOfHMetrics..numGlyphs only"
    );
    assert_eq!(hmtx.metric(0).unwrap().lsb, 10);
    assert_eq!(hmtx.metric(1).unwrap().lsb, 20, "lsb of glyph 1");
    assert_eq!(hmtx.metric(2).unwrap().lsb, 30, "lsb of glyph 2");

    let mut out = WriteBuffer::new();
    HmtxTable::write(&mut out, hmtx).unwrap();
    assert_eq!(
        out.bytes().len(),
        NUM_H_METRICS * 4 + (NUM_GLYPHS - NUM_H_METRICS) * 2,
        "length of the written hmtx table"
    );
}

fn with_glyf<F: FnOnce(GlyfTable<'_>)>(f: F) {
    let (glyf_data, loca_data) = glyf_and_loca_data();
    let loca = ReadScope::new(&loca_data)
        .read_dep::<LocaTable<'_>>((NUM_GLYPHS, IndexToLocFormat::Long))
        .expect("loca");
    let glyf = ReadScope::new(&glyf_data)
        .read_dep::<GlyfTable<'_>>(&loca)
        .expect("glyf");
    assert_eq!(glyf.records().len(), NUM_GLYPHS);
    f(glyf)
}

// Control: both arrays present in the stream (flags = 0). This is the sibling arm that reads
// `num_glyphs - num_h_metrics` entries, it passes on the unmodified tree and shows that the
// inputs and the expectations in `check` are consistent.
#[test]
fn control_both_arrays_present() {
    with_glyf(|glyf| {
        let data = transformed_hmtx(0b00, &[10], &[20, 30]);
        let entry = hmtx_entry(data.len());
        let hmtx = ReadScope::new(&data)
            .read_dep::<Woff2HmtxTable>((&entry, &glyf, NUM_GLYPHS, NUM_H_METRICS))
            .expect("hmtx");
        check(&hmtx);
    });
}

// lsb[] and leftSideBearing[] both omitted (flags = 0b11); glyf records unparsed
// (`GlyfRecord::Present`) as they are when the glyf table was not transformed.
#[test]
fn both_arrays_omitted_unparsed_glyphs() {
    with_glyf(|glyf| {
        assert!(glyf
            .records()
            .iter()
            .all(|record| matches!(record, GlyfRecord::Present { .. })));
        let data = transformed_hmtx(0b11, &[], &[]);
        let entry = hmtx_entry(data.len());
        let hmtx = ReadScope::new(&data)
            .read_dep::<Woff2HmtxTable>((&entry, &glyf, NUM_GLYPHS, NUM_H_METRICS))
            .expect("hmtx");
        check(&hmtx);
    });
}

// Same with parsed glyphs (`GlyfRecord::Parsed`), as produced by the transformed glyf reader.
#[test]
fn both_arrays_omitted_parsed_glyphs() {
    with_glyf(|mut glyf| {
        for record in glyf.records_mut() {
            record.parse().expect("parse glyph");
        }
        assert!(glyf
            .records()
            .iter()
            .all(|record| matches!(record, GlyfRecord::Parsed(_))));
        let data = transformed_hmtx(0b11, &[], &[]);
        let entry = hmtx_entry(data.len());
        let hmtx = ReadScope::new(&data)
            .read_dep::<Woff2HmtxTable>((&entry, &glyf, NUM_GLYPHS, NUM_H_METRICS))
            .expect("hmtx");
        check(&hmtx);
    });
}

// Only leftSideBearing[] omitted (flags = 0b10), lsb[] read from the stream.
#[test]
fn only_left_side_bearing_array_omitted() {
    with_glyf(|glyf| {
        let data = transformed_hmtx(0b10, &[10], &[]);
        let entry = hmtx_entry(data.len());
        let hmtx = ReadScope::new(&data)
            .read_dep::<Woff2HmtxTable>((&entry, &glyf, NUM_GLYPHS, NUM_H_METRICS))
            .expect("hmtx");
        check(&hmtx);
    });
}

// Not an assertion: prints what the reader produces for the flags = 0b11 input so that the
// observed values can be recorded (run with `-- --nocapture observed`).
#[test]
fn observed_values() {
    with_glyf(|glyf| {
        let data = transformed_hmtx(0b11, &[], &[]);
        let entry = hmtx_entry(data.len());
        let hmtx = ReadScope::new(&data)
            .read_dep::<Woff2HmtxTable>((&entry, &glyf, NUM_GLYPHS, NUM_H_METRICS))
            .expect("hmtx");
        let mut out = WriteBuffer::new();
        HmtxTable::write(&mut out, &hmtx).unwrap();
        println!(
            "OBSERVED h_metrics={:?} left_side_bearings={:?} metric(0..3).lsb={:?} written_len={} written={:?}",
            hmtx.h_metrics.iter().collect::<Vec<_>>(),
            hmtx.left_side_bearings.iter().collect::<Vec<_>>(),
            (0..NUM_GLYPHS as u16)
                .map(|g| hmtx.metric(g).map(|m| m.lsb))
                .collect::<Vec<_>>(),
            out.bytes().len(),
            out.bytes(),
        );
    });
}
