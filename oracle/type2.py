"""Type 2 charstring constants written from Adobe Technical Note #5177 (The Type 2 Charstring
Format), Appendix A/B, TN #5176 (CFF) chapter 16, and the OpenType CFF2 charstring specification,
independently of the repository."""

# one-byte operators (mnemonic -> opcode)
ONE_BYTE = {
    "hstem": 1, "vstem": 3, "vmoveto": 4, "rlineto": 5, "hlineto": 6, "vlineto": 7, "rrcurveto": 8,
    "callsubr": 10, "return": 11, "endchar": 14,
    "vsindex": 15, "blend": 16,            # CFF2
    "hstemhm": 18, "hintmask": 19, "cntrmask": 20, "rmoveto": 21, "hmoveto": 22, "vstemhm": 23,
    "rcurveline": 24, "rlinecurve": 25, "vvcurveto": 26, "hhcurveto": 27,
    "callgsubr": 29, "vhcurveto": 30, "hvcurveto": 31,
}
ESCAPE = 12
# two-byte operators supported for outlines (12 x)
TWO_BYTE = {"hflex": 34, "flex": 35, "hflex1": 36, "flex1": 37}
# reserved one-byte codes in Type 2 (15 and 16 are reserved in CFF1 but defined by CFF2)
RESERVED = {0, 2, 9, 13, 17}
# number encodings
SHORT_INT = 28
FIXED_16_16 = 255
ONE_BYTE_INT = (32, 246)        # value = b0 - 139
TWO_BYTE_POS = (247, 250)       # value = (b0-247)*256 + b1 + 108
TWO_BYTE_NEG = (251, 254)       # value = -(b0-251)*256 - b1 - 108
# subroutine bias (TN5176 ch. 16 / TN5177 4.7)
def bias(n):
    if n < 1240:
        return 107
    if n < 33900:
        return 1131
    return 32768
BIAS_POINTS = [0, 1, 1239, 1240, 1241, 33899, 33900, 33901, 65535, 1 << 20]
# limits (TN5177 Appendix B; CFF2: stack 513)
NESTING_LIMIT = 10
STACK_CFF = 48
STACK_CFF2 = 513
