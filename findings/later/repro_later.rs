//! Reproductions for five defects that were repaired without a recorded failing input.
//!
//! Drop this file in as `tests/repro_later.rs` and run
//! `cargo test --offline --test repro_later`.
//!
//! Each test panics on the parent of the commit it is named after and passes on the commit
//! itself (and on everything after it). Only the public API of the crate is used. The GSUB and
//! morx tables are built by hand; the Indic test uses a font from `tests/fonts`.

use std::path::Path;

use allsorts::binary::read::ReadScope;
use allsorts::font::MatchingPresentation;
use allsorts::gsub::{
    gsub_apply_lookup, FeatureMask, Features, GlyphOrigin, RawGlyph, RawGlyphFlags,
};
use allsorts::layout::{morx, new_layout_cache, LayoutTable, GSUB};
use allsorts::tables::morx::{ClassLookupTable, LookupTable, MorxTable};
use allsorts::tables::OpenTypeFont;
use allsorts::{tag, Font};

use tinyvec::tiny_vec;

// ---------------------------------------------------------------------------------------------
// Helpers
// ---------------------------------------------------------------------------------------------

fn be16(out: &mut Vec<u8>, values: &[u16]) {
    for value in values {
        out.extend_from_slice(&value.to_be_bytes());
    }
}

fn be32(out: &mut Vec<u8>, values: &[u32]) {
    for value in values {
        out.extend_from_slice(&value.to_be_bytes());
    }
}

fn make_glyph(ch: char, glyph_index: u16) -> RawGlyph<()> {
    RawGlyph {
        unicodes: tiny_vec![[char; 1] => ch],
        glyph_index,
        liga_component_pos: 0,
        glyph_origin: GlyphOrigin::Char(ch),
        flags: RawGlyphFlags::empty(),
        extra_data: (),
        variation: None,
    }
}

fn glyph_ids(glyphs: &[RawGlyph<()>]) -> Vec<u16> {
    glyphs.iter().map(|glyph| glyph.glyph_index).collect()
}

// Glyph ids used by the hand made GSUB table.
const GLYPH_A: u16 = 1;
const GLYPH_B: u16 = 2;
const GLYPH_C: u16 = 3;
const GLYPH_ABC: u16 = 4;

/// Build a minimal GSUB table with no scripts or features, only a lookup list:
///
/// * lookup 0: ContextSubstFormat1, coverage {A}, one rule whose input sequence is
///   `A` followed by `context_tail`, with one SubstLookupRecord (sequenceIndex 0, lookup 1).
/// * lookup 1: LigatureSubstFormat1, coverage {A}, one ligature A B C -> ABC.
fn build_gsub(context_tail: &[u16]) -> Vec<u8> {
    // -- lookup 0: context substitution
    let tail_len = context_tail.len() as u16;
    let mut lookup0 = Vec::new();
    // Lookup table: lookupType 5, lookupFlag 0, subTableCount 1, subtableOffsets[0] = 8
    be16(&mut lookup0, &[5, 0, 1, 8]);
    // ContextSubstFormat1 @8: format 1, coverageOffset, subRuleSetCount 1, subRuleSetOffsets[0]
    let rule_len = 4 + 2 * tail_len + 4;
    let coverage_offset = 8 + 4 + rule_len;
    be16(&mut lookup0, &[1, coverage_offset, 1, 8]);
    // SubRuleSet @8: subRuleCount 1, subRuleOffsets[0] = 4
    be16(&mut lookup0, &[1, 4]);
    // SubRule: glyphCount, substCount 1, input[glyphCount - 1], SubstLookupRecord(0, 1)
    be16(&mut lookup0, &[1 + tail_len, 1]);
    be16(&mut lookup0, context_tail);
    be16(&mut lookup0, &[0, 1]);
    // Coverage format 1: glyphCount 1, [A]
    be16(&mut lookup0, &[1, 1, GLYPH_A]);

    // -- lookup 1: ligature substitution
    let mut lookup1 = Vec::new();
    // Lookup table: lookupType 4, lookupFlag 0, subTableCount 1, subtableOffsets[0] = 8
    be16(&mut lookup1, &[4, 0, 1, 8]);
    // LigatureSubstFormat1 @8: format 1, coverageOffset 20, ligSetCount 1, ligSetOffsets[0] = 8
    be16(&mut lookup1, &[1, 20, 1, 8]);
    // LigatureSet @8: ligatureCount 1, ligatureOffsets[0] = 4
    be16(&mut lookup1, &[1, 4]);
    // Ligature: ligGlyph ABC, compCount 3, components [B, C]
    be16(&mut lookup1, &[GLYPH_ABC, 3, GLYPH_B, GLYPH_C]);
    // Coverage format 1 @20: glyphCount 1, [A]
    be16(&mut lookup1, &[1, 1, GLYPH_A]);

    let mut gsub = Vec::new();
    // GSUB header: version 1.0, scriptListOffset 0, featureListOffset 0, lookupListOffset 10
    be16(&mut gsub, &[1, 0, 0, 0, 10]);
    // LookupList: lookupCount 2, offsets relative to the start of the lookup list
    be16(&mut gsub, &[2, 6, 6 + lookup0.len() as u16]);
    gsub.extend_from_slice(&lookup0);
    gsub.extend_from_slice(&lookup1);
    gsub
}

fn abc_glyphs() -> Vec<RawGlyph<()>> {
    vec![
        make_glyph('A', GLYPH_A),
        make_glyph('B', GLYPH_B),
        make_glyph('C', GLYPH_C),
    ]
}

/// Wrap one morx subtable body in a subtable header, a chain and a morx header.
fn build_morx(coverage: u32, body: &[u8]) -> Vec<u8> {
    let subtable_len = 12 + body.len() as u32;
    let mut morx = Vec::new();
    // morx header: version 2, unused, nChains 1
    be16(&mut morx, &[2, 0]);
    be32(&mut morx, &[1]);
    // Chain header: defaultFlags 1, chainLength, nFeatureEntries 0, nSubtables 1
    be32(&mut morx, &[1, 16 + subtable_len, 0, 1]);
    // Subtable header: length, coverage, subFeatureFlags 1
    be32(&mut morx, &[subtable_len, coverage, 1]);
    morx.extend_from_slice(body);
    morx
}

// ---------------------------------------------------------------------------------------------
// f1ad6af: Indic reordering asserted on glyphs without a position tag
// ---------------------------------------------------------------------------------------------

/// Bengali KA (U+0995) followed by DEVANAGARI VOWEL SIGN E (U+0947), shaped with script `beng`
/// using NotoSansBengali-Regular.ttf.
///
/// The syllable matcher accepts the pair as a consonant syllable, but the Bengali tagging does
/// not give the Devanagari matra a position. Before the fix this hit `assert_ne!(pos, None)` in
/// `initial_reorder_consonant_syllable_with_base`.
#[test]
fn repro_f1ad6af() {
    let path = Path::new(env!("CARGO_MANIFEST_DIR"))
        .join("tests/fonts/noto/NotoSansBengali-Regular.ttf");
    let buffer = std::fs::read(path).expect("unable to read font");
    let otf = ReadScope::new(&buffer)
        .read::<OpenTypeFont<'_>>()
        .expect("unable to parse font");
    let provider = otf.table_provider(0).expect("unable to get table provider");
    let mut font = Font::new(provider).expect("unable to load font");

    let script = tag::BENG;
    let text = "\u{0995}\u{0947}";
    // U+0947 is not in the font, it maps to glyph 0 but retains its character.
    let glyphs = font.map_glyphs(text, script, MatchingPresentation::NotRequired);
    assert_eq!(glyphs.len(), 2);
    assert_ne!(glyphs[0].glyph_index, 0, "font has no glyph for U+0995");

    // Before the fix this call panicked. An error result is fine, a panic is not.
    let result = font.shape(
        glyphs,
        script,
        None,
        &Features::Mask(FeatureMask::default()),
        None,
        true,
    );
    let infos = match result {
        Ok(infos) => infos,
        Err((_err, infos)) => infos,
    };
    assert!(!infos.is_empty());
}

// ---------------------------------------------------------------------------------------------
// b039e37: gsub_apply_lookup length bookkeeping on a sub-range
// ---------------------------------------------------------------------------------------------

/// Glyphs `A B C`, lookups applied to the sub-range start = 0, length = 1 (the way the `frac`
/// feature applies `numr`/`dnom` lookups to parts of the glyph buffer).
///
/// 1. Ligature lookup A B C -> ABC: removes two glyphs from a range of length one. Before the fix
///    `length -= removed_count` overflowed.
/// 2. Context lookup with input sequence `A B` whose nested lookup is that ligature: changes is
///    -2 for a range of length one. Before the fix `checked_add(length, changes).unwrap()`
///    panicked on `None`.
#[test]
fn repro_b039e37() {
    let gsub_data = build_gsub(&[GLYPH_B]);
    let gsub_table = ReadScope::new(&gsub_data)
        .read::<LayoutTable<GSUB>>()
        .expect("unable to parse GSUB");
    let gsub_cache = new_layout_cache(gsub_table);

    // 1. ligature lookup (index 1) applied directly
    let mut glyphs = abc_glyphs();
    let res = gsub_apply_lookup(
        &gsub_cache,
        &gsub_cache.layout_table,
        None,
        1,
        tag::FRAC,
        None,
        &mut glyphs,
        0,
        1,
        |_| true,
    );
    // The ligature is formed before the bookkeeping problem is noticed.
    assert_eq!(glyph_ids(&glyphs), vec![GLYPH_ABC]);
    assert!(res.is_err(), "expected an error, got {:?}", res);

    // 2. context lookup (index 0) with nested ligature lookup
    let mut glyphs = abc_glyphs();
    let res = gsub_apply_lookup(
        &gsub_cache,
        &gsub_cache.layout_table,
        None,
        0,
        tag::FRAC,
        None,
        &mut glyphs,
        0,
        1,
        |_| true,
    );
    assert_eq!(glyph_ids(&glyphs), vec![GLYPH_ABC]);
    assert!(res.is_err(), "expected an error, got {:?}", res);
}

// ---------------------------------------------------------------------------------------------
// 3860cc8: apply_subst_context panicked with "len < 0"
// ---------------------------------------------------------------------------------------------

/// Glyphs `A B C`. Context lookup whose input sequence is just `A` and whose nested lookup is
/// the ligature A B C -> ABC, applied to the whole buffer. The nested lookup removes two glyphs
/// but the matched input is only one glyph long. Before the fix this hit
/// `panic!("apply_subst_context: len < 0")`.
#[test]
fn repro_3860cc8() {
    let gsub_data = build_gsub(&[]);
    let gsub_table = ReadScope::new(&gsub_data)
        .read::<LayoutTable<GSUB>>()
        .expect("unable to parse GSUB");
    let gsub_cache = new_layout_cache(gsub_table);

    let mut glyphs = abc_glyphs();
    let len = glyphs.len();
    let res = gsub_apply_lookup(
        &gsub_cache,
        &gsub_cache.layout_table,
        None,
        0,
        tag::CALT,
        None,
        &mut glyphs,
        0,
        len,
        |_| true,
    );
    assert_eq!(glyph_ids(&glyphs), vec![GLYPH_ABC]);
    assert_eq!(res.expect("lookup application failed"), 1);
}

// ---------------------------------------------------------------------------------------------
// e626f36: morx ligature subtable used a stale end_pos for a second STORE action
// ---------------------------------------------------------------------------------------------

/// morx ligature subtable, glyphs [4, 5].
///
/// Both glyphs are class 4. State 0/1 + class 4 -> entry 1 (SET_COMPONENT, next state 2).
/// State 2 + class 4 -> entry 2 (SET_COMPONENT | PERFORM_ACTION, next state 2, action index 0).
/// The action list is [STORE, LAST | STORE]. The first STORE replaces glyphs[0..=1] with the
/// ligature (glyph 6), which is pushed back on the component stack as the next state is
/// non-zero. The second STORE then drained `start_pos + 1..end_pos + 1` = `1..2` from a buffer
/// of length one as end_pos was not updated.
#[test]
fn repro_e626f36() {
    const SET_COMPONENT: u16 = 0x8000;
    const PERFORM_ACTION: u16 = 0x2000;
    const LAST: u32 = 0x8000_0000;
    const STORE: u32 = 0x4000_0000;

    let mut body = Vec::new();
    // STXHeader: nClasses 5, classTableOffset 28, stateArrayOffset 40, entryTableOffset 70
    be32(&mut body, &[5, 28, 40, 70]);
    // ligActionOffset 88, componentOffset 96, ligatureListOffset 112
    be32(&mut body, &[88, 96, 112]);
    assert_eq!(body.len(), 28);
    // Class table, lookup format 8: firstGlyph 4, glyphCount 2, classes [4, 4]; 2 bytes padding
    be16(&mut body, &[8, 4, 2, 4, 4, 0]);
    assert_eq!(body.len(), 40);
    // State array, 5 classes per row. Class 4 -> entry 1 in states 0 and 1, entry 2 in state 2
    be16(&mut body, &[0, 0, 0, 0, 1]);
    be16(&mut body, &[0, 0, 0, 0, 1]);
    be16(&mut body, &[0, 0, 0, 0, 2]);
    assert_eq!(body.len(), 70);
    // Entry table: (nextStateIndex, entryFlags, ligActionIndex)
    be16(&mut body, &[0, 0, 0]);
    be16(&mut body, &[2, SET_COMPONENT, 0]);
    be16(&mut body, &[2, SET_COMPONENT | PERFORM_ACTION, 0]);
    assert_eq!(body.len(), 88);
    // Ligature actions, offset 0 in both
    be32(&mut body, &[STORE, LAST | STORE]);
    assert_eq!(body.len(), 96);
    // Component table: indexed by glyph id + offset, all zero
    be16(&mut body, &[0; 8]);
    assert_eq!(body.len(), 112);
    // Ligature list: [6]; 2 bytes padding
    be16(&mut body, &[6, 0]);

    let morx_data = build_morx(2, &body);
    let morx_table = ReadScope::new(&morx_data)
        .read_dep::<MorxTable<'_>>(10)
        .expect("unable to parse morx");

    let mut glyphs = vec![make_glyph('a', 4), make_glyph('b', 5)];
    let features = Features::Mask(FeatureMask::default());
    morx::apply(&morx_table, &mut glyphs, &features).expect("morx::apply failed");
    assert_eq!(glyph_ids(&glyphs), vec![6]);
}

// ---------------------------------------------------------------------------------------------
// 4709870: morx lookup table format 10 with 4 or 8 byte units hit todo!()
// ---------------------------------------------------------------------------------------------

/// morx non-contextual subtable whose lookup table is format 10 with unitSize 4 (then 8):
/// firstGlyph 4, glyphCount 1, value 7. Applied to the single glyph 4. Before the fix the lookup
/// hit `todo!("handle 4 and 8-bit lookup values")`.
#[test]
fn repro_4709870() {
    for unit_size in [4u16, 8] {
        let mut body = Vec::new();
        // Lookup table format 10: unitSize, firstGlyph 4, glyphCount 1
        be16(&mut body, &[10, unit_size, 4, 1]);
        if unit_size == 4 {
            be32(&mut body, &[7]);
        } else {
            be32(&mut body, &[0, 7]);
        }

        // Via morx::apply
        let morx_data = build_morx(4, &body);
        let morx_table = ReadScope::new(&morx_data)
            .read_dep::<MorxTable<'_>>(10)
            .expect("unable to parse morx");
        let mut glyphs = vec![make_glyph('a', 4)];
        let features = Features::Mask(FeatureMask::default());
        morx::apply(&morx_table, &mut glyphs, &features).expect("morx::apply failed");
        assert_eq!(glyph_ids(&glyphs), vec![7]);

        // Directly on the lookup table
        let class_table = ReadScope::new(&body)
            .read_dep::<ClassLookupTable<'_>>(10)
            .expect("unable to parse lookup table");
        match class_table.lookup_table {
            LookupTable::Format10(ref table) => {
                assert_eq!(table.lookup(4), Some(7));
                assert_eq!(table.lookup(5), None);
            }
            _ => panic!("expected format 10 lookup table"),
        }
    }
}
