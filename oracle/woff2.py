"""WOFF2 constants written from the W3C WOFF 2.0 Recommendation, independently of the repository.

Section 5.2 (Decoding of variable-length X and Y coordinates): the 128-row triplet table is
*constructed* here from the rules the specification's table follows, not copied from allsorts:
  rows   0..9    : 2 bytes total, 0 x bits,  8 y bits, dy base 0,256,..,1024 each with y sign -,+
  rows  10..19   : 2 bytes total, 8 x bits,  0 y bits, dx base 0,256,..,1024 each with x sign -,+
  rows  20..83   : 2 bytes total, 4/4 bits, dx base in 1,17,33,49 x dy base in 1,17,33,49 x signs
  rows  84..119  : 3 bytes total, 8/8 bits, dx base in 1,257,513 x dy base in 1,257,513 x signs
  rows 120..123  : 4 bytes total, 12/12 bits, bases 0, signs
  rows 124..127  : 5 bytes total, 16/16 bits, bases 0, signs
  sign order within a group: (x-,y-), (x+,y-), (x-,y+), (x+,y+)
The byte count in the specification includes the flag byte.
Section 4.1: known table tags, in flag order 0..62 (63 = arbitrary tag follows).
Section 3.1/3.2: 255UInt16 codes, UIntBase128 rules."""

SIGNS = [(True, True), (False, True), (True, False), (False, False)]  # (x_negative, y_negative)


def triplets():
    rows = []
    for base in (0, 256, 512, 768, 1024):
        for yneg in (True, False):
            rows.append(dict(bytes=2, x_bits=0, y_bits=8, dx=0, dy=base, x_neg=None, y_neg=yneg))
    for base in (0, 256, 512, 768, 1024):
        for xneg in (True, False):
            rows.append(dict(bytes=2, x_bits=8, y_bits=0, dx=base, dy=0, x_neg=xneg, y_neg=None))
    for dx in (1, 17, 33, 49):
        for dy in (1, 17, 33, 49):
            for xn, yn in SIGNS:
                rows.append(dict(bytes=2, x_bits=4, y_bits=4, dx=dx, dy=dy, x_neg=xn, y_neg=yn))
    for dx in (1, 257, 513):
        for dy in (1, 257, 513):
            for xn, yn in SIGNS:
                rows.append(dict(bytes=3, x_bits=8, y_bits=8, dx=dx, dy=dy, x_neg=xn, y_neg=yn))
    for xn, yn in SIGNS:
        rows.append(dict(bytes=4, x_bits=12, y_bits=12, dx=0, dy=0, x_neg=xn, y_neg=yn))
    for xn, yn in SIGNS:
        rows.append(dict(bytes=5, x_bits=16, y_bits=16, dx=0, dy=0, x_neg=xn, y_neg=yn))
    assert len(rows) == 128
    return rows


KNOWN_TAGS = [
    "cmap", "head", "hhea", "hmtx", "maxp", "name", "OS/2", "post", "cvt ", "fpgm", "glyf", "loca", "prep", "CFF ",
    "VORG", "EBDT", "EBLC", "gasp", "hdmx", "kern", "LTSH", "PCLT", "VDMX", "vhea", "vmtx", "BASE", "GDEF", "GPOS",
    "GSUB", "EBSC", "JSTF", "MATH", "CBDT", "CBLC", "COLR", "CPAL", "SVG ", "sbix", "acnt", "avar", "bdat", "bloc",
    "bsln", "cvar", "fdsc", "feat", "fmtx", "fvar", "gvar", "hsty", "just", "lcar", "mort", "morx", "opbd", "prop",
    "trak", "Zapf", "Silf", "Glat", "Gloc", "Feat", "Sill",
]
assert len(KNOWN_TAGS) == 63

# 255UInt16: code 253 -> next two bytes; 254 -> next byte + 253*2; 255 -> next byte + 253; else the code itself
PACKED_U16 = {"word_code": 253, "one_more_byte_code2": 254, "one_more_byte_code1": 255, "lowest_ucode": 253}
# UIntBase128: at most 5 bytes, no leading 0x80, overflow if top 7 bits set before shifting by 7
UINT_BASE128 = {"max_bytes": 5, "leading_zero": 0x80, "overflow_mask": 0xFE000000, "shift": 7, "payload_mask": 0x7F, "more": 0x80}
