//! Reproductions for unbounded recursion / panics reachable from the public API.
//!
//! * F2:  `variations::instance` -> `apply_gvar` -> `CompositeGlyph::calculate_bounding_box`
//!        recurses without bound on a composite glyph cycle that does not include the root glyph.
//! * F13: `panic!("glyph is not parsed")` in the same function (shown to be unreachable).
//! * F3:  `GlyphLayout::glyph_positions` -> `adjust_cursive_chain` never terminates on a cycle of
//!        `Placement::CursiveAnchor` links supplied by the caller.
//! * F10: `FvarTable::normalize` panics in `clamp` when an axis has minValue > maxValue.
//!
//! Every test asserts the *desired* behaviour (the call returns normally, `Ok` or `Err`), so the
//! tests for confirmed defects fail on the unmodified code and pass once the fixes are applied.
//!
//! A stack overflow aborts the whole process and an endless loop never returns, so the tests
//! that can do either re-run themselves in a child process (the same test binary, filtered to
//! the one test, with `VERIF_REC_CHILD=1` set) and inspect the child's exit status.

mod common;

use std::convert::TryFrom;
use std::io::Read;
use std::process::{Command, Stdio};
use std::time::{Duration, Instant};

use allsorts::binary::read::ReadScope;
use allsorts::font::MatchingPresentation;
use allsorts::font_data::FontData;
use allsorts::glyph_position::{GlyphLayout, TextDirection};
use allsorts::gpos::{Info, Placement};
use allsorts::gsub::{FeatureMask, Features, GlyphOrigin, RawGlyph, RawGlyphFlags};
use allsorts::layout::Anchor;
use allsorts::tables::variable_fonts::fvar::FvarTable;
use allsorts::tables::{Fixed, FontTableProvider};
use allsorts::tinyvec::tiny_vec;
use allsorts::{tag, Font};

use crate::common::read_fixture;

const VF_FONT: &str = "tests/fonts/opentype/NotoSans-VF.abc.ttf";

// ---------------------------------------------------------------------------------------------
// Child process plumbing
// ---------------------------------------------------------------------------------------------

#[derive(Debug, PartialEq)]
enum Outcome {
    /// The child test process exited by itself with this exit code
    Exited(i32),
    /// The child test process was killed by this signal (6 = SIGABRT, 11 = SIGSEGV)
    Signaled(i32),
    /// The child test process was still running after the time limit and was killed
    TimedOut,
}

fn is_child() -> bool {
    std::env::var_os("VERIF_REC_CHILD").is_some()
}

/// Re-run the test called `test_name` of this test binary in a child process.
fn run_in_child(test_name: &str, limit: Duration) -> (Outcome, String) {
    use std::os::unix::process::ExitStatusExt;

    let exe = std::env::current_exe().expect("current_exe");
    let mut child = Command::new(exe)
        .args([test_name, "--exact", "--nocapture", "--test-threads=1"])
        .env("VERIF_REC_CHILD", "1")
        .stdin(Stdio::null())
        .stdout(Stdio::piped())
        .stderr(Stdio::piped())
        .spawn()
        .expect("unable to spawn child");

    let start = Instant::now();
    let outcome = loop {
        match child.try_wait().expect("try_wait") {
            Some(status) => match (status.code(), status.signal()) {
                (Some(code), _) => break Outcome::Exited(code),
                (None, Some(signal)) => break Outcome::Signaled(signal),
                (None, None) => unreachable!(),
            },
            None if start.elapsed() > limit => {
                child.kill().expect("kill");
                child.wait().expect("wait");
                break Outcome::TimedOut;
            }
            None => std::thread::sleep(Duration::from_millis(20)),
        }
    };

    // The output of the child is small (well under the pipe buffer size) so it is fine to only
    // read it after the child has gone.
    let mut output = String::new();
    let mut buf = Vec::new();
    child.stdout.take().unwrap().read_to_end(&mut buf).unwrap();
    output.push_str(&String::from_utf8_lossy(&buf));
    buf.clear();
    child.stderr.take().unwrap().read_to_end(&mut buf).unwrap();
    output.push_str(&String::from_utf8_lossy(&buf));
    (outcome, output)
}

/// Run `body` in a child process and require that it returned normally.
fn assert_returns_in_child(test_name: &str, body: impl FnOnce()) {
    if is_child() {
        body();
        return;
    }
    let (outcome, output) = run_in_child(test_name, Duration::from_secs(20));
    eprintln!("[{}] child outcome: {:?}", test_name, outcome);
    for line in output.lines().filter(|line| {
        line.contains("overflowed") || line.contains("panicked") || line.contains("RESULT")
    }) {
        eprintln!("[{}] child: {}", test_name, line);
    }
    assert_eq!(
        outcome,
        Outcome::Exited(0),
        "{}: the call did not return normally",
        test_name
    );
}

// ---------------------------------------------------------------------------------------------
// Font patching helpers
// ---------------------------------------------------------------------------------------------

fn be16(data: &[u8], offset: usize) -> u16 {
    u16::from_be_bytes([data[offset], data[offset + 1]])
}

fn be32(data: &[u8], offset: usize) -> u32 {
    u32::from_be_bytes([
        data[offset],
        data[offset + 1],
        data[offset + 2],
        data[offset + 3],
    ])
}

/// The tables of a (non-collection) sfnt file as `(tag, data)`, in table directory order.
fn sfnt_tables(font: &[u8]) -> Vec<(u32, Vec<u8>)> {
    let num_tables = usize::from(be16(font, 4));
    (0..num_tables)
        .map(|i| {
            let record = 12 + i * 16;
            let tag = be32(font, record);
            let offset = be32(font, record + 8) as usize;
            let length = be32(font, record + 12) as usize;
            (tag, font[offset..offset + length].to_vec())
        })
        .collect()
}

/// Assemble an sfnt file from tables. Checksums are left as zero, the reader does not verify them.
fn build_sfnt(orig: &[u8], tables: &[(u32, Vec<u8>)]) -> Vec<u8> {
    let mut out = orig[..12].to_vec(); // sfnt version, numTables, searchRange, ...
    assert_eq!(usize::from(be16(orig, 4)), tables.len());
    let mut offset = 12 + tables.len() * 16;
    let mut body = Vec::new();
    for (tag, data) in tables {
        out.extend_from_slice(&tag.to_be_bytes());
        out.extend_from_slice(&0u32.to_be_bytes()); // checksum
        out.extend_from_slice(&(offset as u32).to_be_bytes());
        out.extend_from_slice(&(data.len() as u32).to_be_bytes());
        body.extend_from_slice(data);
        offset += data.len();
        while offset % 4 != 0 {
            body.push(0);
            offset += 1;
        }
    }
    out.extend_from_slice(&body);
    out
}

fn replace_table(tables: &mut [(u32, Vec<u8>)], tag: u32, data: Vec<u8>) {
    let entry = tables
        .iter_mut()
        .find(|(table_tag, _)| *table_tag == tag)
        .expect("table to replace is missing");
    entry.1 = data;
}

/// A composite glyph with a single component, `component`, at offset (0, 0).
fn composite_glyph(component: u16) -> Vec<u8> {
    let mut glyph = Vec::new();
    glyph.extend_from_slice(&(-1i16).to_be_bytes()); // numberOfContours
    for _ in 0..4 {
        glyph.extend_from_slice(&0i16.to_be_bytes()); // xMin, yMin, xMax, yMax
    }
    // ARG_1_AND_2_ARE_WORDS | ARGS_ARE_XY_VALUES, no MORE_COMPONENTS
    glyph.extend_from_slice(&0x0003u16.to_be_bytes());
    glyph.extend_from_slice(&component.to_be_bytes());
    glyph.extend_from_slice(&0i16.to_be_bytes()); // argument1
    glyph.extend_from_slice(&0i16.to_be_bytes()); // argument2
    glyph
}

/// Take NotoSans-VF.abc.ttf (4 glyphs: .notdef, a, b, c; short `loca`) and replace glyphs 1-3
/// with composite glyphs referencing `components[0..3]`. `gvar` is replaced with one that has no
/// variation data for any glyph (the existing data is for the point counts of the simple glyphs).
fn font_with_composites(components: [u16; 3]) -> Vec<u8> {
    let orig = read_fixture(VF_FONT);
    let mut tables = sfnt_tables(&orig);
    let table = |tag: u32| -> &Vec<u8> { &tables.iter().find(|(t, _)| *t == tag).unwrap().1 };

    let head = table(tag::HEAD);
    assert_eq!(be16(head, 50), 0, "expected short loca offsets");
    let loca = table(tag::LOCA);
    let num_glyphs = loca.len() / 2 - 1;
    assert_eq!(num_glyphs, 4);
    let glyf = table(tag::GLYF);
    let notdef = glyf[usize::from(be16(loca, 0)) * 2..usize::from(be16(loca, 2)) * 2].to_vec();

    let mut new_glyf = Vec::new();
    let mut new_loca = Vec::new();
    let mut glyphs = vec![notdef];
    glyphs.extend(components.iter().map(|&component| composite_glyph(component)));
    for glyph in glyphs {
        new_loca.extend_from_slice(&u16::try_from(new_glyf.len() / 2).unwrap().to_be_bytes());
        new_glyf.extend_from_slice(&glyph);
        while new_glyf.len() % 4 != 0 {
            new_glyf.push(0);
        }
    }
    new_loca.extend_from_slice(&u16::try_from(new_glyf.len() / 2).unwrap().to_be_bytes());

    let axis_count = be16(table(tag::FVAR), 8);
    let mut new_gvar = Vec::new();
    new_gvar.extend_from_slice(&1u16.to_be_bytes()); // majorVersion
    new_gvar.extend_from_slice(&0u16.to_be_bytes()); // minorVersion
    new_gvar.extend_from_slice(&axis_count.to_be_bytes());
    new_gvar.extend_from_slice(&0u16.to_be_bytes()); // sharedTupleCount
    let header_len = 20 + (num_glyphs + 1) * 2;
    new_gvar.extend_from_slice(&(header_len as u32).to_be_bytes()); // sharedTuplesOffset
    new_gvar.extend_from_slice(&(num_glyphs as u16).to_be_bytes()); // glyphCount
    new_gvar.extend_from_slice(&0u16.to_be_bytes()); // flags: short offsets
    new_gvar.extend_from_slice(&(header_len as u32).to_be_bytes()); // glyphVariationDataArrayOffset
    for _ in 0..=num_glyphs {
        new_gvar.extend_from_slice(&0u16.to_be_bytes());
    }

    replace_table(&mut tables, tag::GLYF, new_glyf);
    replace_table(&mut tables, tag::LOCA, new_loca);
    replace_table(&mut tables, tag::GVAR, new_gvar);
    build_sfnt(&orig, &tables)
}

/// NotoSans-VF.abc.ttf with minValue and maxValue of the first axis (wght: 100/400/900) swapped.
fn font_with_min_gt_max() -> Vec<u8> {
    let orig = read_fixture(VF_FONT);
    let mut tables = sfnt_tables(&orig);
    let mut fvar = tables
        .iter()
        .find(|(t, _)| *t == tag::FVAR)
        .unwrap()
        .1
        .clone();
    let axes = usize::from(be16(&fvar, 4)); // axesArrayOffset
    let min: [u8; 4] = <[u8; 4]>::try_from(&fvar[axes + 4..axes + 8]).unwrap();
    let max: [u8; 4] = <[u8; 4]>::try_from(&fvar[axes + 12..axes + 16]).unwrap();
    assert_eq!(i32::from_be_bytes(min), 100 << 16);
    assert_eq!(i32::from_be_bytes(max), 900 << 16);
    fvar[axes + 4..axes + 8].copy_from_slice(&max);
    fvar[axes + 12..axes + 16].copy_from_slice(&min);
    replace_table(&mut tables, tag::FVAR, fvar);
    build_sfnt(&orig, &tables)
}

/// Check that the font is accepted by the normal loading path.
fn assert_loadable(font: &[u8]) {
    let font_file = ReadScope::new(font)
        .read::<FontData<'_>>()
        .expect("crafted font does not parse");
    let provider = font_file.table_provider(0).expect("table provider");
    Font::new(provider).expect("Font::new rejects the crafted font");
}

fn user_instance() -> [Fixed; 3] {
    // Display SemiCondensed Thin: wght, wdth, CTGR
    [Fixed::from(100.0), Fixed::from(87.5), Fixed::from(100.0)]
}

fn run_instance(font: &[u8]) {
    let font_file = ReadScope::new(font).read::<FontData<'_>>().unwrap();
    let provider = font_file.table_provider(0).unwrap();
    let result = allsorts::variations::instance(&provider, &user_instance());
    match result {
        Ok((data, _tuple)) => println!("RESULT instance: Ok({} bytes)", data.len()),
        Err(err) => println!("RESULT instance: Err({})", err),
    }
}

// ---------------------------------------------------------------------------------------------
// F2 / F13
// ---------------------------------------------------------------------------------------------

/// Control: the unpatched font and a font with acyclic composites (1 -> 2 -> 3 -> 0) instance
/// without incident. All records are parsed by the first loop of `apply_gvar` before
/// `calculate_bounding_box` runs, so `panic!("glyph is not parsed")` (F13) is not hit.
#[test]
fn f13_composites_do_not_hit_glyph_is_not_parsed() {
    assert_returns_in_child("f13_composites_do_not_hit_glyph_is_not_parsed", || {
        run_instance(&read_fixture(VF_FONT));
        let font = font_with_composites([2, 3, 0]);
        assert_loadable(&font);
        run_instance(&font);
    });
}

/// Control: a cycle through the root glyph (1 -> 1) is cut by the empty placeholder that
/// `apply_gvar` swaps in for the glyph being processed.
#[test]
fn f2_control_self_reference_terminates() {
    assert_returns_in_child("f2_control_self_reference_terminates", || {
        // 1 -> 1, 2 -> 0, 3 -> 0
        let font = font_with_composites([1, 0, 0]);
        assert_loadable(&font);
        run_instance(&font);
    });
}

/// F2: glyph 1 -> 2, 2 -> 3, 3 -> 2. Processing glyph 1 descends 2 -> 3 -> 2 -> 3 ... without
/// bound.
#[test]
fn f2_composite_cycle_not_through_root() {
    assert_returns_in_child("f2_composite_cycle_not_through_root", || {
        let font = font_with_composites([2, 3, 2]);
        assert_loadable(&font);
        run_instance(&font);
    });
}

/// F2: the smallest variant, glyph 1 -> 2, 2 -> 2. Glyph 2 on its own is fine (it is the emptied
/// root when it is processed) but reached from glyph 1 it recurses without bound.
#[test]
fn f2_self_reference_reached_from_other_glyph() {
    assert_returns_in_child("f2_self_reference_reached_from_other_glyph", || {
        let font = font_with_composites([2, 2, 0]);
        assert_loadable(&font);
        run_instance(&font);
    });
}

// ---------------------------------------------------------------------------------------------
// F3
// ---------------------------------------------------------------------------------------------

fn raw_glyph(ch: char, glyph_index: u16) -> RawGlyph<()> {
    RawGlyph {
        unicodes: tiny_vec![[char; 1] => ch],
        glyph_index,
        liga_component_pos: 0,
        glyph_origin: GlyphOrigin::Char(ch),
        flags: RawGlyphFlags::empty(),
        variation: None,
        extra_data: (),
    }
}

fn run_cursive(links: &[usize], rtl_flag: bool) {
    let data = read_fixture(VF_FONT);
    let font_file = ReadScope::new(&data).read::<FontData<'_>>().unwrap();
    let provider = font_file.table_provider(0).unwrap();
    let mut font = Font::new(provider).unwrap();

    let glyphs = links
        .iter()
        .enumerate()
        .map(|(i, _)| raw_glyph('a', 1 + (i % 3) as u16))
        .collect();
    // `Info` has a private field so it is constructed with the public constructor; all the
    // fields that matter here (`placement`) are public.
    let mut infos = Info::init_from_glyphs(None, glyphs);
    let anchor = Anchor { x: 0, y: 0 };
    for (info, link) in infos.iter_mut().zip(links.iter().copied()) {
        info.placement = Placement::CursiveAnchor(link, rtl_flag, anchor, anchor);
    }

    let mut layout = GlyphLayout::new(&mut font, &infos, TextDirection::LeftToRight, false);
    match layout.glyph_positions() {
        Ok(positions) => println!("RESULT glyph_positions: Ok({} positions)", positions.len()),
        Err(err) => println!("RESULT glyph_positions: Err({})", err),
    }
}

/// F3: two glyphs cursively attached to each other, RIGHT_TO_LEFT lookup flag set
#[test]
fn f3_cursive_cycle_rtl_flag() {
    assert_returns_in_child("f3_cursive_cycle_rtl_flag", || run_cursive(&[1, 0], true));
}

/// F3: two glyphs cursively attached to each other, RIGHT_TO_LEFT lookup flag clear
#[test]
fn f3_cursive_cycle_no_rtl_flag() {
    assert_returns_in_child("f3_cursive_cycle_no_rtl_flag", || {
        run_cursive(&[1, 0], false)
    });
}

/// F3: a single glyph cursively attached to itself
#[test]
fn f3_cursive_self_link() {
    assert_returns_in_child("f3_cursive_self_link", || run_cursive(&[0], true));
}

/// F3: out of range links are validated away (control)
#[test]
fn f3_control_out_of_range_link_is_rejected() {
    assert_returns_in_child("f3_control_out_of_range_link_is_rejected", || {
        run_cursive(&[2, 0], true)
    });
}

/// F3: runs produced by `Font::shape` only ever link a glyph to a later glyph, so they are acyclic
#[test]
fn f3_shaped_runs_only_link_forwards() {
    let data = read_fixture("tests/fonts/arabic/NafeesNastaleeq.ttf");
    let font_file = ReadScope::new(&data).read::<FontData<'_>>().unwrap();
    let provider = font_file.table_provider(0).unwrap();
    let mut font = Font::new(provider).unwrap();
    let script = tag::ARAB;
    let lang = tag::from_string("URD ").unwrap();
    let glyphs = font.map_glyphs(
        "لسان لسان لسان",
        script,
        MatchingPresentation::NotRequired,
    );
    let infos = font
        .shape(
            glyphs,
            script,
            Some(lang),
            &Features::Mask(FeatureMask::default()),
            None,
            true,
        )
        .map_err(|(err, _infos)| err)
        .unwrap();
    let mut cursive = 0;
    for (i, info) in infos.iter().enumerate() {
        if let Placement::CursiveAnchor(exit_glyph_index, _, _, _) = info.placement {
            cursive += 1;
            assert!(exit_glyph_index > i, "backwards link {} -> {}", i, exit_glyph_index);
        }
    }
    assert!(cursive > 0, "expected some cursive attachments");
    let mut layout = GlyphLayout::new(&mut font, &infos, TextDirection::RightToLeft, false);
    layout.glyph_positions().unwrap();
}

// ---------------------------------------------------------------------------------------------
// F10
// ---------------------------------------------------------------------------------------------

/// F10: `FvarTable::normalize` with an axis that has minValue (900) > maxValue (100)
#[test]
fn f10_normalize_min_greater_than_max() {
    let font = font_with_min_gt_max();
    assert_loadable(&font);
    let font_file = ReadScope::new(&font).read::<FontData<'_>>().unwrap();
    let provider = font_file.table_provider(0).unwrap();
    let fvar_data = provider.read_table_data(tag::FVAR).unwrap();
    let fvar = ReadScope::new(&fvar_data).read::<FvarTable<'_>>().unwrap();
    let axis = fvar.axes().next().unwrap();
    assert!(axis.min_value > axis.max_value);

    for wght in [50.0f32, 100.0, 400.0, 650.0, 900.0, 1000.0] {
        let user_tuple = [Fixed::from(wght), Fixed::from(87.5), Fixed::from(100.0)];
        let result = fvar.normalize(user_tuple.iter().copied(), None);
        println!("RESULT normalize wght={}: {:?}", wght, result);
        if let Ok(tuple) = result {
            assert!(tuple.iter().all(|value| (-1.0..=1.0).contains(&f32::from(*value))));
        }
    }
}

/// F10: the same through `variations::instance`
#[test]
fn f10_instance_min_greater_than_max() {
    let font = font_with_min_gt_max();
    assert_loadable(&font);
    run_instance(&font);
}
