"""RefCell typestate (rule C02-b): no borrow of a RefCell field may be attempted while a conflicting
guard of the same field is alive.

* borrow sites: calls to RefCell::borrow / borrow_mut / try_borrow* whose receiver is `&<base>.<field>`;
  the cell is named by its field name and the ADT that declares it;
* a guard lives from its borrow call until the `drop` of the local that holds it (MIR has explicit
  drops; temporaries are dropped where MIR puts them). A guard that is moved into another local is
  followed; a guard that escapes (returned, stored) is alive to the end of the function;
* per function an effect summary: the cells it (transitively, through resolved calls and the
  closures it defines) borrows, shared or mutably;
* inside the live range of a `mut` guard on cell c no call may have c in its summary; inside the live
  range of a shared guard on c no call may have (c, mut) in its summary; a direct second borrow in
  the range is checked the same way.
"""
import sym
from facts import callee_is

BORROW_FNS = {
    "std::cell::RefCell::<T>::borrow": False, "std::cell::RefCell::<T>::borrow_mut": True,
    "std::cell::RefCell::<T>::try_borrow": False, "std::cell::RefCell::<T>::try_borrow_mut": True,
}


def cell_of(b, prov, t):
    """name of the RefCell a borrow call acts on: '<declaring type>.<field>' or None"""
    recv = sym.strip(prov.op(t["args"][0]))
    while recv[0] in ("ref", "deref"):
        recv = sym.strip(recv[1])
    # Rc<LayoutCacheData>: cache.field goes through Deref::deref(&cache)
    if recv[0] == "field" and isinstance(recv[2], str):
        return recv[2]
    return None


class Borrows:
    """effect summaries over the per-instance call graph (monomorphised, so trait calls and closures
    passed to std combinators are resolved): effect (cell, mut) -> set of instance nodes that can
    reach a body performing that borrow"""

    def __init__(self, fx):
        self.fx = fx
        self.sites = {}      # dp -> list of (bb, term, cell, mut)
        direct = {}          # dp -> set((cell, mut))
        for b in fx.bodies:
            prov = None
            ds, ss = set(), []
            for bi, t in b.calls():
                p = t["callee"].get("path") or ""
                if p in BORROW_FNS:
                    if prov is None:
                        prov = sym.Prov(b)
                    cell = cell_of(b, prov, t) or "?"
                    ds.add((cell, BORROW_FNS[p]))
                    ss.append((bi, t, cell, BORROW_FNS[p]))
            direct[b.dp] = ds
            self.sites[b.dp] = ss
        nodes = fx.nodes
        radj = [[] for _ in nodes]
        for n in nodes:
            for e in n["edges"]:
                radj[e[0]].append(n["id"])
        self.reach = {}      # effect -> set(node ids) that may perform it (transitively)
        effects = set()
        for ds in direct.values():
            effects |= ds
        by_dp = fx.nodes_by_dp()
        for eff in effects:
            seen = set()
            st = []
            for dp, ds in direct.items():
                if eff in ds:
                    st.extend(by_dp.get(dp, []))
            while st:
                v = st.pop()
                if v in seen:
                    continue
                seen.add(v)
                st.extend(radj[v])
            self.reach[eff] = seen
        self.direct = direct

    def call_summary(self, b, bb, t):
        """effects a call terminator at block bb of body b may have, joined over all instances of b"""
        c = t["callee"]
        p = c.get("path") or ""
        if p in BORROW_FNS:
            prov = sym.Prov(b)
            return {(cell_of(b, prov, t) or "?", BORROW_FNS[p])}
        out = set()
        targets = set()
        for nid in self.fx.nodes_by_dp().get(b.dp, []):
            for e in self.fx.nodes[nid]["edges"]:
                if e[1] == bb:
                    targets.add(e[0])
        for eff, ns in self.reach.items():
            if targets & ns:
                out.add(eff)
        return out

    def live_range(self, b, bb, t):
        """blocks (and for the first/last block, positions) in which the guard produced by the borrow call at
        bb is alive: returns (set of blocks fully or partly in range, escapes?)"""
        if t["dest"]["p"] or t.get("target") is None:
            return set(), True
        holders = {t["dest"]["l"]}
        # follow moves of the guard into other locals (and Result/Option payload extraction for try_borrow)
        changed = True
        escapes = False
        while changed:
            changed = False
            for bi, blk in enumerate(b.blocks):
                for s in blk["s"]:
                    if s["k"] != "assign":
                        continue
                    rv = s["rv"]
                    src = rv.get("op") if rv["k"] in ("use", "cast") else None
                    if src and src["k"] == "move" and src["p"]["l"] in holders:
                        if s["p"]["p"] or s["p"]["l"] == 0:
                            escapes = True
                        elif s["p"]["l"] not in holders:
                            holders.add(s["p"]["l"])
                            changed = True
                    if rv["k"] == "agg":
                        for f in rv["fields"]:
                            if f["k"] == "move" and f["p"]["l"] in holders:
                                escapes = True
        live = set()
        st = [t["target"]]
        while st:
            n = st.pop()
            if n in live:
                continue
            live.add(n)
            tt = b.term(n)
            if tt["k"] == "drop" and tt["p"]["l"] in holders and not tt["p"]["p"]:
                continue  # the guard dies here
            if tt["k"] == "call":
                # the guard is consumed when moved into a call (e.g. drop(guard), Ref::map)
                if any(a["k"] == "move" and a["p"]["l"] in holders and not a["p"]["p"] for a in tt["args"]):
                    if callee_is(tt, "std::mem::drop"):
                        continue
                    escapes = True
            st.extend(b.succs(n))
        return live, escapes


def rule_borrows(run, fx, rule="C02-b", floors=True, floor_n=40):
    run.rule(rule, "RefCell typestate: while a guard returned by borrow()/borrow_mut() of a cell is alive (until the drop of its holder), no call whose "
                   "transitive effect summary contains a conflicting borrow of the same cell is made; cells are named by field")
    B = Borrows(fx)
    n = 0
    for b in fx.bodies:
        for (bb, t, cell, mut) in B.sites.get(b.dp, []):
            n += 1
            live, escapes = B.live_range(b, bb, t)
            key = "borrow|%s|%s|%s" % (b.root, cell, "mut" if mut else "shared")
            if cell == "?":
                run.fail(rule, key, "cannot name the RefCell this borrow acts on (receiver is not a field)", b.loc(t), ledger="borrows")
                continue
            if escapes:
                run.fail(rule, key + "|escapes", "the guard escapes its function (returned, stored or passed on): its live range is not bounded here", b.loc(t), ledger="borrows")
                continue
            conflicts = []
            for lb in sorted(live):
                tt = b.term(lb)
                if tt["k"] != "call":
                    continue
                if tt is t:
                    continue
                # the block where the guard dies through a drop terminator has no call terminator; fine
                for (c2, m2) in B.call_summary(b, lb, tt):
                    if c2 == cell and (mut or m2):
                        conflicts.append((lb, tt, m2))
            if conflicts:
                lb, tt, m2 = conflicts[0]
                run.fail(rule, key + "|conflict:" + (tt["callee"].get("path") or "?").split("::")[-1],
                         "while the %s guard on `%s` is alive, %s (at %s) can borrow `%s` %s: BorrowMutError/BorrowError at run time" % (
                             "mutable" if mut else "shared", cell, tt["callee"].get("rpath") or tt["callee"].get("path"), b.loc(tt), cell, "mutably" if m2 else "shared"),
                         b.loc(t), ledger="borrows")
            else:
                run.ok(rule, "%s: %s guard on `%s` alive over %d block(s), no conflicting borrow reachable" % (b.path, "mut" if mut else "shared", cell, len(live)))
    if floors:
        run.floor(rule, "RefCell borrow sites", n, floor_n)
    return n
