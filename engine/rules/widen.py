"""Rule C01-w: no arithmetic in a narrow integer type immediately before widening. `(a op b) as wider`
or `wider::from(a op b)` with op in {+, -, *, <<, saturating_*, wrapping_*, checked_*} computed in
u8/u16/u32/i8/i16/i32 wraps, saturates or panics in the narrow type although the author evidently
needs the wide value; the robust form widens first. Each site is audited (ledger/widen.jsonl: why the
narrow result cannot overflow/underflow) or a violation."""
import re

import sym

BITS = {"u8": 8, "i8": 8, "u16": 16, "i16": 16, "u32": 32, "i32": 32, "u64": 64, "i64": 64, "usize": 64, "isize": 64}


def sites(fx, select=None):
    for b in fx.bodies:
        if b.exp:
            continue
        if select and not select(b):
            continue
        prov = None
        for bi, blk in enumerate(b.blocks):
            if not b.reachable(bi):
                continue
            items = []
            for s in blk["s"]:
                if s["k"] == "assign" and s["rv"]["k"] == "cast" and s["rv"]["kind"] == "IntToInt":
                    f, t = s["rv"]["from"], s["rv"]["to"]
                    if f in BITS and t in BITS and BITS[t] > BITS[f]:
                        items.append((s["rv"]["op"], f, t, s))
            t = blk["t"]
            if t["k"] == "call":
                rp = t["callee"].get("rpath") or ""
                m = re.search(r"impl std::convert::From<(\w+)> for (\w+)>::from$", rp)
                if m and m.group(1) in BITS and m.group(2) in BITS and BITS[m.group(2)] > BITS[m.group(1)]:
                    items.append((t["args"][0], m.group(1), m.group(2), t))
            for op, f, to, item in items:
                if prov is None:
                    prov = sym.Prov(b)
                term = sym.strip(prov.op(op))
                arith = None
                if term[0] == "bin" and term[1].replace("WithOverflow", "") in ("Add", "Sub", "Mul", "Shl"):
                    arith = term[1].replace("WithOverflow", "")
                    # both operands constant: nothing to say
                    if all(sym.strip(x)[0] == "c" for x in (term[2], term[3])):
                        continue
                if term[0] == "call" and re.search(r"::(saturating|wrapping|checked|overflowing)_(add|sub|mul)$", term[1] or ""):
                    arith = term[1].split("::")[-1]
                if arith:
                    yield b, bi, item, f, to, arith


def rule_widen(run, fx, rule="C01-w", floors=True, select=None, floor_n=15):
    run.rule(rule, "arithmetic carried out in a narrow integer type and widened afterwards ((a op b) as wider, wider::from(a op b)) is an "
                   "audited site with the reason why the narrow result cannot wrap (ledger/widen.jsonl), or a violation: the robust form widens first")
    n = 0
    for b, bi, item, f, to, arith in sites(fx, select):
        n += 1
        key = "widen|%s|%s %s->%s" % (b.root, arith, f, to)
        run.fail(rule, key, "%s computed in %s and then widened to %s in %s: it wraps/saturates/panics in the narrow type" % (arith, f, to, b.path), b.loc(item), ledger="widen")
    if floors:
        run.floor(rule, "narrow-arithmetic-then-widen sites", n, floor_n)
    return n
