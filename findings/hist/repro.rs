//! Reproductions for suspected history-dependence / writer defects (F4, F5, F6, F12, F21, F24).
//!
//! Every test asserts the CORRECT behaviour, so each one fails on the unmodified tree and passes
//! once the corresponding fix is applied.

mod common;

use std::borrow::Cow;
use std::collections::HashSet;

use allsorts::binary::read::ReadScope;
use allsorts::binary::write::{WriteBinary, WriteBuffer};
use allsorts::bitmap::BitDepth;
use allsorts::cff::cff2::CFF2;
use allsorts::error::ParseError;
use allsorts::font::{GlyphTableFlags, MatchingPresentation};
use allsorts::font_data::FontData;
use allsorts::gsub::{FeatureMask, Features};
use allsorts::macroman::{char_to_macroman, macroman_to_char};
use allsorts::tables::cmap::{Cmap, CmapSubtable};
use allsorts::tables::variable_fonts::fvar::FvarTable;
use allsorts::tables::variable_fonts::{ItemVariationStore, OwnedTuple};
use allsorts::tables::{Fixed, FontTableProvider, OpenTypeFont};
use allsorts::unicode::VariationSelector;
use allsorts::{tag, Font, DOTTED_CIRCLE};

use crate::common::read_fixture_font;

fn with_font<R>(
    path: &str,
    f: impl FnOnce(Font<allsorts::font_data::DynamicFontTableProvider<'_>>) -> R,
) -> R {
    let buffer = read_fixture_font(path);
    let font_file = ReadScope::new(&buffer).read::<FontData<'_>>().unwrap();
    let provider = font_file.table_provider(0).unwrap();
    f(Font::new(provider).unwrap())
}

// ---------------------------------------------------------------------------------------------
// F5: Font::lookup_glyph_index caches U+25CC keyed by the character only
// ---------------------------------------------------------------------------------------------

const F5_FONT: &str = "noto/NotoSansDevanagari-Regular.ttf";

/// A query must return the same value as on a freshly loaded font, regardless of earlier queries.
#[test]
fn f5_dotted_circle_lookup_is_history_independent() {
    let queries = [
        (
            MatchingPresentation::Required,
            Some(VariationSelector::VS16),
        ),
        (
            MatchingPresentation::Required,
            Some(VariationSelector::VS15),
        ),
        (MatchingPresentation::Required, None),
        (
            MatchingPresentation::NotRequired,
            Some(VariationSelector::VS16),
        ),
        (
            MatchingPresentation::NotRequired,
            Some(VariationSelector::VS15),
        ),
        (MatchingPresentation::NotRequired, None),
    ];

    // Answers from fresh fonts
    let fresh: Vec<_> = queries
        .iter()
        .map(|&(mp, vs)| {
            with_font(F5_FONT, |mut font| {
                font.lookup_glyph_index(DOTTED_CIRCLE, mp, vs)
            })
        })
        .collect();
    // The font has a dotted circle glyph and no colour tables.
    assert_ne!(fresh[5].0, 0);
    assert_eq!(fresh[0], (0, VariationSelector::VS16));

    let mut mismatches = Vec::new();
    for (i, &(mp1, vs1)) in queries.iter().enumerate() {
        for (j, &(mp2, vs2)) in queries.iter().enumerate() {
            let second = with_font(F5_FONT, |mut font| {
                font.lookup_glyph_index(DOTTED_CIRCLE, mp1, vs1);
                font.lookup_glyph_index(DOTTED_CIRCLE, mp2, vs2)
            });
            if second != fresh[j] {
                mismatches.push(format!(
                    "after {:?}: {:?} gave {:?}, fresh font gives {:?}",
                    queries[i], queries[j], second, fresh[j]
                ));
            }
        }
    }
    assert!(
        mismatches.is_empty(),
        "{} history dependent answers:\n{}",
        mismatches.len(),
        mismatches.join("\n")
    );
}

/// Shaping consequence: text containing U+25CC U+FE0F mapped with `MatchingPresentation::Required`
/// poisons the dotted circle that the Indic shaper inserts into broken clusters with glyph 0.
#[test]
fn f5_shaping_dotted_circle_not_poisoned_by_earlier_map_glyphs() {
    fn shape_lone_matra(
        font: &mut Font<allsorts::font_data::DynamicFontTableProvider<'_>>,
    ) -> Vec<u16> {
        // A lone dependent vowel sign: the Indic shaper inserts a dotted circle base
        let glyphs = font.map_glyphs("\u{093F}", tag::DEVA, MatchingPresentation::NotRequired);
        let infos = font
            .shape(
                glyphs,
                tag::DEVA,
                None,
                &Features::Mask(FeatureMask::default()),
                None,
                true,
            )
            .unwrap();
        infos.iter().map(|info| info.glyph.glyph_index).collect()
    }

    let fresh = with_font(F5_FONT, |mut font| shape_lone_matra(&mut font));
    let dotted_circle = with_font(F5_FONT, |mut font| {
        font.lookup_glyph_index(DOTTED_CIRCLE, MatchingPresentation::NotRequired, None)
            .0
    });
    assert!(fresh.contains(&dotted_circle), "{:?}", fresh);

    let after = with_font(F5_FONT, |mut font| {
        // An application asking for emoji presentation of a dotted circle, insisting that the
        // font supports that presentation. Correctly yields glyph 0 (font has no colour tables).
        let glyphs = font.map_glyphs(
            "\u{25CC}\u{FE0F}",
            tag::DEVA,
            MatchingPresentation::Required,
        );
        assert_eq!(glyphs[0].glyph_index, 0);
        shape_lone_matra(&mut font)
    });
    assert_eq!(
        after, fresh,
        "shaping result depends on an earlier map_glyphs call"
    );
}

// ---------------------------------------------------------------------------------------------
// F4: gsub::get_lookups_cache_index ignores the selected FeatureVariations substitution
// ---------------------------------------------------------------------------------------------

/// Table provider that replaces the `GSUB` table of the wrapped provider.
struct WithGsub<P> {
    inner: P,
    gsub: Vec<u8>,
}

impl<P: FontTableProvider> FontTableProvider for WithGsub<P> {
    fn table_data(&self, tag: u32) -> Result<Option<Cow<'_, [u8]>>, ParseError> {
        if tag == tag::GSUB {
            Ok(Some(Cow::Borrowed(&self.gsub)))
        } else {
            self.inner.table_data(tag)
        }
    }

    fn has_table(&self, tag: u32) -> bool {
        tag == tag::GSUB || self.inner.has_table(tag)
    }

    fn table_tags(&self) -> Option<Vec<u32>> {
        self.inner.table_tags()
    }
}

/// GSUB 1.1 with one script (DFLT), one feature (`rvrn`, no lookups by default), one lookup
/// (single substitution `from` -> `from + 1`) and a FeatureVariations table that substitutes
/// the `rvrn` feature table with one that references the lookup when axis 0 is in [0.5, 1.0].
fn gsub_with_rvrn_feature_variations(from: u16) -> Vec<u8> {
    let mut t: Vec<u8> = Vec::new();
    let u16be = |t: &mut Vec<u8>, v: u16| t.extend_from_slice(&v.to_be_bytes());
    let u32be = |t: &mut Vec<u8>, v: u32| t.extend_from_slice(&v.to_be_bytes());

    // Header
    u16be(&mut t, 1); // major
    u16be(&mut t, 1); // minor
    u16be(&mut t, 14); // script list
    u16be(&mut t, 34); // feature list
    u16be(&mut t, 46); // lookup list
    u32be(&mut t, 70); // feature variations
    assert_eq!(t.len(), 14);
    // ScriptList
    u16be(&mut t, 1);
    t.extend_from_slice(b"DFLT");
    u16be(&mut t, 8);
    // Script
    u16be(&mut t, 4); // default lang sys
    u16be(&mut t, 0); // lang sys count
                      // LangSys
    u16be(&mut t, 0); // lookup order
    u16be(&mut t, 0xFFFF); // required feature index
    u16be(&mut t, 1); // feature index count
    u16be(&mut t, 0); // feature 0
    assert_eq!(t.len(), 34);
    // FeatureList
    u16be(&mut t, 1);
    t.extend_from_slice(b"rvrn");
    u16be(&mut t, 8);
    // Feature (default): no lookups
    u16be(&mut t, 0); // feature params
    u16be(&mut t, 0); // lookup index count
    assert_eq!(t.len(), 46);
    // LookupList
    u16be(&mut t, 1);
    u16be(&mut t, 4);
    // Lookup
    u16be(&mut t, 1); // type: single substitution
    u16be(&mut t, 0); // flag
    u16be(&mut t, 1); // sub table count
    u16be(&mut t, 8); // sub table offset
                      // SingleSubstFormat1
    u16be(&mut t, 1);
    u16be(&mut t, 6); // coverage offset
    u16be(&mut t, 1); // delta glyph id
                      // Coverage format 1
    u16be(&mut t, 1);
    u16be(&mut t, 1);
    u16be(&mut t, from);
    assert_eq!(t.len(), 70);
    // FeatureVariations
    u16be(&mut t, 1);
    u16be(&mut t, 0);
    u32be(&mut t, 1); // record count
    u32be(&mut t, 16); // condition set offset
    u32be(&mut t, 30); // feature table substitution offset
                       // ConditionSet
    u16be(&mut t, 1);
    u32be(&mut t, 6);
    // Condition format 1
    u16be(&mut t, 1);
    u16be(&mut t, 0); // axis index
    u16be(&mut t, 0x2000); // min 0.5
    u16be(&mut t, 0x4000); // max 1.0
    assert_eq!(t.len(), 100);
    // FeatureTableSubstitution
    u16be(&mut t, 1);
    u16be(&mut t, 0);
    u16be(&mut t, 1); // substitution count
    u16be(&mut t, 0); // feature index
    u32be(&mut t, 12); // alternate feature table offset
                       // Alternate feature table
    u16be(&mut t, 0); // feature params
    u16be(&mut t, 1); // lookup index count
    u16be(&mut t, 0); // lookup 0
    t
}

#[test]
fn f4_rvrn_lookup_cache_respects_variation_tuple() {
    // Inter has axes wght (100..400..900) and slnt
    let buffer = read_fixture_font("variable/Inter[slnt,wght].abc.ttf");
    let font_file = ReadScope::new(&buffer).read::<FontData<'_>>().unwrap();

    let fvar_data = font_file
        .table_provider(0)
        .unwrap()
        .read_table_data(tag::FVAR)
        .unwrap()
        .into_owned();
    let fvar = ReadScope::new(&fvar_data).read::<FvarTable<'_>>().unwrap();
    let normalize = |wght: f32| -> OwnedTuple {
        fvar.normalize([Fixed::from(wght), Fixed::from(0.0)].iter().copied(), None)
            .unwrap()
    };
    let regular = normalize(400.0);
    let black = normalize(900.0);

    let gid_a = {
        let mut font = Font::new(font_file.table_provider(0).unwrap()).unwrap();
        font.lookup_glyph_index('a', MatchingPresentation::NotRequired, None)
            .0
    };
    assert_ne!(gid_a, 0);

    let new_font = || {
        let provider = WithGsub {
            inner: font_file.table_provider(0).unwrap(),
            gsub: gsub_with_rvrn_feature_variations(gid_a),
        };
        let mut font = Font::new(provider).unwrap();
        assert!(font
            .gsub_cache()
            .unwrap()
            .unwrap()
            .layout_table
            .opt_feature_variations
            .is_some());
        font
    };
    fn shape_a<P: FontTableProvider>(font: &mut Font<P>, tuple: &OwnedTuple) -> Vec<u16> {
        let glyphs = font.map_glyphs("a", tag::LATN, MatchingPresentation::NotRequired);
        font.shape(
            glyphs,
            tag::LATN,
            None,
            &Features::Mask(FeatureMask::default()),
            Some(tuple.as_tuple()),
            true,
        )
        .unwrap()
        .iter()
        .map(|info| info.glyph.glyph_index)
        .collect()
    }

    // Fresh fonts: rvrn substitutes a -> b only at the heavy end of the weight axis
    let fresh_regular = shape_a(&mut new_font(), &regular);
    let fresh_black = shape_a(&mut new_font(), &black);
    assert_eq!(fresh_regular, vec![gid_a]);
    assert_eq!(fresh_black, vec![gid_a + 1]);

    // regular then black on one font
    let mut font = new_font();
    let first = shape_a(&mut font, &regular);
    let second = shape_a(&mut font, &black);
    let regular_then_black = (first == fresh_regular, second == fresh_black);

    // black then regular on one font
    let mut font = new_font();
    let first = shape_a(&mut font, &black);
    let second = shape_a(&mut font, &regular);
    let black_then_regular = (first == fresh_black, second == fresh_regular);

    assert_eq!(
        (regular_then_black, black_then_regular),
        ((true, true), (true, true)),
        "(first matches fresh, second matches fresh) for [regular, black] and [black, regular]"
    );
}

// ---------------------------------------------------------------------------------------------
// F6: Font::embedded_images is loaded once; later set_embedded_image_filter calls are ignored
// ---------------------------------------------------------------------------------------------

#[test]
fn f6_embedded_image_filter_applies_after_first_image_lookup() {
    let path = "sbix/sbix-dupe.ttf";
    let no_sbix = GlyphTableFlags::SVG | GlyphTableFlags::CBDT;

    // Fresh font with the filter set first
    let (fresh_has, fresh_image) = with_font(path, |mut font| {
        font.set_embedded_image_filter(no_sbix);
        (
            font.has_embedded_images(),
            font.lookup_glyph_image(1, 100, BitDepth::ThirtyTwo)
                .unwrap()
                .is_some(),
        )
    });
    assert_eq!((fresh_has, fresh_image), (false, false));

    // Same filter, but set after an image query was made
    let (has, image) = with_font(path, |mut font| {
        assert!(font.has_embedded_images());
        font.set_embedded_image_filter(no_sbix);
        (
            font.has_embedded_images(),
            font.lookup_glyph_image(1, 100, BitDepth::ThirtyTwo)
                .unwrap()
                .is_some(),
        )
    });
    assert_eq!((has, image), (fresh_has, fresh_image));
}

// ---------------------------------------------------------------------------------------------
// F21: ItemVariationStore writer output can't be read by ItemVariationStore reader
// ---------------------------------------------------------------------------------------------

fn describe_store(store: &ItemVariationStore<'_>) -> Vec<String> {
    let mut out = vec![format!(
        "regions={} data={}",
        store.variation_region_list.variation_regions.len(),
        store.item_variation_data.len()
    )];
    for i in 0..store.item_variation_data.len() as u16 {
        let regions = store
            .regions(i)
            .unwrap()
            .map(|r| format!("{:?}", r.unwrap()))
            .collect::<Vec<_>>();
        out.push(regions.join(";"));
    }
    out
}

#[test]
fn f21_item_variation_store_round_trip() {
    let buffer = read_fixture_font("opentype/NotoSans-VF.abc.ttf");
    let font_file = ReadScope::new(&buffer).read::<OpenTypeFont<'_>>().unwrap();
    let provider = font_file.table_provider(0).unwrap();
    for table in [tag::HVAR, tag::MVAR] {
        let data = provider.read_table_data(table).unwrap();
        let scope = ReadScope::new(&data);
        // HVAR: major, minor, Offset32 store. MVAR: major, minor, reserved, valueRecordSize,
        // valueRecordCount, Offset16 store
        let offset = if table == tag::HVAR {
            scope.offset(4).ctxt().read_u32be().unwrap() as usize
        } else {
            usize::from(scope.offset(10).ctxt().read_u16be().unwrap())
        };
        let store = scope
            .offset(offset)
            .read::<ItemVariationStore<'_>>()
            .unwrap();

        let mut out = WriteBuffer::new();
        ItemVariationStore::write(&mut out, &store).unwrap();
        let bytes = out.into_inner();
        let reread = ReadScope::new(&bytes)
            .read::<ItemVariationStore<'_>>()
            .unwrap_or_else(|err| {
                panic!(
                    "{}: unable to read back written ItemVariationStore: {:?}",
                    tag::DisplayTag(table),
                    err
                )
            });
        assert_eq!(describe_store(&reread), describe_store(&store));
    }
}

fn read_source_sans_variable_cff2(f: impl FnOnce(CFF2<'_>)) {
    let buffer = read_fixture_font("opentype/cff2/SourceSansVariable-Roman.abc.otf");
    let font_file = ReadScope::new(&buffer).read::<OpenTypeFont<'_>>().unwrap();
    let provider = font_file.table_provider(0).unwrap();
    let data = provider.read_table_data(tag::CFF2).unwrap();
    let cff2 = ReadScope::new(&data).read::<CFF2<'_>>().unwrap();
    f(cff2)
}

fn local_subr_counts(cff2: &CFF2<'_>) -> Vec<Option<usize>> {
    cff2.fonts
        .iter()
        .map(|font| font.local_subr_index.as_ref().map(|index| index.len()))
        .collect()
}

#[test]
fn f21_variable_cff2_round_trip() {
    read_source_sans_variable_cff2(|cff2| {
        let expected = describe_store(cff2.vstore.as_ref().expect("variable font has a vstore"));
        let expected_glyphs = cff2.char_strings_index.len();
        let expected_subrs = local_subr_counts(&cff2);

        let mut out = WriteBuffer::new();
        CFF2::write(&mut out, cff2).unwrap();
        let bytes = out.into_inner();
        let reread = ReadScope::new(&bytes)
            .read::<CFF2<'_>>()
            .unwrap_or_else(|err| panic!("unable to read back written CFF2 table: {:?}", err));
        let reread_store = reread.vstore.as_ref().expect("vstore after round trip");
        assert_eq!(describe_store(reread_store), expected);
        assert_eq!(reread.char_strings_index.len(), expected_glyphs);
        assert_eq!(local_subr_counts(&reread), expected_subrs);
    });
}

/// Found while working on F21: independent of the variation store, `CFF2::write` puts the Local
/// Subr INDEX before the Private DICT and so writes a negative `Subrs` offset, which the reader
/// rejects. The variation store is dropped here to show this in isolation.
#[test]
fn f21b_cff2_with_local_subrs_round_trip() {
    read_source_sans_variable_cff2(|mut cff2| {
        cff2.vstore = None;
        let expected_subrs = local_subr_counts(&cff2);
        assert_eq!(expected_subrs, vec![Some(37)]);

        let mut out = WriteBuffer::new();
        CFF2::write(&mut out, cff2).unwrap();
        let bytes = out.into_inner();
        let reread = ReadScope::new(&bytes)
            .read::<CFF2<'_>>()
            .unwrap_or_else(|err| panic!("unable to read back written CFF2 table: {:?}", err));
        assert_eq!(local_subr_counts(&reread), expected_subrs);
    });
}

// ---------------------------------------------------------------------------------------------
// F12: Mac Roman (format 0) cmap in a subset font truncates glyph ids >= 256
// ---------------------------------------------------------------------------------------------

fn unicode_mappings(provider: &impl FontTableProvider) -> Vec<(u32, u16)> {
    let cmap_data = provider.read_table_data(tag::CMAP).unwrap();
    let cmap = ReadScope::new(&cmap_data).read::<Cmap<'_>>().unwrap();
    let mut mappings = Vec::new();
    for record in cmap.encoding_records() {
        let subtable = cmap
            .scope
            .offset(record.offset as usize)
            .read::<CmapSubtable<'_>>()
            .unwrap();
        subtable
            .mappings_fn(|ch, gid| mappings.push((ch, gid)))
            .unwrap();
    }
    mappings
}

#[test]
fn f12_subset_macroman_cmap_with_more_than_256_glyphs() {
    let buffer = read_fixture_font("devanagari/AnnapurnaSIL-Regular.ttf");
    let font_file = ReadScope::new(&buffer).read::<OpenTypeFont<'_>>().unwrap();
    let provider = font_file.table_provider(0).unwrap();
    let mut font = Font::new(font_file.table_provider(0).unwrap()).unwrap();
    let num_glyphs = font.num_glyphs();

    // Glyphs that no cmap sub-table maps to: keeping them adds no characters to the subset cmap
    let mapped: HashSet<u16> = unicode_mappings(&provider)
        .into_iter()
        .map(|(_, gid)| gid)
        .collect();
    let unmapped: Vec<u16> = (1..num_glyphs)
        .filter(|gid| !mapped.contains(gid))
        .collect();
    assert!(
        unmapped.len() >= 256,
        "only {} unmapped glyphs",
        unmapped.len()
    );

    // 'A' is the only retained character and it is Mac Roman, so the subset font gets a format 0
    // Mac Roman cmap. 'A' is placed at new glyph id 257.
    let (gid_a, _) = font.lookup_glyph_index('A', MatchingPresentation::NotRequired, None);
    assert_ne!(gid_a, 0);
    let mut glyph_ids = vec![0];
    glyph_ids.extend_from_slice(&unmapped[..256]);
    glyph_ids.push(gid_a);
    let expected_new_id = 257;

    let subset_buffer = allsorts::subset::subset(&provider, &glyph_ids).unwrap();
    let subset_file = ReadScope::new(&subset_buffer)
        .read::<OpenTypeFont<'_>>()
        .unwrap();
    let mut subset_font = Font::new(subset_file.table_provider(0).unwrap()).unwrap();
    assert!(subset_font.num_glyphs() > 257);
    let (subset_gid_a, _) =
        subset_font.lookup_glyph_index('A', MatchingPresentation::NotRequired, None);

    println!(
        "subset cmap encoding {:?}: 'A' -> glyph {} (expected {})",
        subset_font.cmap_subtable_encoding, subset_gid_a, expected_new_id
    );
    assert_eq!(
        subset_font.horizontal_advance(expected_new_id),
        font.horizontal_advance(gid_a)
    );
    assert_eq!(subset_gid_a, expected_new_id);
}

// ---------------------------------------------------------------------------------------------
// F24: Mac Roman tables are not inverses of each other
// ---------------------------------------------------------------------------------------------

#[test]
fn f24_macroman_round_trip() {
    let mut problems = Vec::new();
    for code in 0..=255u8 {
        match macroman_to_char(code) {
            Some(ch) => {
                if char_to_macroman(ch) != Some(code) {
                    problems.push(format!(
                        "macroman_to_char({}) = {:?} but char_to_macroman({:?}) = {:?}",
                        code,
                        ch,
                        ch,
                        char_to_macroman(ch)
                    ));
                }
            }
            // Codes the table leaves out altogether (maths symbols, Apple logo, ...). These are
            // omitted in both directions, which is consistent.
            None => {}
        }
    }
    // 0xF6 is MODIFIER LETTER CIRCUMFLEX ACCENT in Mac OS Roman, not the ASCII circumflex
    if macroman_to_char(246) != Some('\u{02C6}') {
        problems.push(format!(
            "macroman_to_char(246) = {:?}, expected U+02C6",
            macroman_to_char(246)
        ));
    }
    if char_to_macroman('\u{02C6}') != Some(246) {
        problems.push(format!(
            "char_to_macroman(U+02C6) = {:?}, expected 246",
            char_to_macroman('\u{02C6}')
        ));
    }
    assert_eq!(char_to_macroman('^'), Some(94));
    assert!(problems.is_empty(), "\n{}", problems.join("\n"));
}
