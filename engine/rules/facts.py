"""Fact base wrapper: bodies, CFG, dominators, def/use helpers, instance graph, SCCs."""
import re
from collections import defaultdict


class Body:
    def __init__(self, j):
        self.j = j
        self.path = j["path"]
        self.dp = j["dp"]
        self.root = j["root"]
        self.root_dp = j["root_dp"]
        self.kind = j["kind"]
        self.file = j["file"]
        self.line = j["line"]
        self.blocks = j["blocks"]
        self.locals = j["locals"]
        self.arg_count = j["arg_count"]
        self.exp = j.get("exp", False)
        self.name = j.get("name")
        self._succ = None
        self._pred = None
        self._idom = None
        self._defs = None
        self._rpo = None

    # ---- CFG (normal edges only; unwind/cleanup paths are not success paths) ----
    def term(self, bb):
        return self.blocks[bb]["t"]

    def stmts(self, bb):
        return self.blocks[bb]["s"]

    def succs(self, bb):
        if self._succ is None:
            self._succ = []
            for b in self.blocks:
                t = b["t"]
                k = t["k"]
                if k == "goto":
                    s = [t["target"]]
                elif k == "switch":
                    s = [a[1] for a in t["arms"]] + [t["otherwise"]]
                elif k in ("call", "assert", "drop"):
                    s = [t["target"]] if t.get("target") is not None else []
                else:
                    s = []
                # dedupe, keep order
                seen = []
                for x in s:
                    if x not in seen:
                        seen.append(x)
                self._succ.append(seen)
        return self._succ[bb]

    def preds(self, bb):
        if self._pred is None:
            self._pred = [[] for _ in self.blocks]
            for i in range(len(self.blocks)):
                for s in self.succs(i):
                    self._pred[s].append(i)
        return self._pred[bb]

    def rpo(self):
        if self._rpo is None:
            seen = set()
            order = []
            stack = [(0, iter(self.succs(0)))]
            seen.add(0)
            while stack:
                n, it = stack[-1]
                adv = False
                for s in it:
                    if s not in seen:
                        seen.add(s)
                        stack.append((s, iter(self.succs(s))))
                        adv = True
                        break
                if not adv:
                    order.append(n)
                    stack.pop()
            order.reverse()
            self._rpo = order
        return self._rpo

    def idom(self):
        if self._idom is None:
            rpo = self.rpo()
            idx = {b: i for i, b in enumerate(rpo)}
            idom = {0: 0}

            def inter(a, b):
                while a != b:
                    while idx[a] > idx[b]:
                        a = idom[a]
                    while idx[b] > idx[a]:
                        b = idom[b]
                return a
            changed = True
            while changed:
                changed = False
                for b in rpo[1:]:
                    ps = [p for p in self.preds(b) if p in idom]
                    if not ps:
                        continue
                    new = ps[0]
                    for p in ps[1:]:
                        new = inter(p, new)
                    if idom.get(b) != new:
                        idom[b] = new
                        changed = True
            self._idom = idom
        return self._idom

    def reachable(self, bb):
        return bb in self.idom()

    def dominates(self, a, b):
        """block a dominates block b (reflexive)"""
        idom = self.idom()
        if b not in idom or a not in idom:
            return False
        while True:
            if a == b:
                return True
            if b == 0:
                return False
            b = idom[b]

    def reach_from(self, start, avoid=frozenset()):
        """blocks reachable from start (inclusive) along normal edges without entering `avoid`"""
        seen = set()
        st = [start]
        while st:
            n = st.pop()
            if n in seen or n in avoid:
                continue
            seen.add(n)
            st.extend(self.succs(n))
        return seen

    def return_blocks(self):
        return [i for i, b in enumerate(self.blocks) if b["t"]["k"] == "return" and self.reachable(i)]

    # ---- definitions ----
    def defs(self):
        """local -> list of (bb, idx|'t', kind, payload) for whole-local assignments"""
        if self._defs is None:
            d = defaultdict(list)
            for bi, b in enumerate(self.blocks):
                for si, s in enumerate(b["s"]):
                    if s["k"] == "assign":
                        d[s["p"]["l"]].append((bi, si, "assign" if not s["p"]["p"] else "partial", s))
                    elif s["k"] == "setdiscr":
                        d[s["p"]["l"]].append((bi, si, "partial", s))
                t = b["t"]
                if t["k"] == "call":
                    d[t["dest"]["l"]].append((bi, "t", "call" if not t["dest"]["p"] else "partial", t))
            self._defs = d
        return self._defs

    def single_def(self, local):
        ds = [x for x in self.defs().get(local, []) if x[2] in ("assign", "call")]
        allds = self.defs().get(local, [])
        if len(ds) == 1 and len(allds) == 1:
            return ds[0]
        return None

    def calls(self):
        for bi, b in enumerate(self.blocks):
            t = b["t"]
            if t["k"] == "call" and self.reachable(bi):
                yield bi, t

    def local_ty(self, l):
        return self.locals[l]["ty"]

    def local_name(self, l):
        return self.locals[l].get("name")

    def loc(self, item):
        return "%s:%s" % (item.get("file", self.file), item.get("line", self.line))

    def ssa_version(self, local, bb, idx):
        """SSA-style name of the value of `local` read just before statement idx ('t' = terminator) of
        block bb: ('d', bb, idx) for a whole-local definition, ('phi', bb) where different versions
        merge, ('entry',) for the value on function entry. Partial writes (field stores, &mut borrows
        handed to calls are not tracked) give ('p', bb, idx). Two reads with the same name, one
        dominating the other, see the same value."""
        if not hasattr(self, "_ssa"):
            self._ssa = {}
        if local not in self._ssa:
            defs = {}
            for (dbb, didx, kind, item) in self.defs().get(local, []):
                defs.setdefault(dbb, []).append((10 ** 9 if didx == "t" else didx, didx, kind))
            for k in defs:
                defs[k].sort()
            # does anything take a mutable reference to the local? then versions are unreliable
            mutref = False
            for bi, blk in enumerate(self.blocks):
                for s in blk["s"]:
                    if s["k"] == "assign" and s["rv"]["k"] in ("ref", "rawptr") and s["rv"].get("mut", True) and s["rv"]["p"]["l"] == local and not any(e == "*" for e in s["rv"]["p"]["p"]):
                        mutref = True
            inn = {0: ("entry",)}
            out = {}

            def transfer(bi, v):
                for pos, didx, kind in defs.get(bi, []):
                    v = ("d", bi, str(didx)) if kind in ("assign", "call") else ("p", bi, str(didx))
                return v
            changed = True
            rpo = self.rpo()
            while changed:
                changed = False
                for bi in rpo:
                    if bi != 0:
                        vs = {out[p] for p in self.preds(bi) if p in out}
                        if not vs:
                            continue
                        v = vs.pop() if len(vs) == 1 else ("phi", bi)
                        if inn.get(bi) != v:
                            # once a block is a phi it stays one
                            if inn.get(bi) == ("phi", bi):
                                v = ("phi", bi)
                            else:
                                inn[bi] = v
                                changed = True
                    o = transfer(bi, inn[bi])
                    if out.get(bi) != o:
                        out[bi] = o
                        changed = True
            self._ssa[local] = (defs, inn, mutref)
        defs, inn, mutref = self._ssa[local]
        if mutref:
            return None
        v = inn.get(bb)
        if v is None:
            return None
        lim = 10 ** 9 if idx == "t" else idx
        for pos, didx, kind in defs.get(bb, []):
            if pos >= lim:
                break
            v = ("d", bb, str(didx)) if kind in ("assign", "call") else ("p", bb, str(didx))
        return v

    def reaching(self, local):
        if not hasattr(self, "_rd"):
            self._rd = {}
        if local not in self._rd:
            self._rd[local] = ReachingDefs(self, local)
        return self._rd[local]


class ReachingDefs:
    """definitions are the entries of body.defs()[local]; whole-local assigns/calls kill, partial
    writes only generate. `entry` (None) stands for the value on function entry (parameter or
    uninitialised)."""

    def __init__(self, body, local):
        self.b = body
        self.local = local
        self.defs = list(body.defs().get(local, []))
        self.by_bb = {}
        for i, d in enumerate(self.defs):
            self.by_bb.setdefault(d[0], []).append((d[1], i, d[2]))
        for k in self.by_bb:
            self.by_bb[k].sort(key=lambda x: (10 ** 9 if x[0] == "t" else x[0]))
        self.inn = None

    def _transfer(self, bb, s):
        for idx, i, kind in self.by_bb.get(bb, []):
            if kind in ("assign", "call"):
                s = {i}
            else:
                s = s | {i}
        return s

    def solve(self):
        if self.inn is not None:
            return
        b = self.b
        inn = {0: {None}}
        work = [0]
        while work:
            bb = work.pop()
            out = self._transfer(bb, set(inn.get(bb, set())))
            for s in b.succs(bb):
                cur = inn.get(s)
                if cur is None:
                    inn[s] = set(out)
                    work.append(s)
                elif not out <= cur:
                    cur |= out
                    work.append(s)
        self.inn = inn

    def at(self, bb, idx):
        """definitions reaching the point just before statement idx ('t' = the terminator) of bb"""
        self.solve()
        s = set(self.inn.get(bb, set()))
        lim = 10 ** 9 if idx == "t" else idx
        for sidx, i, kind in self.by_bb.get(bb, []):
            pos = 10 ** 9 if sidx == "t" else sidx
            if pos >= lim:
                break
            if kind in ("assign", "call"):
                s = {i}
            else:
                s = s | {i}
        return [(None if i is None else self.defs[i]) for i in s]



# ---- operand helpers ----
def op_local(op):
    """local index if the operand is copy/move of a bare local"""
    if op and op["k"] in ("copy", "move") and not op["p"]["p"]:
        return op["p"]["l"]
    return None


def op_place(op):
    if op and op["k"] in ("copy", "move"):
        return op["p"]
    return None


def op_const(op):
    if op and op["k"] == "const":
        return op.get("val")
    return None


def place_str(body, p):
    l = p["l"]
    s = body.local_name(l) or "_%d" % l
    for e in p["p"]:
        if e == "*":
            s = "(*%s)" % s
        elif "f" in e:
            s += "." + (e.get("n") or str(e["f"]))
        elif "i" in e:
            s += "[_%d]" % e["i"]
        elif "d" in e:
            s += " as %s" % (e.get("n") or e["d"])
        elif "ci" in e:
            s += "[%s%d]" % ("-" if e.get("fe") else "", e["ci"])
        else:
            s += "<?>"
    return s


def place_fields(p):
    """field names along a place projection (None for unnamed)"""
    return [e.get("n") for e in p["p"] if isinstance(e, dict) and "f" in e]


def callee_name(t):
    c = t.get("callee", {})
    return c.get("rpath") or c.get("path") or "<indirect>"


def callee_is(t, *suffixes):
    """match the callee by declared path or resolved path suffix"""
    c = t.get("callee", {})
    for p in (c.get("path"), c.get("rpath")):
        if p:
            for s in suffixes:
                if p == s or p.endswith(s):
                    return True
    return False


def strip_generics(path):
    """remove <...> groups from a path (keeps leading <T as Trait>:: heads intact when asked not to)"""
    out = []
    depth = 0
    for ch in path:
        if ch == "<":
            depth += 1
        elif ch == ">":
            depth -= 1
        elif depth == 0:
            out.append(ch)
    return "".join(out).replace("::::", "::")


class Facts:
    def __init__(self, raw):
        self.raw = raw
        self.meta = raw.get("_meta", {})
        self.bodies = [Body(j) for j in raw["bodies"]]
        for b_ in self.bodies:
            b_.fx = self        # lets body-level analyses look up closure bodies
        self.by_dp = {b.dp: b for b in self.bodies}
        self.by_path = defaultdict(list)
        for b in self.bodies:
            self.by_path[b.path].append(b)
        self.tables = raw["tables"]
        self.inst = raw["instances"]
        self.nodes = self.inst["nodes"]
        self._adj = None
        self._nodes_by_dp = None
        self._closures = None

    # ---- lookup ----
    def body(self, path):
        """exactly one body with this pretty path, else None"""
        bs = self.by_path.get(path, [])
        return bs[0] if len(bs) == 1 else None

    def find_bodies(self, regex):
        r = re.compile(regex)
        return [b for b in self.bodies if r.search(b.path)]

    def closures_of(self, root_dp):
        if self._closures is None:
            self._closures = defaultdict(list)
            for b in self.bodies:
                if b.kind == "Closure":
                    self._closures[b.root_dp].append(b)
        return self._closures[root_dp]

    def family(self, body):
        """the body and all closures nested in it (or in its root)"""
        root = self.by_dp.get(body.root_dp, body)
        return [root] + self.closures_of(root.dp)

    def with_helpers(self, body, prefix, limit=6, keep=None):
        """the body, its closures, and the crate-local non-closure functions under `prefix` that it calls (transitively, at most
        `limit` bodies): the private helpers a function delegates part of its work to. A rule that reads "what function F does"
        reads this group, so that extracting a helper out of F does not change the verdict."""
        group, todo = [], [body]
        while todo and len(group) < limit:
            cur = todo.pop(0)
            if cur in group:
                continue
            group.append(cur)
            for fb in self.family(cur):
                for _, t in fb.calls():
                    cp = t["callee"].get("path") or ""
                    if not cp.startswith(prefix) or (keep and not keep(cp)):
                        continue
                    cb = self.body(cp)
                    if cb is not None and cb.kind != "Closure" and cb not in group and cb not in todo:
                        todo.append(cb)
        return group

    def caller_roots(self, body):
        """roots of the crate-local functions that call `body`'s root function, when there are at most two of them (a private helper):
        used to let an audit of a function cover the helpers extracted from it"""
        if getattr(self, "_callers", None) is None:
            m = defaultdict(set)
            for b in self.bodies:
                for _, t in b.calls():
                    cp = t["callee"].get("path")
                    if cp:
                        m[cp].add(b.root)
            self._callers = m
        root = self.by_dp.get(body.root_dp, body)
        cs = {c for c in self._callers.get(root.path, set()) if c != root.root}
        return sorted(cs) if 0 < len(cs) <= 2 else []

    def alt_keys(self, body, key):
        return tuple(key.replace("|%s|" % body.root, "|%s|" % c, 1) for c in self.caller_roots(body) if ("|%s|" % body.root) in key)

    def adt(self, path):
        for a in self.tables["adts"]:
            if a["path"] == path:
                return a
        return None

    def const(self, path):
        for c in self.tables["consts"]:
            if c["path"] == path:
                return c
        return None

    def static(self, path):
        for c in self.tables["statics"]:
            if c["path"] == path:
                return c
        return None

    # ---- instance graph ----
    def adj(self):
        if self._adj is None:
            self._adj = [[(e[0], e[1], e[2]) for e in n["edges"]] for n in self.nodes]
        return self._adj

    def nodes_by_dp(self):
        if self._nodes_by_dp is None:
            d = defaultdict(list)
            for n in self.nodes:
                d[n["dp"]].append(n["id"])
            self._nodes_by_dp = d
        return self._nodes_by_dp

    def sccs(self, node_filter=None):
        """Tarjan over the instance graph (iterative). Returns list of SCCs (lists of node ids)
        that contain a cycle (size > 1 or self-loop)."""
        adj = self.adj()
        n = len(adj)
        index = [None] * n
        low = [0] * n
        on = [False] * n
        stack = []
        out = []
        counter = [0]
        for root in range(n):
            if index[root] is not None:
                continue
            if node_filter and not node_filter(root):
                continue
            work = [(root, 0)]
            while work:
                v, pi = work[-1]
                if pi == 0:
                    index[v] = counter[0]
                    low[v] = counter[0]
                    counter[0] += 1
                    stack.append(v)
                    on[v] = True
                recurse = False
                edges = adj[v]
                while pi < len(edges):
                    w = edges[pi][0]
                    pi += 1
                    if node_filter and not node_filter(w):
                        continue
                    if index[w] is None:
                        work[-1] = (v, pi)
                        work.append((w, 0))
                        recurse = True
                        break
                    elif on[w]:
                        low[v] = min(low[v], index[w])
                if recurse:
                    continue
                work.pop()
                if work:
                    u = work[-1][0]
                    low[u] = min(low[u], low[v])
                if low[v] == index[v]:
                    comp = []
                    while True:
                        w = stack.pop()
                        on[w] = False
                        comp.append(w)
                        if w == v:
                            break
                    if len(comp) > 1 or any(e[0] == v for e in adj[v]):
                        out.append(comp)
        return out

    def reachable_nodes(self, roots, stop=None):
        adj = self.adj()
        seen = set()
        st = list(roots)
        while st:
            v = st.pop()
            if v in seen:
                continue
            seen.add(v)
            if stop and stop(v):
                continue
            for e in adj[v]:
                if e[0] not in seen:
                    st.append(e[0])
        return seen
