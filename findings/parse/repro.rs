//! Reproductions for panics / aborts / hangs on untrusted input.
//!
//! Every test asserts the *desired* behaviour (the operation returns without panicking), so on an
//! unfixed tree a test fails with `DEFECT <id>: panicked: <message>` and passes once the
//! corresponding fix is applied.
//!
//! F18 and F20 can not be observed with `catch_unwind` (allocation failure aborts, the other one
//! never returns) so they re-execute this test binary as a child process with an address space
//! limit and a timeout.

mod common;

use std::convert::TryFrom;
use std::panic::{catch_unwind, AssertUnwindSafe};
use std::process::{Command, Stdio};
use std::time::{Duration, Instant};

use allsorts::binary::read::ReadScope;
use allsorts::cff::cff2::{OutputFormat, CFF2};
use allsorts::cff::{IndexU16, MaybeOwnedIndex, Operator, CFF};
use allsorts::font::MatchingPresentation;
use allsorts::font_data::FontData;
use allsorts::subset::subset;
use allsorts::tables::morx::MorxTable;
use allsorts::tables::variable_fonts::avar::AvarTable;
use allsorts::tables::variable_fonts::fvar::FvarTable;
use allsorts::tables::{Fixed, FontTableProvider, HheaTable, OpenTypeFont};
use allsorts::woff2::Woff2Font;
use allsorts::{tag, Font};

use crate::common::read_fixture;

// ---------------------------------------------------------------------------------------------
// helpers

/// Run `f`, returning the panic message if it panics.
fn try_no_panic<T>(f: impl FnOnce() -> T) -> Result<T, String> {
    catch_unwind(AssertUnwindSafe(f)).map_err(|payload| {
        payload
            .downcast_ref::<String>()
            .cloned()
            .or_else(|| payload.downcast_ref::<&str>().map(|s| s.to_string()))
            .unwrap_or_else(|| String::from("<non-string panic payload>"))
    })
}

/// Run `f`, turning a panic into a test failure that names the defect.
fn no_panic<T>(id: &str, f: impl FnOnce() -> T) -> T {
    match try_no_panic(f) {
        Ok(value) => value,
        Err(msg) => panic!("DEFECT {}: panicked: {}", id, msg),
    }
}

fn be16(data: &[u8], pos: usize) -> u16 {
    u16::from_be_bytes([data[pos], data[pos + 1]])
}

fn be32(data: &[u8], pos: usize) -> u32 {
    u32::from_be_bytes([data[pos], data[pos + 1], data[pos + 2], data[pos + 3]])
}

fn put16(data: &mut [u8], pos: usize, value: u16) {
    data[pos..pos + 2].copy_from_slice(&value.to_be_bytes());
}

fn put32(data: &mut [u8], pos: usize, value: u32) {
    data[pos..pos + 4].copy_from_slice(&value.to_be_bytes());
}

/// Position of the table record, table offset and table length of `tag` in a (non-collection)
/// sfnt file.
fn sfnt_table(data: &[u8], tag: u32) -> (usize, usize, usize) {
    let num_tables = usize::from(be16(data, 4));
    (0..num_tables)
        .map(|i| 12 + 16 * i)
        .find(|&rec| be32(data, rec) == tag)
        .map(|rec| {
            (
                rec,
                be32(data, rec + 8) as usize,
                be32(data, rec + 12) as usize,
            )
        })
        .expect("table not found")
}

/// Point every `cmap` encoding record at `offset`.
fn patch_cmap_encoding_record_offsets(data: &mut [u8], offset: u32) {
    let (_, cmap, _) = sfnt_table(data, tag::CMAP);
    let num_records = usize::from(be16(data, cmap + 2));
    for i in 0..num_records {
        put32(data, cmap + 4 + 8 * i + 4, offset);
    }
}

// ---------------------------------------------------------------------------------------------
// F7: Font::cmap_subtable_data slices the cmap table with an unchecked encoding record offset

#[test]
fn f7_cmap_encoding_record_offset_past_end_of_cmap() {
    let mut buffer = read_fixture("tests/fonts/opentype/OpenSans-Regular.ttf");
    patch_cmap_encoding_record_offsets(&mut buffer, 0x7FFF_FFFF);

    let font_file = ReadScope::new(&buffer).read::<FontData<'_>>().unwrap();
    let provider = font_file.table_provider(0).unwrap();
    // The offset is not looked at when the Font is created
    let mut font = match no_panic("F7", || Font::new(provider)) {
        Ok(font) => font,
        Err(_) => return, // rejecting the font is fine as well
    };

    let (glyph, _) = no_panic("F7", || {
        font.lookup_glyph_index('A', MatchingPresentation::NotRequired, None)
    });
    assert_eq!(glyph, 0);
    let names = no_panic("F7", || font.glyph_names(&[0, 1]));
    assert_eq!(names.len(), 2);
}

// ---------------------------------------------------------------------------------------------
// F15: CFF2::subset_to_cff: same slice on the cmap table, and unwrap of table_data(POST)

fn subset_source_sans_to_cff(buffer: &[u8]) -> Result<(), String> {
    let otf = ReadScope::new(buffer).read::<OpenTypeFont<'_>>().unwrap();
    let provider = otf.table_provider(0).expect("error reading font file");
    let cff2_data = provider.read_table_data(tag::CFF2).unwrap();
    let cff2 = ReadScope::new(&cff2_data).read::<CFF2<'_>>().unwrap();
    cff2.subset_to_cff(&[0, 1], &provider, true, OutputFormat::Type1OrCid)
        .map(drop)
        .map_err(|err| err.to_string())
}

#[test]
fn f15_subset_to_cff_cmap_encoding_record_offset_past_end_of_cmap() {
    let mut buffer = read_fixture("tests/fonts/opentype/cff2/SourceSans3.abc.otf");
    assert!(subset_source_sans_to_cff(&buffer).is_ok());
    patch_cmap_encoding_record_offsets(&mut buffer, 0x7FFF_FFFF);

    // The cmap sub-table is optional here (only used for naming glyphs) so Ok is acceptable
    let res = no_panic("F15(cmap)", || subset_source_sans_to_cff(&buffer));
    println!("F15(cmap) result: {:?}", res);
}

#[test]
fn f15_subset_to_cff_post_table_record_out_of_bounds() {
    let mut buffer = read_fixture("tests/fonts/opentype/cff2/SourceSans3.abc.otf");
    let (post_record, _, _) = sfnt_table(&buffer, tag::POST);
    put32(&mut buffer, post_record + 8, 0xFFFF_FF00); // table offset

    let res = no_panic("F15(post)", || subset_source_sans_to_cff(&buffer));
    println!("F15(post) result: {:?}", res);
    assert!(res.is_err());
}

// ---------------------------------------------------------------------------------------------
// F8: Font::vertical_advance unwraps the result of glyph_info::advance

#[test]
fn f8_vertical_advance_truncated_vmtx() {
    let mut buffer = read_fixture("tests/fonts/noto/NotoSansJP-Regular.otf");
    {
        let font_file = ReadScope::new(&buffer).read::<FontData<'_>>().unwrap();
        let mut font = Font::new(font_file.table_provider(0).unwrap()).unwrap();
        assert!(font.vertical_advance(1).is_some());
    }
    let (vmtx_record, _, _) = sfnt_table(&buffer, tag::VMTX);
    put32(&mut buffer, vmtx_record + 12, 2); // table length

    let font_file = ReadScope::new(&buffer).read::<FontData<'_>>().unwrap();
    let mut font = Font::new(font_file.table_provider(0).unwrap()).unwrap();
    let advance = no_panic("F8", || font.vertical_advance(1));
    assert_eq!(advance, None);
}

#[test]
fn f8_vertical_advance_vhea_zero_metrics() {
    let mut buffer = read_fixture("tests/fonts/noto/NotoSansJP-Regular.otf");
    let (_, vhea, vhea_len) = sfnt_table(&buffer, tag::VHEA);
    put16(&mut buffer, vhea + vhea_len - 2, 0); // numOfLongVerMetrics

    let font_file = ReadScope::new(&buffer).read::<FontData<'_>>().unwrap();
    let mut font = Font::new(font_file.table_provider(0).unwrap()).unwrap();
    let advance = no_panic("F8", || font.vertical_advance(1));
    assert_eq!(advance, None);
}

// ---------------------------------------------------------------------------------------------
// WOFF2 writer (stored/uncompressed brotli meta-blocks) used by F9

struct BitWriter {
    out: Vec<u8>,
    n_bits: usize,
}

impl BitWriter {
    fn bits(&mut self, value: u32, count: usize) {
        for i in 0..count {
            if self.n_bits % 8 == 0 {
                self.out.push(0);
            }
            let bit = ((value >> i) & 1) as u8;
            *self.out.last_mut().unwrap() |= bit << (self.n_bits % 8);
            self.n_bits += 1;
        }
    }

    fn align(&mut self) {
        self.n_bits = self.out.len() * 8;
    }
}

/// Wrap `data` in a brotli stream made of uncompressed meta-blocks (RFC 7932, section 9.2).
fn brotli_stored(data: &[u8]) -> Vec<u8> {
    let mut w = BitWriter {
        out: Vec::new(),
        n_bits: 0,
    };
    w.bits(0, 1); // WBITS = 16
    for chunk in data.chunks(0x8000) {
        w.bits(0, 1); // ISLAST
        w.bits(0, 2); // MNIBBLES = 4
        w.bits(chunk.len() as u32 - 1, 16); // MLEN - 1
        w.bits(1, 1); // ISUNCOMPRESSED
        w.align();
        w.out.extend_from_slice(chunk);
    }
    w.bits(1, 1); // ISLAST
    w.bits(1, 1); // ISLASTEMPTY
    w.out
}

fn uint_base128(mut value: u32, out: &mut Vec<u8>) {
    let mut groups = vec![(value & 0x7F) as u8];
    value >>= 7;
    while value > 0 {
        groups.push((value & 0x7F) as u8 | 0x80);
        value >>= 7;
    }
    groups.reverse();
    out.extend_from_slice(&groups);
}

struct Woff2Table {
    tag: u32,
    /// WOFF2 transformation version (bits 6-7 of the flags byte)
    transform_version: u8,
    orig_length: u32,
    /// Data as stored in the (decompressed) table data block
    data: Vec<u8>,
}

fn write_woff2(flavor: u32, tables: &[Woff2Table]) -> Vec<u8> {
    let mut directory = Vec::new();
    let mut block = Vec::new();
    for table in tables {
        // 0x3F: arbitrary tag follows
        directory.push(0x3F | (table.transform_version << 6));
        directory.extend_from_slice(&table.tag.to_be_bytes());
        uint_base128(table.orig_length, &mut directory);
        let transformed = match (table.transform_version, table.tag) {
            (3, tag::GLYF) | (3, tag::LOCA) => false,
            (_, tag::GLYF) | (_, tag::LOCA) => true,
            (0, _) => false,
            _ => true,
        };
        if transformed {
            uint_base128(table.data.len() as u32, &mut directory);
        }
        block.extend_from_slice(&table.data);
    }
    let compressed = brotli_stored(&block);

    let mut out = Vec::new();
    out.extend_from_slice(b"wOF2");
    out.extend_from_slice(&flavor.to_be_bytes());
    let length = 48 + directory.len() + compressed.len();
    out.extend_from_slice(&(length as u32).to_be_bytes());
    out.extend_from_slice(&(tables.len() as u16).to_be_bytes());
    out.extend_from_slice(&0u16.to_be_bytes()); // reserved
    let sfnt_size: u32 = 12 + tables.iter().map(|t| 16 + t.orig_length).sum::<u32>();
    out.extend_from_slice(&sfnt_size.to_be_bytes());
    out.extend_from_slice(&(compressed.len() as u32).to_be_bytes());
    out.extend_from_slice(&[0; 4]); // major, minor version
    out.extend_from_slice(&[0; 20]); // meta offset/length/orig length, priv offset/length
    assert_eq!(out.len(), 48);
    out.extend_from_slice(&directory);
    out.extend_from_slice(&compressed);
    out
}

// ---------------------------------------------------------------------------------------------
// F9: hmtx is transformed (lsb arrays elided, to be reconstructed from glyf) while glyf/loca use
// the null transform

/// Re-encode a TrueType flavoured WOFF2 file so that glyf and loca use the null transform
/// (version 3) and hmtx uses transform version 1 with both lsb arrays omitted.
fn woff2_transformed_hmtx_untransformed_glyf(src: &[u8]) -> Vec<u8> {
    let woff = ReadScope::new(src).read::<Woff2Font<'_>>().unwrap();
    let provider = woff.table_provider(0).unwrap();
    let hhea = ReadScope::new(&provider.read_table_data(tag::HHEA).unwrap())
        .read::<HheaTable>()
        .unwrap();

    let mut tags = provider.table_tags().unwrap();
    tags.sort();
    let mut tables = Vec::new();
    for table_tag in tags {
        let data = provider.read_table_data(table_tag).unwrap().into_owned();
        let orig_length = data.len() as u32;
        let table = match table_tag {
            tag::GLYF | tag::LOCA => Woff2Table {
                tag: table_tag,
                transform_version: 3,
                orig_length,
                data,
            },
            tag::HMTX => {
                // flags: bit 0 lsb[] absent, bit 1 leftSideBearing[] absent
                let mut transformed = vec![0x03];
                for i in 0..usize::from(hhea.num_h_metrics) {
                    transformed.extend_from_slice(&data[4 * i..4 * i + 2]); // advanceWidth
                }
                Woff2Table {
                    tag: table_tag,
                    transform_version: 1,
                    orig_length,
                    data: transformed,
                }
            }
            _ => Woff2Table {
                tag: table_tag,
                transform_version: 0,
                orig_length,
                data,
            },
        };
        tables.push(table);
    }
    write_woff2(woff.flavor(), &tables)
}

#[test]
fn f9_woff2_transformed_hmtx_with_untransformed_glyf() {
    let src = read_fixture("tests/fonts/woff2/roundtrip-hmtx-lsb-001.woff2");
    let crafted = woff2_transformed_hmtx_untransformed_glyf(&src);

    // sanity: the writer produces a loadable file, and the flags are what we intend
    let woff = ReadScope::new(&crafted).read::<Woff2Font<'_>>().unwrap();
    let is_transformed = |table_tag| {
        woff.find_table_entry(table_tag, 0)
            .unwrap()
            .transform_length
            .is_some()
    };
    assert!(is_transformed(tag::HMTX));
    assert!(!is_transformed(tag::GLYF));
    assert!(!is_transformed(tag::LOCA));

    let font_file = ReadScope::new(&crafted).read::<FontData<'_>>().unwrap();
    let res = no_panic("F9", || font_file.table_provider(0).map(drop));
    println!("F9 result: {:?}", res.as_ref().map_err(|err| err.to_string()));

    // If the file was accepted the reconstructed hmtx has to match the original one
    if res.is_ok() {
        let original = ReadScope::new(&src).read::<Woff2Font<'_>>().unwrap();
        let expected = original.table_provider(0).unwrap();
        let actual = font_file.table_provider(0).unwrap();
        assert_eq!(
            actual.read_table_data(tag::HMTX).unwrap(),
            expected.read_table_data(tag::HMTX).unwrap()
        );
    }
}

// ---------------------------------------------------------------------------------------------
// F14: Woff2TableProvider::table_directory unwraps collection_directory.get(index)

#[test]
fn f14_woff2_collection_font_index_out_of_range() {
    let buffer = read_fixture("tests/fonts/woff2/roundtrip-offset-tables-001.woff2");
    let woff = ReadScope::new(&buffer).read::<Woff2Font<'_>>().unwrap();
    let num_fonts = woff
        .collection_directory
        .as_ref()
        .expect("not a collection")
        .fonts()
        .count();
    assert!(woff.table_provider(num_fonts - 1).is_ok());

    let res = no_panic("F14", || woff.table_provider(num_fonts).map(drop));
    assert!(res.is_err());

    let font_file = ReadScope::new(&buffer).read::<FontData<'_>>().unwrap();
    let res = no_panic("F14", || font_file.table_provider(usize::MAX).map(drop));
    assert!(res.is_err());
}

#[test]
fn f14_woff2_single_font_index_not_zero() {
    // Not a defect: like OpenTypeFont::table_provider, the index is ignored for a
    // non-collection file.
    let buffer = read_fixture("tests/fonts/woff2/test-font.woff2");
    let woff = ReadScope::new(&buffer).read::<Woff2Font<'_>>().unwrap();
    assert!(woff.collection_directory.is_none());
    let res = no_panic("F14(single)", || woff.table_provider(7).map(drop));
    assert!(res.is_ok());
}

// ---------------------------------------------------------------------------------------------
// F17: only the last offset of a CFF INDEX is validated

#[test]
fn f17_cff_top_dict_index_first_offset_zero() {
    #[rustfmt::skip]
    let cff = [
        1, 0, 4, 1,         // Header: major, minor, hdrSize, offSize
        0, 1, 1, 1, 2, b'A', // Name INDEX: count 1, offSize 1, offsets [1, 2], data "A"
        0, 1, 1, 0, 1,      // Top DICT INDEX: count 1, offSize 1, offsets [0, 1], no data
        0, 0,               // String INDEX: count 0
        0, 0,               // Global Subr INDEX: count 0
    ];
    let res = no_panic("F17(top dict)", || {
        ReadScope::new(&cff).read::<CFF<'_>>().map(drop)
    });
    assert!(res.is_err());
}

#[test]
fn f17_cff_index_interior_offsets_hand_built() {
    #[rustfmt::skip]
    let cases: &[(&str, &[u8])] = &[
        // count 2, offSize 1, offsets, data (size = last offset - 1)
        ("zero",       &[0, 2, 1, 1, 0, 2, b'A']),
        ("decreasing", &[0, 2, 1, 1, 3, 2, b'A']),
        ("past data",  &[0, 2, 1, 1, 9, 2, b'A']),
        ("past data",  &[0, 3, 1, 1, 8, 9, 2, b'A']),
        // object 0 is fine, object 1 is 2..1
        ("start > end", &[0, 3, 1, 1, 3, 2, 4, b'A', b'B', b'C']),
    ];
    let mut defects = Vec::new();
    for (what, data) in cases {
        let res = try_no_panic(|| {
            ReadScope::new(data).read::<IndexU16>().map(|index| {
                let index = MaybeOwnedIndex::Borrowed(index);
                (0..index.len())
                    .map(|i| index.read_object(i).map(|obj| obj.len()))
                    .collect::<Vec<_>>()
            })
        });
        println!("F17 INDEX {} {:?} -> {:?}", what, data, res);
        if let Err(msg) = res {
            defects.push(format!("INDEX {} {:?}: panicked: {}", what, data, msg));
        }
    }
    assert!(defects.is_empty(), "DEFECT F17: {:#?}", defects);
}

/// Klei.otf with the offsets of the CharStrings INDEX patched: `(index, value)` sets offset number
/// `index` to `value` (truncated to the offSize of the INDEX).
fn klei_with_char_strings_offsets(patches: &[(usize, u32)]) -> Vec<u8> {
    let mut buffer = read_fixture("tests/fonts/opentype/Klei.otf");
    let (_, cff_start, cff_len) = sfnt_table(&buffer, tag::CFF);
    let char_strings = {
        let cff = ReadScope::new(&buffer[cff_start..cff_start + cff_len])
            .read::<CFF<'_>>()
            .unwrap();
        let offset = cff.fonts[0]
            .top_dict
            .get_i32(Operator::CharStrings)
            .unwrap()
            .unwrap();
        cff_start + usize::try_from(offset).unwrap()
    };
    let count = usize::from(be16(&buffer, char_strings));
    let off_size = usize::from(buffer[char_strings + 2]);
    for &(index, value) in patches {
        assert!(index < count); // an interior offset, the last one is offset number `count`
        let pos = char_strings + 3 + index * off_size;
        let bytes = value.to_be_bytes();
        buffer[pos..pos + off_size].copy_from_slice(&bytes[4 - off_size..]);
    }
    buffer
}

#[test]
fn f17_cff_char_strings_index_interior_offsets() {
    let cases: &[(&str, &[(usize, u32)])] = &[
        // offset - 1 underflows
        ("zero", &[(1, 0)]),
        // start of glyph 1 > end of glyph 1
        ("decreasing", &[(1, 0xFFFF_FFF0)]),
        // an increasing pair that lies past the end of the INDEX data
        ("past data", &[(1, 0xFFFF_FFF0), (2, 0xFFFF_FFFF)]),
    ];
    let mut defects = Vec::new();
    for &(what, patches) in cases {
        let buffer = klei_with_char_strings_offsets(patches);
        let (_, cff_start, cff_len) = sfnt_table(&buffer, tag::CFF);
        let id = format!("CharStrings {} {:x?}", what, patches);

        // Direct use of the INDEX
        let res = try_no_panic(|| {
            ReadScope::new(&buffer[cff_start..cff_start + cff_len])
                .read::<CFF<'_>>()
                .map(|cff| {
                    let index = &cff.fonts[0].char_strings_index;
                    for i in 0..index.len().min(4) {
                        let _ = index.read_object(i);
                    }
                })
        });
        println!("F17 {}: CFF::read + read_object -> {:?}", id, res);
        if let Err(msg) = res {
            defects.push(format!("{}: read_object panicked: {}", id, msg));
        }

        // Through the subsetter
        let res = try_no_panic(|| {
            let font_file = ReadScope::new(&buffer).read::<FontData<'_>>().unwrap();
            let provider = font_file.table_provider(0).unwrap();
            subset(&provider, &[0, 1, 2, 3])
                .map(drop)
                .map_err(|err| err.to_string())
        });
        println!("F17 {}: subset -> {:?}", id, res);
        match res {
            Ok(res) => assert!(res.is_err()),
            Err(msg) => defects.push(format!("{}: subset panicked: {}", id, msg)),
        }
    }
    assert!(defects.is_empty(), "DEFECT F17: {:#?}", defects);
}

// ---------------------------------------------------------------------------------------------
// child process support for F18/F20

const CHILD_ENV: &str = "VERIF_PARSE_CHILD";
const CHILD_ADDRESS_SPACE_LIMIT: u64 = 2 << 30; // 2 GiB

fn is_child() -> bool {
    std::env::var_os(CHILD_ENV).is_some()
}

/// Limit the address space of this (child) process so that F18 does not depend on the overcommit
/// policy of the machine and F20 dies quickly. Set VERIF_PARSE_CHILD=nolimit to skip.
fn limit_address_space() {
    if std::env::var(CHILD_ENV).as_deref() == Ok("nolimit") {
        return;
    }
    let limit = libc::rlimit {
        rlim_cur: CHILD_ADDRESS_SPACE_LIMIT,
        rlim_max: CHILD_ADDRESS_SPACE_LIMIT,
    };
    let rc = unsafe { libc::setrlimit(libc::RLIMIT_AS, &limit) };
    assert_eq!(rc, 0);
}

/// Run the (ignored) test `name` of this binary in a child process. Returns a description of how
/// the child failed, or None if it exited successfully.
fn run_child(name: &str, timeout: Duration) -> Option<String> {
    let exe = std::env::current_exe().unwrap();
    let mut child = Command::new(exe)
        .args(&["--exact", name, "--ignored", "--nocapture", "--test-threads=1"])
        .env(CHILD_ENV, "1")
        .env("RUST_BACKTRACE", "0")
        .stdout(Stdio::null())
        .stderr(Stdio::piped())
        .spawn()
        .unwrap();
    let start = Instant::now();
    loop {
        match child.try_wait().unwrap() {
            Some(status) if status.success() => return None,
            Some(status) => {
                let mut stderr = String::new();
                use std::io::Read;
                child
                    .stderr
                    .take()
                    .unwrap()
                    .read_to_string(&mut stderr)
                    .unwrap();
                let last = stderr
                    .lines()
                    .filter(|line| !line.trim().is_empty() && !line.starts_with("note:"))
                    .last()
                    .unwrap_or("")
                    .to_string();
                return Some(format!("child died: {}; stderr: {}", status, last));
            }
            None if start.elapsed() > timeout => {
                child.kill().unwrap();
                child.wait().unwrap();
                return Some(format!("child still running after {:?}; killed", timeout));
            }
            None => std::thread::sleep(Duration::from_millis(50)),
        }
    }
}

// ---------------------------------------------------------------------------------------------
// F18: MorxTable::read_dep pre-allocates n_chains (u32 from the table) chains

#[rustfmt::skip]
const MORX_4G_CHAINS: [u8; 16] = [
    0, 2,                   // version
    0, 0,                   // unused
    0xFF, 0xFF, 0xFF, 0xFF, // nChains
    0, 0, 0, 0, 0, 0, 0, 0, // half a chain header
];

#[test]
#[ignore = "run by f18_morx_n_chains_preallocation in a child process"]
fn f18_child() {
    if !is_child() {
        return;
    }
    limit_address_space();
    let res = ReadScope::new(&MORX_4G_CHAINS).read_dep::<MorxTable<'_>>(0);
    assert!(res.is_err());
}

#[test]
fn f18_morx_n_chains_preallocation() {
    if let Some(failure) = run_child("f18_child", Duration::from_secs(20)) {
        panic!("DEFECT F18: {}", failure);
    }
}

// ---------------------------------------------------------------------------------------------
// F20: StateArray::read_dep never terminates when nClasses is 0

#[rustfmt::skip]
const MORX_ZERO_CLASSES: [u8; 60] = [
    // morx header
    0, 2,                   // version
    0, 0,                   // unused
    0, 0, 0, 1,             // nChains
    // chain header
    0, 0, 0, 0,             // defaultFlags
    0, 0, 0, 52,            // chainLength (header 16 + subtable 36)
    0, 0, 0, 0,             // nFeatureEntries
    0, 0, 0, 1,             // nSubtables
    // subtable header
    0, 0, 0, 36,            // length (header 12 + body 24)
    0, 0, 0, 1,             // coverage: type 1, contextual
    0, 0, 0, 0,             // subFeatureFlags
    // contextual subtable body
    0, 0, 0, 0,             // STXHeader.nClasses = 0
    0, 0, 0, 20,            // STXHeader.classTableOffset
    0, 0, 0, 22,            // STXHeader.stateArrayOffset
    0, 0, 0, 22,            // STXHeader.entryTableOffset
    0, 0, 0, 22,            // substitutionTable offset
    0, 0,                   // class table: lookup table format 0, numGlyphs (0) values
    0, 0,                   // state array
];

#[test]
#[ignore = "run by f20_morx_state_array_zero_classes in a child process"]
fn f20_child() {
    if !is_child() {
        return;
    }
    limit_address_space();
    let res = ReadScope::new(&MORX_ZERO_CLASSES).read_dep::<MorxTable<'_>>(0);
    assert!(res.is_err());
}

#[test]
fn f20_morx_state_array_zero_classes() {
    if let Some(failure) = run_child("f20_child", Duration::from_secs(20)) {
        panic!("DEFECT F20: {}", failure);
    }
}

// ---------------------------------------------------------------------------------------------
// F22: cff2::blend calls chunks(k) with k = number of regions of the ItemVariationData

#[test]
fn f22_cff2_blend_with_zero_regions() {
    let mut buffer = read_fixture("tests/fonts/opentype/cff2/SourceSansVariable-Roman.abc.otf");
    let (_, cff2_start, cff2_len) = sfnt_table(&buffer, tag::CFF2);

    // Set regionIndexCount of every ItemVariationData sub-table to 0. itemCount is 0 in CFF2
    // so the rest of the sub-table (the now unused region indexes) is just ignored.
    let vstore = {
        let cff2 = ReadScope::new(&buffer[cff2_start..cff2_start + cff2_len])
            .read::<CFF2<'_>>()
            .unwrap();
        let offset = cff2.top_dict.get_i32(Operator::VStore).unwrap().unwrap();
        // skip the u16 length that precedes the ItemVariationStore in CFF2
        cff2_start + usize::try_from(offset).unwrap() + 2
    };
    assert_eq!(be16(&buffer, vstore), 1); // ItemVariationStore.format
    let data_count = usize::from(be16(&buffer, vstore + 6));
    assert!(data_count > 0);
    for i in 0..data_count {
        let data = vstore + be32(&buffer, vstore + 8 + 4 * i) as usize;
        assert_eq!(be16(&buffer, data), 0); // itemCount
        put16(&mut buffer, data + 2, 0); // wordDeltaCount
        put16(&mut buffer, data + 4, 0); // regionIndexCount
    }

    let otf = ReadScope::new(&buffer).read::<OpenTypeFont<'_>>().unwrap();
    let provider = otf.table_provider(0).unwrap();
    let cff2_data = provider.read_table_data(tag::CFF2).unwrap();
    let mut cff2 = ReadScope::new(&cff2_data).read::<CFF2<'_>>().unwrap();
    let fvar_data = provider.read_table_data(tag::FVAR).unwrap();
    let fvar = ReadScope::new(&fvar_data).read::<FvarTable<'_>>().unwrap();
    let avar_data = provider.table_data(tag::AVAR).unwrap();
    let avar = avar_data
        .as_ref()
        .map(|data| ReadScope::new(data).read::<AvarTable<'_>>().unwrap());
    let user_tuple = [Fixed::from(654.0)];
    let tuple = fvar
        .normalize(user_tuple.iter().copied(), avar.as_ref())
        .unwrap();

    let res = no_panic("F22", || {
        cff2.instance_char_strings(&tuple)
            .map_err(|err| err.to_string())
    });
    println!("F22 result: {:?}", res);
}
