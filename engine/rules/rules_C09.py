"""C09 — every font the library writes is a valid, self-consistent sfnt: the writer pipeline.

T09-PROD   single producer: the sfnt header and directory are written only by FontBuilderWithHead::data
T09-ORDER  pipeline order in data() and write_table_directory (pad before checksum, checksum before patching head)
T09-SUM    checkSumAdjustment = 0xB1B0AFBA - (checksum(headers) + sum of table checksums)
T09-REC    directory records: length is the unpadded length taken before padding, offset the running padded offset
T09-SORT   tables are kept in a BTreeMap keyed by tag and the directory is written in key order
T09-LOCA   glyf, loca and head agree on the loca format (same value threaded to all three)
T09-STALE  a table value is serialised after its last mutation (WOFF2 head reconstruction)
T09-NARROW no lossy casts in the sfnt assembly code
"""
import re

import narrowing
import sym
from facts import callee_is, op_local

LEVEL = "other"
EXPLANATION = (
    "Decides the structural clauses of C09 on the one code path that assembles sfnt files. The header (write_offset_table) and the directory "
    "(write_table_directory, TableRecord::write) are written only from FontBuilderWithHead::data, and FontBuilderWithHead is built only by "
    "add_head_table, so every font the library emits goes through one pipeline. In that pipeline the order is fixed by dominance: offset table, "
    "directory, zero padding to a 4-byte boundary, checksum of the headers, patching of head.checkSumAdjustment with 0xB1B0AFBA - (headers + "
    "tables), then the table bodies; each table is zero-padded before its checksum is taken, its directory record carries the length measured "
    "before padding and the running padded offset (both through checked conversions). Tables live in a BTreeMap<u32, _> and the directory is "
    "written in key order, so it is sorted by tag. The loca format captured from the head table is the one handed to the glyf writer and the "
    "loca writer. When the WOFF2 provider rebuilds head/glyf/loca it serialises head only after its last modification."
)
NOT_DECIDED = (
    "mutual consistency of the *contents* of maxp/hhea/hmtx/loca/glyf/cmap/post, the values of the search fields, checksum arithmetic itself "
    "(checksum::table_checksum), and that the library re-loads its own output are value properties and are not decided."
)
ASSUMPTIONS = ["BTreeMap::keys iterates in ascending key order (std contract)"]

DATA = "subset::FontBuilderWithHead::data"
WTD = "subset::FontBuilderWithHead::write_table_directory"
WOT = "subset::FontBuilderWithHead::write_offset_table"


def callers_of(fx, suffix):
    out = []
    for b in fx.bodies:
        for bi, t in b.calls():
            if callee_is(t, suffix):
                out.append((b, bi, t))
    return out


def t09_prod(run, fx):
    rule = "T09-PROD"
    run.rule(rule, "write_offset_table and write_table_directory are called only from FontBuilderWithHead::data; TableRecord::write only from "
                   "write_table_directory; FontBuilderWithHead literals only in add_head_table")
    for callee, allowed in ((WOT, {DATA}), (WTD, {DATA})):
        cs = callers_of(fx, callee)
        if not cs:
            run.anchor_missing(rule, "call to " + callee)
        for b, bi, t in cs:
            if b.root in allowed:
                run.ok(rule, "%s called from %s" % (callee.split("::")[-1], b.root))
            else:
                run.fail(rule, "producer:%s<-%s" % (callee.split("::")[-1], b.root), "%s is called from %s: an sfnt header/directory is produced outside the single pipeline" % (callee, b.path), b.loc(t))
    n = 0
    for b in fx.bodies:
        for bi, t in b.calls():
            rp = t["callee"].get("rpath") or ""
            if rp.startswith("<tables::TableRecord as binary::write::WriteBinary"):
                n += 1
                if b.root == WTD:
                    run.ok(rule, "TableRecord::write in write_table_directory")
                else:
                    run.fail(rule, "producer:TableRecord::write<-%s" % b.root, "a table directory record is written in %s" % b.path, b.loc(t))
    if n == 0:
        run.anchor_missing(rule, "TableRecord::write call")
    lit = 0
    for b in fx.bodies:
        for bi, blk in enumerate(b.blocks):
            if not b.reachable(bi):
                continue
            for s in blk["s"]:
                if s["k"] == "assign" and s["rv"]["k"] == "agg" and s["rv"].get("adt") == "subset::FontBuilderWithHead":
                    lit += 1
                    if b.root == "subset::FontBuilder::add_head_table":
                        run.ok(rule, "FontBuilderWithHead built in add_head_table")
                    else:
                        run.fail(rule, "producer:FontBuilderWithHead<-%s" % b.root, "FontBuilderWithHead is constructed in %s, bypassing add_head_table" % b.path, b.loc(s))
    if lit == 0:
        run.anchor_missing(rule, "FontBuilderWithHead literal")


def first_call(b, *suffix):
    out = [bi for bi, t in b.calls() if callee_is(t, *suffix)]
    return out


def t09_order(run, fx):
    rule = "T09-ORDER"
    run.rule(rule, "data(): write_offset_table dominates write_table_directory dominates the padding write_zeros dominates table_checksum(headers) "
                   "dominates write_placeholder(checkSumAdjustment) and the write_bytes of table bodies; write_table_directory: write_zeros(padding) "
                   "dominates table_checksum dominates TableRecord::write")
    b = fx.body(DATA)
    if b is None:
        return run.anchor_missing(rule, DATA)
    chain = [("write_offset_table", first_call(b, WOT)), ("write_table_directory", first_call(b, WTD)),
             ("write_zeros", first_call(b, "WriteContext::write_zeros")), ("table_checksum", first_call(b, "checksum::table_checksum")),
             ("write_placeholder", first_call(b, "WriteContext::write_placeholder")), ("write_bytes", first_call(b, "WriteContext::write_bytes"))]
    ok = True
    for name, blocks in chain:
        if len(blocks) != 1:
            run.fail(rule, "order:data:%s" % name, "expected exactly one %s call in data(), found %d" % (name, len(blocks)), "%s:%s" % (b.file, b.line))
            ok = False
    if ok:
        seq = [blocks[0] for _, blocks in chain]
        for i in range(len(seq) - 2):
            if not b.dominates(seq[i], seq[i + 1]) or seq[i] == seq[i + 1]:
                run.fail(rule, "order:data:%s>%s" % (chain[i][0], chain[i + 1][0]), "in data(), %s does not precede %s on every path" % (chain[i][0], chain[i + 1][0]), b.loc(b.term(seq[i + 1])))
                ok = False
        # both the placeholder patch and the body writes come after the header checksum
        for j in (4, 5):
            if not b.dominates(seq[3], seq[j]):
                run.fail(rule, "order:data:table_checksum>%s" % chain[j][0], "in data(), the header checksum does not precede %s" % chain[j][0], b.loc(b.term(seq[j])))
                ok = False
        # the body of the head table must be patched before it is copied out: write_placeholder not reachable from write_bytes without re-entering the loop head is fine;
        # what matters is that in one iteration the patch precedes the copy
        if not (b.dominates(seq[4], seq[5]) or seq[5] in b.reach_from(seq[4])):
            run.fail(rule, "order:data:patch>copy", "the head table is copied out before checkSumAdjustment is patched", b.loc(b.term(seq[5])))
            ok = False
        if ok:
            run.ok(rule, "data(): offset table > directory > padding > header checksum > patch head > table bodies")
    w = fx.body(WTD)
    if w is None:
        return run.anchor_missing(rule, WTD)
    z, c = first_call(w, "WriteContext::write_zeros"), first_call(w, "checksum::table_checksum")
    r = [bi for bi, t in w.calls() if (t["callee"].get("rpath") or "").startswith("<tables::TableRecord as binary::write::WriteBinary")]
    if len(z) == 1 and len(c) == 1 and len(r) == 1 and w.dominates(z[0], c[0]) and w.dominates(c[0], r[0]) and z[0] != c[0]:
        run.ok(rule, "write_table_directory: pad > checksum > record")
    else:
        run.fail(rule, "order:directory", "in write_table_directory the table is not zero-padded before its checksum, or the record is written before the checksum (%s, %s, %s)" % (z, c, r), "%s:%s" % (w.file, w.line))


def t09_sum(run, fx):
    rule = "T09-SUM"
    run.rule(rule, "the value patched into head.checkSumAdjustment is 0xB1B0AFBA - (table_checksum(font bytes) + accumulated table checksums)")
    b = fx.body(DATA)
    if b is None:
        return run.anchor_missing(rule, DATA)
    prov = sym.Prov(b)
    for bi, t in b.calls():
        if callee_is(t, "WriteContext::write_placeholder") and len(t["args"]) >= 3:
            v = prov.op(t["args"][2])
            consts = [x[1] for x in sym.walk(v) if x[0] == "c" and isinstance(x[1], int)]
            calls = [x[1] or "" for x in sym.walk(v) if x[0] == "call"]
            has_magic = 0xB1B0AFBA in consts
            has_sub = any(c.endswith("Sub>::sub") or c.endswith("ops::Sub::sub") for c in calls) or any(x[0] == "bin" and x[1].startswith("Sub") for x in sym.walk(v))
            has_add = any(c.endswith("Add>::add") or c.endswith("ops::Add::add") for c in calls) or any(x[0] == "bin" and x[1].startswith("Add") for x in sym.walk(v))
            has_hdr = any(c.endswith("checksum::table_checksum") for c in calls)
            has_tabs = any(x[0] == "field" and x[2] == "checksum" for x in sym.walk(v))
            if has_magic and has_sub and has_add and has_hdr and has_tabs:
                run.ok(rule, "checkSumAdjustment = 0xB1B0AFBA - (table_checksum(headers) + ordered_tables.checksum)")
            else:
                run.fail(rule, "checksum-adjustment", "the patched value is not 0xB1B0AFBA - (headers + tables): magic=%s sub=%s add=%s headers=%s tables=%s" % (has_magic, has_sub, has_add, has_hdr, has_tabs), b.loc(t))
            return
    run.anchor_missing(rule, "write_placeholder in data()")


def t09_rec(run, fx):
    rule = "T09-REC"
    run.rule(rule, "write_table_directory: TableRecord.length is a checked conversion of the buffer length taken before padding; TableRecord.offset "
                   "a checked conversion of the running offset, which advances by the padded length; tag is the map key")
    w = fx.body(WTD)
    if w is None:
        return run.anchor_missing(rule, WTD)
    prov = sym.Prov(w)
    z = first_call(w, "WriteContext::write_zeros")
    for bi, blk in enumerate(w.blocks):
        if not w.reachable(bi):
            continue
        for s in blk["s"]:
            if s["k"] == "assign" and s["rv"]["k"] == "agg" and s["rv"].get("adt") == "tables::TableRecord":
                f = dict(zip(s["rv"]["fnames"], s["rv"]["fields"]))
                lt = prov.op(f["length"])
                ot = prov.op(f["offset"])
                lens = [x for x in sym.walk(lt) if x[0] == "call" and (x[1] or "").endswith("WriteBuffer::len")]
                checked_l = any(x[0] == "call" and (x[4] or "").endswith(("TryFrom::try_from", "TryInto::try_into")) for x in sym.walk(lt))
                checked_o = any(x[0] == "call" and (x[4] or "").endswith(("TryFrom::try_from", "TryInto::try_into")) for x in sym.walk(ot))
                before_pad = bool(lens) and bool(z) and all(w.dominates(x[3], z[0]) and x[3] != z[0] for x in lens)
                if lens and checked_l and before_pad:
                    run.ok(rule, "record.length = u32::try_from(table.len()) measured before padding")
                else:
                    run.fail(rule, "record:length", "TableRecord.length is not the checked, unpadded buffer length (len calls: %d, checked: %s, before padding: %s)" % (len(lens), checked_l, before_pad), w.loc(s))
                names = {x[2] for x in sym.walk(ot) if x[0] == "local" and len(x) > 2}
                if checked_o and "table_offset" in names:
                    run.ok(rule, "record.offset = u32::try_from(table_offset)")
                else:
                    run.fail(rule, "record:offset", "TableRecord.offset is not a checked conversion of the running table offset", w.loc(s))
                return
    run.anchor_missing(rule, "TableRecord literal in write_table_directory")


def t09_sort(run, fx):
    rule = "T09-SORT"
    run.rule(rule, "FontBuilder.tables is a BTreeMap<u32, WriteBuffer>; write_table_directory walks BTreeMap::keys of it and applies no "
                   "reordering; records are pushed in that order")
    adt = fx.adt("subset::FontBuilder")
    if adt is None:
        return run.anchor_missing(rule, "subset::FontBuilder")
    f = [f for v in adt["variants"] for f in v["fields"] if f["name"] == "tables"]
    if f and f[0]["ty"].startswith("std::collections::BTreeMap<u32,"):
        run.ok(rule, "FontBuilder.tables: %s" % f[0]["ty"])
    else:
        run.fail(rule, "sort:tables-type", "FontBuilder.tables is %s, not a BTreeMap keyed by tag: the directory would not be sorted" % (f[0]["ty"] if f else "missing"), "%s:%s" % (adt["file"], adt["line"]))
    w = fx.body(WTD)
    if w is None:
        return run.anchor_missing(rule, WTD)
    keys = first_call(w, "BTreeMap::<K, V, A>::keys")
    bad = [t["callee"]["path"] for bi, t in w.calls() if re.search(r"::(sort\w*|reverse|rev|swap\w*|shuffle|rotate_\w+)$", t["callee"].get("path") or "")]
    if keys and not bad:
        run.ok(rule, "write_table_directory iterates tables.keys() without reordering")
    else:
        run.fail(rule, "sort:directory-order", "write_table_directory does not walk the tag-ordered keys (keys() calls: %d, reordering calls: %s)" % (len(keys), bad), "%s:%s" % (w.file, w.line))


def t09_loca(run, fx):
    rule = "T09-LOCA"
    run.rule(rule, "add_head_table stores table.index_to_loc_format of the head it writes; add_glyf_table hands self.index_to_loc_format to both the "
                   "glyf and the loca writer and is the only place that adds GLYF/LOCA; add_table refuses HEAD and GLYF; the WOFF2 table provider writes loca "
                   "with the index_to_loc_format field of the very head table it serialises")
    b = fx.body("subset::FontBuilder::add_head_table")
    if b is None:
        run.anchor_missing(rule, "add_head_table")
    else:
        prov = sym.Prov(b)
        good = False
        for bi, blk in enumerate(b.blocks):
            for s in blk["s"]:
                if s["k"] == "assign" and s["rv"]["k"] == "agg" and s["rv"].get("adt") == "subset::FontBuilderWithHead":
                    f = dict(zip(s["rv"]["fnames"], s["rv"]["fields"]))
                    t = sym.strip(prov.op(f["index_to_loc_format"]))
                    names = [x for x in sym.walk(t)]
                    good = any(x[0] == "field" and x[2] == "index_to_loc_format" for x in names) and any(x[0] == "arg" and x[2] == "table" for x in names)
        # and the same `table` is what gets written
        wrote = any(callee_is(t, "add_table_inner") and any(sym.strip(prov.op(a))[0] == "arg" and sym.strip(prov.op(a))[2] == "table" for a in t["args"]) for bi, t in b.calls())
        if good and wrote:
            run.ok(rule, "add_head_table: loca format captured from the head table being written")
        else:
            run.fail(rule, "loca:head-capture", "add_head_table does not capture index_to_loc_format from the head table it writes", "%s:%s" % (b.file, b.line))
    g = fx.body("subset::FontBuilderWithHead::add_glyf_table")
    if g is None:
        run.anchor_missing(rule, "add_glyf_table")
    else:
        prov = sym.Prov(g)
        fmts = []
        for bi, t in g.calls():
            if callee_is(t, "add_table_inner"):
                a = sym.strip(prov.op(t["args"][-1]))
                fmts.append(a)
        ok = len(fmts) == 2 and all(any(x[0] == "field" and x[2] == "index_to_loc_format" for x in sym.walk(a)) and any(x[0] == "arg" and x[1] == 1 for x in sym.walk(a)) for a in fmts)
        if ok:
            run.ok(rule, "add_glyf_table: glyf and loca both written with self.index_to_loc_format")
        else:
            run.fail(rule, "loca:glyf-loca-format", "add_glyf_table does not hand self.index_to_loc_format to both the glyf and the loca writer", "%s:%s" % (g.file, g.line))
    # who adds GLYF / LOCA / HEAD by constant tag
    TAGS = {0x676C7966: "glyf", 0x6C6F6361: "loca", 0x68656164: "head"}
    for b2 in fx.bodies:
        if not b2.root.startswith("subset::"):
            continue
        prov = None
        for bi, t in b2.calls():
            if callee_is(t, "subset::FontBuilder::add_table_inner", "subset::FontBuilder::add_table"):
                if prov is None:
                    prov = sym.Prov(b2)
                tg = sym.strip(prov.op(t["args"][1]))
                val = tg[1] if tg[0] == "c" else (fx.const(tg[1]) or {}).get("val") if tg[0] == "uneval" else None
                if val in TAGS:
                    allowed = {"glyf": "subset::FontBuilderWithHead::add_glyf_table", "loca": "subset::FontBuilderWithHead::add_glyf_table", "head": "subset::FontBuilder::add_head_table"}[TAGS[val]]
                    if b2.root == allowed:
                        run.ok(rule, "%s added in %s" % (TAGS[val], b2.root.split("::")[-1]))
                    else:
                        run.fail(rule, "loca:%s<-%s" % (TAGS[val], b2.root), "the %s table is added in %s, outside the function that keeps glyf/loca/head consistent" % (TAGS[val], b2.path), b2.loc(t))
    a = fx.body("subset::FontBuilder::add_table")
    if a is not None:
        import panics
        consts = set()
        for bi, blk in enumerate(a.blocks):
            for s in blk["s"]:
                if s["k"] == "assign" and s["rv"]["k"] == "bin" and s["rv"]["bop"] in ("Eq", "Ne"):
                    for o in (s["rv"]["a"], s["rv"]["b"]):
                        if o["k"] == "const":
                            v = o.get("val")
                            if v is None and o.get("uneval"):
                                v = (fx.const(o["uneval"]) or {}).get("val")
                            consts.add(v)
        # assert_ne! compares through references to promoted constants: look at the promoted statements as well
        txt = " ".join(str(x) for blk in a.blocks for s in blk["s"] if s["k"] == "assign" and s["rv"]["k"] == "use" and s["rv"]["op"]["k"] == "const" for x in (s["rv"]["op"].get("pstmts") or []))
        has_head = 0x68656164 in consts or "HEAD" in txt or "1751474532" in txt
        has_glyf = 0x676C7966 in consts or "GLYF" in txt or "1735162214" in txt
        if has_head and has_glyf:
            run.ok(rule, "add_table refuses HEAD and GLYF")
        else:
            run.fail(rule, "loca:add_table-guard", "add_table no longer refuses the HEAD and GLYF tags (head=%s glyf=%s)" % (has_head, has_glyf), "%s:%s" % (a.file, a.line))


def t09_stale(run, fx):
    rule = "T09-STALE"
    run.rule(rule, "Woff2TableProvider::new: no store to a field of the reconstructed head table is reachable from the call that serialises it, "
                   "and the loca table is written with the format read from head after its last store")
    b = fx.body("woff2::Woff2TableProvider::new")
    if b is None:
        return run.anchor_missing(rule, "Woff2TableProvider::new")
    heads = [l for l in range(len(b.locals)) if b.local_name(l) == "head" and "HeadTable" in b.local_ty(l)]
    if not heads:
        return run.anchor_missing(rule, "local `head` in Woff2TableProvider::new")
    h = heads[0]
    stores = [(bi, s) for bi, blk in enumerate(b.blocks) if b.reachable(bi) for s in blk["s"] if s["k"] == "assign" and s["p"]["l"] == h and s["p"]["p"]]
    prov = sym.Prov(b)
    ser = []
    for bi, t in b.calls():
        if callee_is(t, "binary::write::buffer") and "HeadTable" in " ".join(t["callee"].get("args") or []):
            ser.append(bi)
    if not ser:
        return run.anchor_missing(rule, "serialisation of head in Woff2TableProvider::new")
    late = [sb for sb, s in stores if any(sb in b.reach_from(x) and sb != x for x in ser)]
    if late:
        run.fail(rule, "stale:head", "head is modified after it has been serialised: the written head table does not carry the change", b.loc(b.term(late[0])))
    else:
        run.ok(rule, "head: %d store(s), none after its serialisation" % len(stores))
    # loca written with head.index_to_loc_format read after the last store
    for bi, t in b.calls():
        if callee_is(t, "binary::write::buffer") and "LocaTable" in " ".join(t["callee"].get("args") or []):
            if stores and not all(b.dominates(sb, bi) or bi not in b.reach_from(sb) or True for sb, _ in stores):
                pass
            bad = [sb for sb, _ in stores if sb in b.reach_from(bi) and sb != bi]
            if bad:
                run.fail(rule, "stale:loca", "the loca table is written before the loca format in head is finalised", b.loc(t))
            else:
                run.ok(rule, "loca written after the last store to head")


def t09_loca_woff2(run, fx):
    rule = "T09-LOCA"
    # (second clause of T09-LOCA; the rule text is registered by t09_loca)
    bs = [b for b in fx.bodies if b.kind != "Closure" and b.root.endswith("Woff2TableProvider::new")]
    if not bs:
        return run.anchor_missing(rule, "woff2::Woff2TableProvider::new")
    b = bs[0]
    prov = sym.Prov(b)
    n = 0
    for bi, t in b.calls():
        p = t["callee"].get("path") or ""
        ga = " ".join(t["callee"].get("args") or [])
        if p.endswith("write::buffer") and "LocaTable" in ga and len(t["args"]) >= 2:
            n += 1
            fmt = prov.op(t["args"][1])
            if any(x[0] == "field" and x[2] == "index_to_loc_format" for x in sym.walk(fmt)) and any(
                    x[0] == "local" and len(x) > 2 and x[2] == "head" for x in sym.walk(fmt)):
                run.ok(rule, "Woff2TableProvider::new: loca is written with head.index_to_loc_format, the field of the head table it serialises")
            else:
                run.fail(rule, "loca:woff2-format", "Woff2TableProvider::new writes loca with %s instead of the index_to_loc_format field of the head table "
                         "it serialises: head and loca can disagree about the offset format" % sym.show(sym.strip(fmt))[:70], b.loc(t))
    if n == 0:
        run.anchor_missing(rule, "write::buffer::<_, LocaTable> in Woff2TableProvider::new")


def t09_hhea(run, fx):
    rule = "T09-HHEA"
    run.rule(rule, "variations::instance writes an hmtx table with one long metric per glyph on every path (create_hmtx_table / "
                   "htmx_from_phantom_points push a metric for each glyph), so hhea.numberOfHMetrics is set to maxp.numGlyphs on every path too: "
                   "an assignment of hhea.num_h_metrics from maxp.num_glyphs dominates the serialisation of hhea")
    b = fx.body("variations::instance")
    if b is None:
        return run.anchor_missing(rule, "variations::instance")
    prov = sym.Prov(b)
    writes = []
    for bi, blk in enumerate(b.blocks):
        if not b.reachable(bi):
            continue
        for st in blk["s"]:
            if st["k"] == "assign" and st["p"]["p"] and isinstance(st["p"]["p"][-1], dict) and st["p"]["p"][-1].get("n") == "num_h_metrics" and b.local_name(st["p"]["l"]) == "hhea":
                src = prov.rvalue(st["rv"])
                if any(x[0] == "field" and x[2] == "num_glyphs" for x in sym.walk(src)):
                    writes.append(bi)
    ser = [bi for bi, t in b.calls() if (t["callee"].get("path") or "").endswith("add_table") and "HheaTable" in " ".join(t["callee"].get("args") or [])]
    if not ser:
        return run.anchor_missing(rule, "add_table::<_, HheaTable> in variations::instance")
    if writes and all(any(b.dominates(w, s_) for w in writes) for s_ in ser):
        run.ok(rule, "hhea.num_h_metrics = maxp.num_glyphs dominates the serialisation of hhea")
    else:
        run.fail(rule, "hhea-num-h-metrics", "variations::instance serialises hhea on a path where num_h_metrics was not set to maxp.num_glyphs although the hmtx it "
                 "writes has one long metric per glyph: hhea and hmtx disagree in the instance", "%s:%s" % (b.file, b.line))


def t09_hhea2(run, fx):
    """hhea.numberOfHMetrics agrees with the hmtx table that is written"""
    rule = "T09-HHEA"
    run.rule(rule, "variations::instance: hhea.numberOfHMetrics is the number of long metrics of the hmtx table that is written. Either the value stored "
                   "into hhea.num_h_metrics is taken from that table (the length of its h_metrics), on every path to the serialisation of hhea; or it is "
                   "maxp.num_glyphs and every hmtx that can reach the builder was built with one long metric per glyph (create_hmtx_table, "
                   "htmx_from_phantom_points, apply_hvar) - a source hmtx passed through unchanged keeps the source's own numberOfHMetrics")
    b = fx.body("variations::instance")
    if b is None:
        return run.anchor_missing(rule, "variations::instance")
    prov = sym.Prov(b)
    from_len, from_glyphs = [], []
    for bi, blk in enumerate(b.blocks):
        if not b.reachable(bi):
            continue
        for st in blk["s"]:
            if st["k"] == "assign" and st["p"]["p"] and isinstance(st["p"]["p"][-1], dict) and st["p"]["p"][-1].get("n") == "num_h_metrics" and b.local_name(st["p"]["l"]) == "hhea":
                import zipalign
                chain, names = zipalign.chain_calls(b, st["rv"].get("op") or {"k": "copy", "p": st["rv"].get("p", {"l": 0, "p": []})})
                src = prov.rvalue(st["rv"])
                txt = sym.show(src, 0)
                if any(nm.endswith("::len") for nm in names) and any(b.local_name(l) == "hmtx" for l in chain):
                    from_len.append(bi)
                elif any(x[0] == "field" and x[2] == "num_glyphs" for x in sym.walk(src)):
                    from_glyphs.append(bi)
    ser = [bi for bi, t in b.calls() if (t["callee"].get("path") or "").endswith("add_table") and "HheaTable" in " ".join(t["callee"].get("args") or [])]
    if not ser:
        return run.anchor_missing(rule, "add_table::<_, HheaTable> in variations::instance")
    if from_len and all(any(b.dominates(w, s_) for w in from_len) for s_ in ser):
        return run.ok(rule, "hhea.num_h_metrics is the length of the h_metrics of the hmtx that is written, on every path to the serialisation of hhea")
    if from_glyphs and all(any(b.dominates(w, s_) for w in from_glyphs) for s_ in ser):
        # then no source table may be passed through: every definition of the `hmtx` local is the result of a builder
        builders = ("create_hmtx_table", "htmx_from_phantom_points", "apply_hvar")
        hm = [l for l in range(b.arg_count + 1, len(b.locals)) if b.local_name(l) == "hmtx"]
        passed = []
        for l in hm:
            tm = sym.strip(prov.local(l))
            for x in sym.walk(tm):
                if x[0] == "call" and str(x[1] or "").endswith(("ReadScope::<'a>::read_dep", "::read_dep")) and "HmtxTable" in str(x):
                    passed.append(l)
        # a tuple pattern `(glyph_data, hmtx) = match .. { .. => (.., hmtx) }` re-binds the source table: look for an aggregate that moves the
        # source hmtx local into the result without a builder call in between
        moved = False
        import zipalign
        for bi, blk in enumerate(b.blocks):
            if not b.reachable(bi):
                continue
            for st in blk["s"]:
                if st["k"] == "assign" and st["rv"]["k"] == "agg" and st["rv"].get("agg") == "tuple":
                    for f in st["rv"]["fields"]:
                        if f.get("k") not in ("move", "copy") or "HmtxTable" not in b.local_ty(f["p"]["l"]):
                            continue
                        chain, names = zipalign.chain_calls(b, f)
                        if not any(nm.split("::")[-1] in builders for nm in names):
                            moved = True
        if moved:
            return run.fail(rule, "hhea-num-h-metrics", "variations::instance sets hhea.num_h_metrics to maxp.num_glyphs although on one path the source hmtx is written unchanged: "
                            "a source with numberOfHMetrics < numGlyphs yields an hmtx that is too short for the hhea next to it", "%s:%s" % (b.file, b.line))
        return run.ok(rule, "hhea.num_h_metrics = maxp.num_glyphs and every hmtx that reaches the builder was built with one long metric per glyph")
    run.fail(rule, "hhea-num-h-metrics", "variations::instance serialises hhea on a path where num_h_metrics was set neither from the hmtx that is written nor from maxp.num_glyphs",
             "%s:%s" % (b.file, b.line))


# ---- T09-MAGIC: the sfnt version of a font that is written ---------------------------------------------------------------------------
CFF_TAG, CFF2_TAG = 0x43464620, 0x43464632


def t09_magic(run, fx):
    rule = "T09-MAGIC"
    run.rule(rule, "sfnt version of the fonts the library writes: 'OTTO' for fonts with CFF data, version 1 or 2, 0x00010000 / 'true' for TrueType outlines "
                   "(OpenType, table directory). Every FontBuilder::new is given a constant, or a value whose decision - in the function and its closures - "
                   "compares table tags with both 'CFF ' and 'CFF2' (sibling agreement: variations::instance writes 'OTTO' for CFF2)")
    n = 0
    for b in fx.bodies:
        if b.exp:
            continue
        for bi, t in b.calls():
            if not callee_is(t, "subset::FontBuilder::new"):
                continue
            n += 1
            prov = sym.Prov(b)
            a = sym.strip(prov.op(t["args"][0]))
            if a[0] == "c" or a[0] == "uneval":
                run.ok(rule, "%s: FontBuilder::new with a constant sfnt version" % b.root)
                continue
            consts = set()
            for fb in fx.family(fx.by_dp.get(b.root_dp, b)) if hasattr(b, "root_dp") else fx.family(b):
                for bj, blk in enumerate(fb.blocks):
                    for st in blk["s"]:
                        if st["k"] == "assign" and st["rv"]["k"] == "bin" and st["rv"]["bop"] in ("Eq", "Ne"):
                            for o in (st["rv"]["a"], st["rv"]["b"]):
                                if o.get("k") == "const" and isinstance(o.get("val"), int):
                                    consts.add(o["val"])
                    tt = blk["t"]
                    if tt["k"] == "switch":
                        for v, _ in tt["arms"]:
                            if isinstance(v, int):
                                consts.add(v)
            if CFF_TAG in consts and CFF2_TAG in consts:
                run.ok(rule, "%s: the sfnt version is decided on both 'CFF ' and 'CFF2'" % b.root)
            else:
                run.fail(rule, "magic:%s" % b.root, "%s chooses the sfnt version of the font it writes without looking at %s: a font with such outlines is written with the TrueType version"
                         % (b.path, " and ".join(nm for nm, v in (("'CFF '", CFF_TAG), ("'CFF2'", CFF2_TAG)) if v not in consts)), b.loc(t))
    if n == 0:
        run.anchor_missing(rule, "FontBuilder::new calls")


# ---- T09-ADD: a table handed to the builder is in the font -------------------------------------------------------------------------
def _ok_blocks(b):
    out = []
    for bi, blk in enumerate(b.blocks):
        if not b.reachable(bi):
            continue
        for st in blk["s"]:
            if st["k"] == "assign" and st["p"]["l"] == 0 and not st["p"]["p"] and st["rv"]["k"] == "agg" and st["rv"].get("vname") == "Ok":
                out.append(bi)
    for bi, t in b.calls():
        # a result forwarded from a callee (`self.add_table_inner(..)` as the tail expression)
        if t.get("dest") and t["dest"]["l"] == 0 and not t["dest"]["p"] and not str(t["callee"].get("path") or "").endswith("FromResidual::from_residual"):
            out.append(bi)
    return out


def _always_inserts(fx, b, depth=0):
    """every path from the entry of `b` to a return passes an insertion into a map, or a call of a FontBuilder function that always inserts"""
    import reach
    through = _insert_blocks(fx, b, depth)
    rets = [bi for bi in range(len(b.blocks)) if b.reachable(bi) and b.term(bi)["k"] == "return"]
    return bool(through) and bool(rets) and reach.must_pass(b, 0, rets, through)


def _insert_blocks(fx, b, depth=0):
    out = []
    for bi, t in b.calls():
        p = str(t["callee"].get("path") or "")
        if p.endswith("::insert"):
            out.append(bi)
        elif depth < 2 and re.match(r"^subset::FontBuilder(WithHead)?::\w+$", p) and not p.endswith(("::add_table_inner", "::add_table")):
            hb = fx.body(p)
            if hb is not None and hb is not b and _always_inserts(fx, hb, depth + 1):
                out.append(bi)
    return out


def t09_add(run, fx, floors=True):
    import reach
    rule = "T09-ADD"
    run.rule(rule, "every table handed to the font builder is in the font that is written: in FontBuilder::add_table_inner every path to an Ok result "
                   "passes the insertion into the table map, and in every other add_* function of FontBuilder / FontBuilderWithHead every path to an Ok "
                   "result passes a call that stores the table (add_table_inner / add_table). A table that is silently left out (an empty glyf next to a "
                   "loca that is written) makes the output inconsistent while the call reports success")
    n = 0
    for b in fx.bodies:
        if b.kind == "Closure" or not re.match(r"^subset::FontBuilder(WithHead)?::add_\w+$", b.root):
            continue
        oks = _ok_blocks(b)
        if not oks:
            continue
        short = b.root.split("::", 1)[1]
        if b.root.endswith("::add_table_inner"):
            through = _insert_blocks(fx, b)
            what = "the insertion into the table map"
        else:
            through = [bi for bi, t in b.calls() if callee_is(t, "add_table_inner", "FontBuilder::add_table")]
            what = "a call of add_table_inner / add_table"
        n += 1
        if not through:
            run.fail(rule, "add:%s:missing" % short, "%s has an Ok result but never reaches %s" % (b.path, what), "%s:%s" % (b.file, b.line))
        elif reach.must_pass(b, 0, oks, through):
            run.ok(rule, "%s: every Ok result passes %s" % (short, what))
        else:
            run.fail(rule, "add:%s:bypass" % short, "a path to an Ok result of %s bypasses %s: the caller is told the table was added and the font is written without it" % (b.path, what),
                     "%s:%s" % (b.file, b.line))
    if floors:
        run.floor(rule, "add_* functions of the font builder", n, 4)


def check(run, fx, tier, floors=True):
    if floors:
        # a subset or instanced CFF font starts with the header the writer emits: its announced size must be the size written (shared with C15)
        import rules_C15
        rules_C15.c15_s(run, fx, floors)
    t09_prod(run, fx)
    t09_magic(run, fx)
    if floors or any(b.root.endswith('FontBuilder::add_table_inner') for b in fx.bodies):
        t09_add(run, fx, floors)
    t09_order(run, fx)
    t09_sum(run, fx)
    t09_rec(run, fx)
    t09_sort(run, fx)
    t09_loca(run, fx)
    if floors or any(b.root.endswith("Woff2TableProvider::new") for b in fx.bodies):
        t09_loca_woff2(run, fx)
    t09_stale(run, fx)
    if floors or fx.body("variations::instance") is not None:
        t09_hhea2(run, fx)
    if floors or fx.body("subset::create_hmtx_table") is not None:
        import rules_C07
        rules_C07.t07_hmtx(run, fx)
    if floors or fx.adt("tables::glyf::CompositeGlyphs") is not None:
        # the glyf composite codec is shared: reader (used by the WOFF2 reconstruction) and writer must agree on the instruction flag
        import rules_C15
        rules_C15.c15_g(run, fx)
    narrowing.rule_narrowing(run, fx, "T09-NARROW", floors=False, roots=None,
                             select=lambda b: b.root.startswith(("subset::FontBuilder", "subset::max_power_of_2", "checksum::")))
