"""C04 — GSUB lookup semantics: the structural clauses.

T04-TYPE  GSUB lookup type numbers map to the specification's lookup kinds (1..8, 7 = extension)
T04-RD    read_lookup_gsub builds, for every lookup type, the SubstLookup variant and subtable reader of that type
T04-FLAG  lookup flag masks equal the specification; IGNORE_MARKS takes precedence
T04-ORD   lookups of the enabled features are accumulated in a BTreeMap keyed by lookup index and consumed in key order
T04-RVRN  rvrn lookups are applied before every other lookup
T04-SKIP  positions inside a matched sequence are located with the lookup-flag-aware iterator
T04-DISP  the three dispatchers over SubstLookup have an arm for every lookup kind
T04-REC   nested contextual lookups are depth bounded (rule C01-a on the gsub cycles)
"""
import re

import recursion
import shape
import sym
from facts import callee_is

LEVEL = "other"
EXPLANATION = (
    "Decides the clauses of C04 that are visible in the shape of the code. Lookup order: the functions that build a lookup application list "
    "accumulate (lookup index -> feature tag) in a BTreeMap<usize, u32> whose keys come from usize::from(lookup_index) over the feature's "
    "lookup_indices, nothing but insert/extend/into_iter/collect ever touches that map, and the consumers iterate it in key order — so enabled "
    "features' lookups are applied in lookup-list order, each once, for every feature set; rvrn lookups are applied first (no path from another "
    "lookup application back to an rvrn application). Spec tables read from the compiled program: lookup type numbers 1-8 (7 = extension) in "
    "GSUB::check_lookup_type, the lookup-type -> subtable reader agreement in read_lookup_gsub, lookup flag masks 0x0001/0x0002/0x0004/0x0008/"
    "0x0010/0xFF00 with IGNORE_MARKS tested first. Dispatch exhaustiveness: gsub_apply_lookup, gsub_lookup_would_apply and apply_subst have an "
    "arm for each of the seven SubstLookup kinds. Nested lookups: every recursive cycle threads recursion_limit - 1 under a > 0 guard."
)
NOT_DECIDED = (
    "glyph matching and skipping, context rule selection, application of nested lookups at the recorded sequence positions, left-to-right "
    "iteration arithmetic, ligature component bookkeeping and first-matching-subtable order are value/sequence properties and are not decided."
)
ASSUMPTIONS = ["BTreeMap iterates in ascending key order and keeps one value per key (std contract)"]

GSUB_TYPES = {1: "SingleSubst", 2: "MultipleSubst", 3: "AlternateSubst", 4: "LigatureSubst", 5: "ContextSubst", 6: "ChainContextSubst",
              7: "Extension", 8: "ReverseChainSingleSubst"}
READERS = {"SingleSubst": "layout::SingleSubst", "MultipleSubst": "layout::MultipleSubst", "AlternateSubst": "layout::AlternateSubst",
           "LigatureSubst": "layout::LigatureSubst", "ContextSubst": "layout::ContextLookup<layout::GSUB>",
           "ChainContextSubst": "layout::ChainContextLookup<layout::GSUB>", "ReverseChainSingleSubst": "layout::ReverseChainSingleSubst"}
FLAG_FNS = {"get_rtl": 0x0001, "get_ignore_bases": 0x0002, "get_ignore_ligatures": 0x0004, "use_mark_filtering_set": 0x0010}
MAP_OK = ("std::collections::BTreeMap::<K, V>::new", "std::collections::BTreeMap::<K, V, A>::insert", "std::iter::Extend::extend",
          "std::iter::IntoIterator::into_iter", "std::collections::BTreeMap::<K, V, A>::iter", "std::collections::BTreeMap::<K, V, A>::len",
          "std::collections::BTreeMap::<K, V, A>::is_empty")
ORDER_BREAKERS = re.compile(r"::(sort\w*|reverse|rev|dedup\w*|swap\w*|retain|rotate_\w+|shuffle)$")


def t04_type(run, fx):
    rule = "T04-TYPE"
    run.rule(rule, "GSUB::check_lookup_type is the table {1: Single, 2: Multiple, 3: Alternate, 4: Ligature, 5: Context, 6: ChainContext, "
                   "7: Extension, 8: ReverseChainSingle}; every other number is an error")
    lookup_type_table(run, fx, rule, "<layout::GSUB as layout::LayoutTableType>::check_lookup_type", GSUB_TYPES, "GSUB")


def lookup_type_table(run, fx, rule, path, GSUB_TYPES, table):
    import tableread
    b = fx.body(path)
    if b is None:
        return run.anchor_missing(rule, path)
    mt = tableread.match_table(b)
    if mt is None:
        return run.fail(rule, "lookup-type:shape", "check_lookup_type is not a match table", "%s:%s" % (b.file, b.line))
    discr, arms, other, bi = mt
    for v, want in sorted(GSUB_TYPES.items()):
        got = shape.variant_names(arms[v]) if v in arms and arms[v] else []
        if got and got[0] == "Ok" and got[-1] == want:
            run.ok(rule, "lookup type %d -> %s" % (v, want))
        else:
            run.fail(rule, "lookup-type:%d" % v, "%s lookup type %d should be %s, found %s" % (table, v, want, got or "no arm"), "%s:%s" % (b.file, b.line))
    for v in arms:
        if v not in GSUB_TYPES:
            run.fail(rule, "lookup-type:%d" % v, "%s lookup type %d is not defined by the specification but is accepted" % (table, v), "%s:%s" % (b.file, b.line))
    on = shape.variant_names(other) if other else []
    if on and on[0] == "Err":
        run.ok(rule, "unknown lookup types are rejected")
    else:
        run.fail(rule, "lookup-type:otherwise", "an unknown lookup type is not rejected (%s)" % on, "%s:%s" % (b.file, b.line))


def t04_rd(run, fx):
    rule = "T04-RD"
    run.rule(rule, "read_lookup_gsub: for every SubstLookupType variant the arm builds the SubstLookup variant of the same name from "
                   "read_subtables::<T> with T the subtable type of that lookup kind")
    reader_dispatch(run, fx, rule, "::read_lookup_gsub", "layout::SubstLookupType", "layout::SubstLookup", READERS)


def reader_dispatch(run, fx, rule, fn_suffix, type_enum, lookup_enum, READERS):
    bs = [b for b in fx.bodies if b.path.endswith(fn_suffix) and b.kind != "Closure"]
    if len(bs) != 1:
        return run.anchor_missing(rule, fn_suffix)
    b = bs[0]
    adt = fx.adt(type_enum)
    if adt is None:
        return run.anchor_missing(rule, type_enum)
    variants = {v["discr"]: v["name"] for v in adt["variants"]}
    sw = [(bi, t) for bi, t, pty in shape.discr_switches(b) if shape.strip_ty(pty) == type_enum]
    if len(sw) != 1:
        return run.fail(rule, "read-dispatch:shape", "expected one switch on %s, found %d" % (type_enum, len(sw)), "%s:%s" % (b.file, b.line))
    bi, t = sw[0]
    targets = {v: tgt for v, tgt in t["arms"]}
    all_starts = set(targets.values()) | {t["otherwise"]}
    for d, name in sorted(variants.items()):
        start = targets.get(d, t["otherwise"])
        region = b.reach_from(start, avoid=frozenset(all_starts - {start}))
        # stop at the join: only blocks dominated by the arm start
        region = {x for x in region if b.dominates(start, x)}
        built, readers = [], []
        for x in sorted(region):
            for s in b.stmts(x):
                if s["k"] == "assign" and s["rv"]["k"] == "agg" and s["rv"].get("adt") == lookup_enum:
                    built.append(s["rv"]["vname"])
            tt = b.term(x)
            if tt["k"] == "call" and callee_is(tt, "::read_subtables"):
                readers.append((tt["callee"].get("args") or ["?"])[-1])
        want_r = READERS.get(name)
        if built == [name] and readers == [want_r]:
            run.ok(rule, "%s -> %s::%s(read_subtables::<%s>)" % (name, lookup_enum.split("::")[-1], name, want_r))
        else:
            run.fail(rule, "read-dispatch:%s" % name, "lookup kind %s builds %s from read_subtables::<%s>; expected %s::%s from %s" % (
                name, built, readers, lookup_enum.split("::")[-1], name, want_r), b.loc(t))


def t04_flag(run, fx):
    rule = "T04-FLAG"
    run.rule(rule, "LookupFlag accessors test the specification's bits (rtl 0x0001, ignoreBaseGlyphs 0x0002, ignoreLigatures 0x0004, "
                   "useMarkFilteringSet 0x0010); get_ignore_marks tests ignoreMarks 0x0008 first and then markAttachmentType 0xFF00 (>> 8)")
    for fn, mask in sorted(FLAG_FNS.items()):
        b = fx.body("context::LookupFlag::" + fn)
        if b is None:
            run.anchor_missing(rule, "context::LookupFlag::" + fn)
            continue
        ret = sym.strip(sym.Prov(b).local(0))
        ok = False
        if ret[0] == "bin" and ret[1] == "Ne":
            a, z = sym.strip(ret[2]), sym.strip(ret[3])
            if a[0] == "bin" and a[1] == "BitAnd" and z[0] == "c" and z[1] == 0:
                ms = [x[1] for x in (sym.strip(a[2]), sym.strip(a[3])) if x[0] == "c"]
                ok = ms == [mask]
        if ok:
            run.ok(rule, "%s tests %#06x" % (fn, mask))
        else:
            run.fail(rule, "flag:%s" % fn, "%s does not test (flags & %#06x) != 0: %s" % (fn, mask, sym.show(ret)[:80]), "%s:%s" % (b.file, b.line))
    b = fx.body("context::LookupFlag::get_ignore_marks")
    if b is None:
        return run.anchor_missing(rule, "context::LookupFlag::get_ignore_marks")
    prov = sym.Prov(b)
    # decision list along the false edges from the entry
    order = []
    bb = 0
    seen = set()
    while bb not in seen:
        seen.add(bb)
        t = b.term(bb)
        if t["k"] == "switch" and t.get("dty") == "bool":
            d = sym.strip(prov.op(t["discr"]))
            fb = [tg for v, tg in t["arms"] if v == 0]
            tb = t["otherwise"]
            mask = None
            if d[0] == "bin" and d[1] == "Ne":
                a = sym.strip(d[2])
                if a[0] == "bin" and a[1] == "BitAnd":
                    ms = [x[1] for x in (sym.strip(a[2]), sym.strip(a[3])) if x[0] == "c"]
                    mask = ms[0] if ms else None
            res = None
            cur = tb
            for _ in range(6):
                for s in b.stmts(cur):
                    if s["k"] == "assign" and s["p"]["l"] == 0 and s["rv"]["k"] == "agg":
                        res = s["rv"]["vname"]
                tt = b.term(cur)
                if res or tt["k"] not in ("goto", "assert"):
                    break
                cur = tt["target"]
            order.append((mask, res))
            if not fb:
                break
            bb = fb[0]
        elif t["k"] in ("goto", "call", "assert") and t.get("target") is not None:
            bb = t["target"]
        else:
            break
    want = [(0x0008, "IgnoreAllMarks"), (0xFF00, "IgnoreMarksExcept")]
    if order[:2] == want:
        run.ok(rule, "get_ignore_marks: 0x0008 -> IgnoreAllMarks, then 0xFF00 -> IgnoreMarksExcept")
    else:
        run.fail(rule, "flag:get_ignore_marks", "decision order/masks %s differ from %s" % (order[:3], want), "%s:%s" % (b.file, b.line))
    # the attachment class is flags >> 8
    shr = [s for blk in b.blocks for s in blk["s"] if s["k"] == "assign" and s["rv"]["k"] == "bin" and s["rv"]["bop"] == "Shr"]
    if len(shr) == 1 and shr[0]["rv"]["b"].get("val") == 8:
        run.ok(rule, "mark attachment class = flags >> 8")
    else:
        run.fail(rule, "flag:attach-shift", "mark attachment class is not flags >> 8", "%s:%s" % (b.file, b.line))


def aliases(b, l0):
    s = {l0}
    changed = True
    while changed:
        changed = False
        for bi, blk in enumerate(b.blocks):
            for st in blk["s"]:
                if st["k"] != "assign" or st["p"]["p"]:
                    continue
                rv = st["rv"]
                src = None
                if rv["k"] in ("ref", "rawptr"):
                    src = rv["p"]
                elif rv["k"] == "use" and rv["op"]["k"] in ("copy", "move"):
                    src = rv["op"]["p"]
                if src is not None and src["l"] in s and all(e == "*" for e in src["p"]) and st["p"]["l"] not in s:
                    s.add(st["p"]["l"])
                    changed = True
    return s


def t04_ord(run, fx):
    rule = "T04-ORD"
    run.rule(rule, "each builder of a lookup application list accumulates into a local BTreeMap<usize, u32> touched only by new/insert/extend/"
                   "into_iter, with keys usize::from(lookup_index); no order-changing call appears in the builder; LookupsCustom.lookups is that "
                   "BTreeMap and its consumer iterates it with into_iter")
    for path in ("gsub::build_lookups_default", "gsub::build_lookups_custom"):
        b = fx.body(path)
        if b is None:
            run.anchor_missing(rule, path)
            continue
        ls = [l for l in range(len(b.locals)) if b.local_name(l) == "lookups"]
        if len(ls) != 1:
            run.anchor_missing(rule, "local `lookups` of %s" % path)
            continue
        l0 = ls[0]
        ty = b.local_ty(l0)
        if not ty.startswith("std::collections::BTreeMap<usize, u32"):
            run.fail(rule, "order:%s:type" % path, "the lookup accumulator of %s is %s, not BTreeMap<usize, u32>: lookups would not be applied in lookup-list order" % (path, ty), "%s:%s" % (b.file, b.line))
            continue
        run.ok(rule, "%s: accumulator is %s" % (path, ty))
        bad = []
        keys_state = [True]

        def touch(fb, acc_local, depth=0):
            """calls that receive the accumulator (or an alias): map operations, or - when the insertion loop was extracted - a private
            helper of the module, whose parameter is then held to the same discipline"""
            al_ = aliases(fb, acc_local)
            for bi, t in fb.calls():
                hit = [k for k, a in enumerate(t["args"]) if a["k"] in ("copy", "move") and a["p"]["l"] in al_]
                if not hit:
                    continue
                p = t["callee"].get("path") or ""
                if p in MAP_OK:
                    if p.endswith("::insert"):
                        k = sym.Prov(fb).op(t["args"][1])
                        if not key_from_lookup_index(k):
                            keys_state[0] = False
                    continue
                hb = fx.body(p) if p.startswith("gsub::") and depth < 2 else None
                if hb is not None and hb.kind != "Closure" and not ORDER_BREAKERS.search(p):
                    for k in hit:
                        touch(hb, k + 1, depth + 1)
                    for _, t2 in hb.calls():
                        if ORDER_BREAKERS.search(t2["callee"].get("path") or ""):
                            bad.append(t2["callee"].get("path"))
                    continue
                bad.append(p)
        touch(b, l0)
        keys_ok = keys_state[0]
        fam = fx.family(b)
        for fb in fam:
            for bi, t in fb.calls():
                p = t["callee"].get("path") or ""
                if ORDER_BREAKERS.search(p):
                    bad.append(p)
            if fb is not b:
                # closure producing (key, tag) pairs for extend(): first tuple field is usize::from(lookup_index)
                pv = sym.Prov(fb)
                ret = sym.strip(pv.local(0))
                if ret[0] == "agg" and ret[1] == "tuple" and len(ret[3]) == 2:
                    if not key_from_lookup_index(ret[3][0]):
                        keys_ok = False
        if bad:
            run.fail(rule, "order:%s:ops" % path, "the lookup accumulator of %s is also touched by %s" % (path, sorted(set(bad))), "%s:%s" % (b.file, b.line))
        else:
            run.ok(rule, "%s: accumulator touched only by new/insert/extend/into_iter" % path)
        if keys_ok:
            run.ok(rule, "%s: keys are usize::from(lookup_index)" % path)
        else:
            run.fail(rule, "order:%s:key" % path, "a key inserted into the lookup accumulator of %s is not usize::from(lookup_index)" % path, "%s:%s" % (b.file, b.line))
    adt = fx.adt("gsub::LookupsCustom")
    if adt is None:
        run.anchor_missing(rule, "gsub::LookupsCustom")
    else:
        f = [f for v in adt["variants"] for f in v["fields"] if f["name"] == "lookups"]
        if f and f[0]["ty"].startswith("std::collections::BTreeMap<usize, u32"):
            run.ok(rule, "LookupsCustom.lookups: %s" % f[0]["ty"])
        else:
            run.fail(rule, "order:LookupsCustom.lookups", "LookupsCustom.lookups is %s, not BTreeMap<usize, u32>" % (f[0]["ty"] if f else "missing"), "%s:%s" % (adt["file"], adt["line"]))
    # build_lookups_default returns the map's into_iter().collect()
    b = fx.body("gsub::build_lookups_default")
    if b is not None:
        prov = sym.Prov(b)
        oks = []
        for bi, blk in enumerate(b.blocks):
            if not b.reachable(bi):
                continue
            for s in blk["s"]:
                if s["k"] == "assign" and s["p"]["l"] == 0 and s["rv"]["k"] == "agg" and s["rv"].get("vname") == "Ok":
                    oks.append(sym.strip(prov.op(s["rv"]["fields"][0])))
        good = bool(oks)
        for t in oks:
            names = [x[4] or x[1] for x in sym.walk(t) if x[0] == "call"]
            if not (names and names[0].endswith("Iterator::collect") and any(n.endswith("IntoIterator::into_iter") for n in names)
                    and not any(ORDER_BREAKERS.search(n or "") for n in names)):
                good = False
        if good:
            run.ok(rule, "build_lookups_default returns lookups.into_iter().collect() (ascending lookup index)")
        else:
            run.fail(rule, "order:build_lookups_default:return", "build_lookups_default does not return the accumulator's into_iter().collect()", "%s:%s" % (b.file, b.line))


def key_from_lookup_index(k):
    """the (unstripped) key term is usize::from(<u16>)"""
    while k[0] in ("ref", "deref"):
        k = k[1]
    return k[0] == "call" and bool(re.search(r"From<u16> for usize>::from$", k[1] or ""))


def t04_rvrn(run, fx):
    rule = "T04-RVRN"
    run.rule(rule, "in gsub_apply_custom every gsub_apply_lookup with the constant tag RVRN precedes (is not reachable from) every other lookup "
                   "application; in gsub_apply_default apply_rvrn precedes every script shaper / lookup application")
    RVRN = 0x7276726E
    b = fx.body("gsub::gsub_apply_custom")
    if b is None:
        run.anchor_missing(rule, "gsub::gsub_apply_custom")
    else:
        prov = sym.Prov(b)
        rv, other = [], []
        for bi, t in b.calls():
            if callee_is(t, "gsub::gsub_apply_lookup"):
                cb = fx.body("gsub::gsub_apply_lookup")
                pos = None
                if cb is not None:
                    for l in range(1, cb.arg_count + 1):
                        if cb.local_name(l) == "feature_tag":
                            pos = l - 1
                if pos is None or pos >= len(t["args"]):
                    run.anchor_missing(rule, "parameter feature_tag of gsub_apply_lookup")
                    return
                tag = sym.strip(prov.op(t["args"][pos]))
                val = tag[1] if tag[0] == "c" else None
                if tag[0] == "uneval":
                    c = fx.const(tag[1])
                    val = c.get("val") if c else None
                (rv if val == RVRN else other).append(bi)
        if not rv or not other:
            run.anchor_missing(rule, "rvrn and non-rvrn gsub_apply_lookup calls in gsub_apply_custom (found %d/%d)" % (len(rv), len(other)))
        else:
            late = [r for r in rv if any(r in b.reach_from(o) for o in other)]
            if late:
                run.fail(rule, "rvrn:custom", "an rvrn lookup application is reachable from another lookup application", b.loc(b.term(late[0])))
            else:
                run.ok(rule, "gsub_apply_custom: %d rvrn application(s) precede %d other application(s)" % (len(rv), len(other)))
    b = fx.body("gsub::gsub_apply_default")
    if b is None:
        run.anchor_missing(rule, "gsub::gsub_apply_default")
    else:
        rv = [bi for bi, t in b.calls() if callee_is(t, "gsub::apply_rvrn")]
        other = [bi for bi, t in b.calls() if re.search(r"gsub_apply_(arabic|indic|khmer|myanmar|syriac|thai_lao|lookups\w*|lookup)$|morx::apply$", (t["callee"].get("path") or ""))]
        if not rv or not other:
            run.anchor_missing(rule, "apply_rvrn and shaper calls in gsub_apply_default (found %d/%d)" % (len(rv), len(other)))
        else:
            late = [r for r in rv if any(r in b.reach_from(o) for o in other)]
            if late:
                run.fail(rule, "rvrn:default", "apply_rvrn is reachable from a lookup application", b.loc(b.term(late[0])))
            else:
                run.ok(rule, "gsub_apply_default: apply_rvrn precedes %d shaper/lookup application(s)" % len(other))


def t04_skip(run, fx):
    rule = "T04-SKIP"
    run.rule(rule, "positions inside a matched sequence come from the lookup-flag-aware iterator: apply_subst locates the nested lookup's glyph "
                   "with parent_match_type.find_nth(.., index, subst_index) and hands exactly that position to every substitution; "
                   "apply_subst_context derives the length of the matched input from match_type.find_nth (skipped glyphs are counted)")
    b = fx.body("gsub::apply_subst")
    if b is None:
        run.anchor_missing(rule, "gsub::apply_subst")
    else:
        prov = sym.Prov(b)
        fn = [(bi, t) for bi, t in b.calls() if callee_is(t, "context::MatchType::find_nth")]
        good = False
        for bi, t in fn:
            args = [sym.strip(prov.op(a)) for a in t["args"]]
            names = set()
            for a in args:
                while a[0] in ("ref", "deref"):
                    a = sym.strip(a[1])
                if a[0] == "arg":
                    names.add(a[2])
            if {"parent_match_type", "index", "subst_index"} <= names:
                good = True
        if not good:
            run.fail(rule, "skip:apply_subst:find_nth", "apply_subst does not locate the nested lookup position with parent_match_type.find_nth(glyphs, index, subst_index)", "%s:%s" % (b.file, b.line))
        else:
            run.ok(rule, "apply_subst: position = parent_match_type.find_nth(.., index, subst_index)")
            # every substitution callee receives that position (directly, or as the index of glyphs[i])
            subs = ("gsub::singlesubst", "gsub::multiplesubst", "gsub::alternatesubst", "gsub::ligaturesubst", "gsub::contextsubst",
                    "gsub::chaincontextsubst", "gsub::reversechainsinglesubst")
            n = 0
            for bi, t in b.calls():
                if not callee_is(t, *subs):
                    continue
                n += 1
                hit = False
                for a in t["args"]:
                    term = prov.op(a)
                    for x in sym.walk(term):
                        if x[0] == "call" and (x[1] or "").endswith("MatchType::find_nth"):
                            hit = True
                if hit:
                    run.ok(rule, "apply_subst -> %s at the located position" % (t["callee"].get("path") or "").split("::")[-1])
                else:
                    run.fail(rule, "skip:apply_subst:%s" % (t["callee"].get("path") or "").split("::")[-1], "a nested substitution is not applied at the position located by find_nth", b.loc(t))
            if n < 7:
                run.anchor_missing(rule, "seven substitution calls in apply_subst (found %d)" % n)
            # T04-NEST: the match type a nested substitution receives is the nested lookup's own (from its lookup flag),
            # never the parent's: the parent's flags only locate the position
            rule2 = "T04-NEST"
            run.rule(rule2, "apply_subst: every MatchType handed to a nested substitution (ligature, context, chain context, reverse chain) is "
                            "MatchType::from_lookup_flag of the nested lookup's own flags; parent_match_type is used only by find_nth to locate the position")
            m = 0
            for bi, t in b.calls():
                if not callee_is(t, *subs):
                    continue
                tys = t["callee"].get("sig_args") or []
                for a in t["args"]:
                    if a["k"] not in ("copy", "move"):
                        continue
                    ty = (a["p"].get("ty") or "")
                    if not ty.endswith("MatchType"):
                        continue
                    m += 1
                    term = sym.strip(prov.op(a))
                    nm = (t["callee"].get("path") or "").split("::")[-1]
                    if term[0] == "call" and (term[4] or term[1] or "").endswith("MatchType::from_lookup_flag"):
                        run.ok(rule2, "apply_subst -> %s with the nested lookup's own match type" % nm)
                    else:
                        run.fail(rule2, "nest:apply_subst:%s" % nm, "apply_subst hands %s the match type %s instead of the nested lookup's own "
                                 "MatchType::from_lookup_flag(..): glyphs are skipped by the wrong lookup's flags" % (nm, sym.show(term)[:60]), b.loc(t))
            if m < 4:
                run.anchor_missing(rule2, "MatchType arguments of nested substitutions in apply_subst (found %d)" % m)
    b = fx.body("gsub::apply_subst_context")
    if b is None:
        return run.anchor_missing(rule, "gsub::apply_subst_context")
    prov = sym.Prov(b)
    import reach
    found = False
    ok = True
    for bi, blk in enumerate(b.blocks):
        if not b.reachable(bi):
            continue
        for si, s in enumerate(blk["s"]):
            if s["k"] == "assign" and s["rv"]["k"] == "agg" and s["rv"].get("agg") == "tuple" and len(s["rv"]["fields"]) == 2:
                # candidate (new_len, changes) tuple: first field must derive from find_nth
                t0 = prov.op(s["rv"]["fields"][0])
                ty0 = s["rv"]["fields"][0]
                alts = reach.sources(b, prov, t0, (bi, si))
                terms = [a[0] if (isinstance(a, tuple) and len(a) == 2 and isinstance(a[1], tuple) and not isinstance(a[0], str)) else a for a in alts]
                for tt in terms:
                    found = True
                    if not any(x[0] == "call" and (x[1] or "").endswith("MatchType::find_nth") for x in sym.walk(tt)) and not _len_via_local(b, prov, tt):
                        ok = False
    if not found:
        return run.anchor_missing(rule, "(length, changes) result of apply_subst_context")
    if ok:
        run.ok(rule, "apply_subst_context: matched length derives from match_type.find_nth")
    else:
        run.fail(rule, "skip:apply_subst_context:len", "the matched input length does not derive from match_type.find_nth: glyphs skipped by the lookup flag are not counted", "%s:%s" % (b.file, b.line))


def _len_via_local(b, prov, tt):
    """the term reaches find_nth through one more multi-definition local (len/new_len)"""
    import reach
    for x in sym.walk(tt):
        if x[0] == "local":
            for d in b.defs().get(x[1], []):
                dt = reach.def_term(b, prov, d)
                if any(y[0] == "call" and (y[1] or "").endswith("MatchType::find_nth") for y in sym.walk(dt)):
                    return True
                for y in sym.walk(dt):
                    if y[0] == "local" and y[1] != x[1]:
                        for d2 in b.defs().get(y[1], []):
                            dt2 = reach.def_term(b, prov, d2)
                            if any(z[0] == "call" and (z[1] or "").endswith("MatchType::find_nth") for z in sym.walk(dt2)):
                                return True
    return False


def t04_disp(run, fx):
    rule = "T04-DISP"
    run.rule(rule, "gsub_apply_lookup, gsub_lookup_would_apply and apply_subst switch on the SubstLookup discriminant with an arm for each of the seven kinds")
    for path in ("gsub::gsub_apply_lookup", "gsub::gsub_lookup_would_apply", "gsub::apply_subst"):
        b = fx.body(path)
        if b is None:
            run.anchor_missing(rule, path)
            continue
        n, problems = shape.exhaustive_dispatch(fx, b, "layout::SubstLookup")
        if n == 0:
            run.fail(rule, "dispatch:%s:none" % path, "%s no longer dispatches on SubstLookup" % path, "%s:%s" % (b.file, b.line))
        for bi, missing, t in problems:
            run.fail(rule, "dispatch:%s:%s" % (path, ",".join(missing)), "%s: lookup kind(s) %s fall into a wildcard arm" % (path, missing), b.loc(t))
        if n and not problems:
            run.ok(rule, "%s: %d dispatch(es), all seven kinds listed" % (path, n))


def t04_marks(run, fx):
    rule = "T04-MARKS"
    run.rule(rule, "MatchType::match_glyph: the three mark-skipping modes (IgnoreAllMarks, IgnoreMarksExcept a class, IgnoreMarksInSet) decide "
                   "only about MARK glyphs - in each arm a glyph whose GDEF class is not 3 matches (the arm compares glyph_class with 3 before "
                   "anything else can reject the glyph); the OpenType lookup flags IgnoreMarks, MarkAttachmentType and UseMarkFilteringSet never "
                   "skip base or ligature glyphs")
    bs = [b for b in fx.bodies if b.kind != "Closure" and b.root == "context::MatchType::match_glyph"]
    if not bs:
        return run.anchor_missing(rule, "context::MatchType::match_glyph")
    import shape
    b = bs[0]
    prov = sym.Prov(b)
    sws = [(bi, t) for bi, t in ((i, blk["t"]) for i, blk in enumerate(b.blocks)) if t["k"] == "switch" and b.reachable(bi)]
    arms = None
    for bi, t in sws:
        d = sym.strip(prov.op(t["discr"]))
        if d[0] == "discr" and any(x[0] == "field" and x[2] == "ignore_marks" for x in sym.walk(d)):
            arms = (bi, t)
    if arms is None:
        return run.anchor_missing(rule, "switch on the IgnoreMarks discriminant in match_glyph")
    adt = fx.adt("context::IgnoreMarks")
    names = {i: v["name"] for i, v in enumerate(adt["variants"])} if adt else {}
    import guards

    def is_class(o):
        return any(x[0] == "call" and (x[1] or "").endswith("glyph_class") for x in sym.walk(o))

    def mark_test(term):
        """+1 if term is true exactly for marks (class == 3), -1 if true exactly for non-marks, else 0"""
        term = sym.strip(term)
        sign = 1
        while term[0] == "un" and term[1] == "Not":
            sign = -sign
            term = sym.strip(term[2])
        if term[0] == "bin" and term[1] in ("Eq", "Ne"):
            a, c = sym.strip(term[2]), sym.strip(term[3])
            if (a[0] == "c" and a[1] == 3 and is_class(c)) or (c[0] == "c" and c[1] == 3 and is_class(a)):
                return sign if term[1] == "Eq" else -sign
        return 0

    # blocks entered only when the glyph is a mark
    mark_blocks = set()
    for tb, fb, op, a, c, sw in guards.branch_conditions(b, prov):
        k = mark_test(("bin", op, a, c))
        tgt_mark = tb if k == 1 else (fb if k == -1 else None)
        if tgt_mark is not None:
            mark_blocks |= {i for i in range(len(b.blocks)) if b.reachable(i) and b.dominates(tgt_mark, i)}
    n = 0
    for val, tgt in arms[1]["arms"]:
        name = names.get(val, str(val))
        if name == "NoIgnoreMarks":
            continue
        n += 1
        # blocks of this arm: dominated by the arm target. Every value the arm can return is `true`, or is true for every non-mark glyph
        # (the negated class test itself), or is produced where the glyph is known to be a mark.
        blocks = [i for i in range(len(b.blocks)) if b.reachable(i) and b.dominates(tgt, i)]
        bad = []
        results = 0
        for i in blocks:
            vals = [(st, prov.rvalue(st["rv"])) for st in b.blocks[i]["s"] if st["k"] == "assign" and st["p"]["l"] == 0 and not st["p"]["p"]]
            t = b.term(i)
            if t["k"] == "call" and t["dest"]["l"] == 0 and not t["dest"]["p"]:
                vals.append((t, ("call", t["callee"].get("path"), (), i, None, None)))
            for item, v in vals:
                results += 1
                v = sym.strip(v)
                if v[0] == "c" and v[1] in (1, True):
                    continue
                if mark_test(v) == -1 or i in mark_blocks:
                    continue
                bad.append(item)
        if results and not bad:
            run.ok(rule, "match_glyph / %s: non-mark glyphs (class != 3) match" % name)
        elif not results:
            run.anchor_missing(rule, "result of the %s arm of match_glyph" % name)
        else:
            run.fail(rule, "marks:%s" % name, "match_glyph / %s can reject a glyph whose class is not 3 (a result other than `true` is produced without the glyph being known "
                     "to be a mark): base and ligature glyphs are skipped by a flag that, by the specification, only filters marks" % name,
                     b.loc(bad[0]) if bad[0].get("line") else "%s:%s" % (b.file, b.line))
    if n < 3:
        run.anchor_missing(rule, "three mark-skipping arms in match_glyph (found %d)" % n)


def t04_fmask(run, fx):
    rule = "T04-FMASK"
    run.rule(rule, "the feature table is complete and spelled right: every FeatureMask flag has exactly one row in gsub::FEATURE_MASKS, every row is a "
                   "single flag, and the row's tag is the OpenType feature tag the flag is named after (ABVF -> 'abvf', RVRN -> 'rvrn', ...); "
                   "FeatureMask::iter and as_tag unwrap the row of every set bit, and apply_rvrn / the feature collectors look features up by these tags")
    tab = fx.const("gsub::FEATURE_MASKS")
    flags = {}
    for c in fx.tables["consts"]:
        if c["path"].startswith("gsub::FeatureMask::") and isinstance(c.get("val"), int) and c.get("newtype"):
            flags[c["path"].split("::")[-1]] = c["val"]
    if tab is None or not tab.get("bytes") or not flags:
        return run.anchor_missing(rule, "gsub::FEATURE_MASKS bytes / FeatureMask flag constants")
    raw = bytes.fromhex(tab["bytes"])
    size = (tab.get("elem_layout") or {}).get("size") or 16
    n = tab.get("slice_len") or (len(raw) // size)
    rows = []
    for i in range(n):
        r = raw[i * size:(i + 1) * size]
        mask = int.from_bytes(r[0:8], "little")
        tag = int.from_bytes(r[8:12], "little")
        rows.append((mask, tag.to_bytes(4, "big").decode("latin1")))
    by_mask = {}
    for m, t in rows:
        by_mask.setdefault(m, []).append(t)
    bad = []
    for name, v in sorted(flags.items()):
        got = by_mask.get(v, [])
        if len(got) != 1:
            bad.append("%s has %d row(s)" % (name, len(got)))
            continue
        want = {name.lower()} if len(name) == 4 else {x.lower() for x in name.split("_OR_")}
        if got[0] not in want:
            bad.append("%s is paired with the tag '%s'" % (name, got[0]))
    for m, ts in by_mask.items():
        if m not in flags.values():
            bad.append("row with mask %#x ('%s') is not a FeatureMask flag" % (m, ts[0]))
    if bad:
        run.fail(rule, "feature-mask-table", "gsub::FEATURE_MASKS and the FeatureMask flags disagree: %s - iterating a mask with such a bit panics on "
                 "as_tag().unwrap(), and the feature is never found by its tag" % "; ".join(bad[:6]), "%s:%s" % (tab.get("file"), tab.get("line")))
    else:
        run.ok(rule, "%d flags, %d rows, one row per flag, tags spelled as the flags" % (len(flags), len(rows)))


def t04_frac(run, fx):
    rule = "T04-FRAC"
    run.rule(rule, "fractions (`frac`, numr/dnom windows): gsub_apply_lookups_impl returns the length of the window after substitution (ligatures and "
                   "multiple substitutions change it), and the next window starts where the previous one ended. In gsub_apply_lookups_frac the length "
                   "returned by an application may be dropped only when no further application can follow it (the last window, then `break`): every "
                   "other result flows into the position the next window starts from")
    import guards
    b = fx.body("gsub::gsub_apply_lookups_frac")
    if b is None:
        return run.anchor_missing(rule, "gsub::gsub_apply_lookups_frac")
    calls = [(bi, t) for bi, t in b.calls() if callee_is(t, "gsub::gsub_apply_lookups_impl")]
    if len(calls) < 2:
        return run.anchor_missing(rule, "two applications of gsub_apply_lookups_impl in gsub_apply_lookups_frac")
    blocks = {bi for bi, _ in calls}
    for bi, t in calls:
        dest = t["dest"]["l"]
        def really_used(v, depth=0):
            # a move into a temporary that is itself never read is how an expression statement discards its value
            for ubi, kind, item in guards.uses_of_local(b, v):
                if kind == "stmt" and item["rv"]["k"] == "use" and not item["p"]["p"] and depth < 6:
                    if really_used(item["p"]["l"], depth + 1):
                        return True
                    continue
                return True
            return False
        used = any(really_used(v) for v in guards.unwrapped_value_locals(b, dest))
        after = set()
        for s_ in b.succs(bi):
            after |= b.reach_from(s_)
        follows = bool((blocks - {bi}) & after) or bi in after
        if used or not follows:
            run.ok(rule, "application at %s: length %s" % (b.loc(t), "used" if used else "dropped, nothing follows"))
        else:
            run.fail(rule, "frac:length-dropped", "gsub_apply_lookups_frac drops the length returned by an application of gsub_apply_lookups_impl although another "
                     "application follows: after a ligature or a multiple substitution in that window the next window starts at a stale position", b.loc(t))


def t04_fvr(run, fx):
    import reach
    rule = "T04-FVR"
    run.rule(rule, "feature variations: the first record whose condition set matches is the one that is used - with its substitution table, or with none "
                   "when its FeatureTableSubstitution offset is NULL (OpenType, FeatureVariations table). A record may therefore be passed over only "
                   "because its conditions do not hold: in FeatureVariationRecord::matches every path to the result `no match` (Ok(None)) passes the "
                   "evaluation of the condition set (ConditionSet::matches)")
    b = fx.body("layout::FeatureVariationRecord::matches")
    if b is None:
        return run.anchor_missing(rule, "layout::FeatureVariationRecord::matches")
    prov = sym.Prov(b)
    nones = []
    for bi, blk in enumerate(b.blocks):
        if not b.reachable(bi):
            continue
        for st in blk["s"]:
            if st["k"] == "assign" and st["p"]["l"] == 0 and not st["p"]["p"] and st["rv"]["k"] == "agg" and st["rv"].get("vname") == "Ok":
                pay = sym.strip(prov.op(st["rv"]["fields"][0])) if st["rv"]["fields"] else ("?",)
                if (pay[0] == "agg" and pay[2] == "None") or pay[0] == "c":
                    nones.append(bi)
    conds = [bi for bi, t in b.calls() if re.search(r"ConditionSet(::<[^>]*>)?::matches$", str(t["callee"].get("path") or ""))]
    if not nones or not conds:
        return run.anchor_missing(rule, "Ok(None) result / ConditionSet::matches call in FeatureVariationRecord::matches (%d/%d)" % (len(nones), len(conds)))
    if reach.must_pass(b, 0, nones, conds):
        run.ok(rule, "FeatureVariationRecord::matches: %d `no match` result(s), each after the condition set was evaluated" % len(nones))
    else:
        run.fail(rule, "fvr:skip", "FeatureVariationRecord::matches can report `no match` without evaluating the record's condition set: a record whose conditions hold "
                 "is passed over and a later record is used instead", "%s:%s" % (b.file, b.line))


def t04_cond(run, fx):
    rule = "T04-COND"
    run.rule(rule, "feature variations: a condition holds for filterRangeMinValue <= coordinate <= filterRangeMaxValue, both ends included "
                   "(OpenType, Condition Table Format 1) - ConditionTable::matches tests the coordinate with an inclusive range or with <= / >=, "
                   "never with a half-open range or a strict comparison against a filter range bound")
    b = fx.body("layout::ConditionTable::matches")
    if b is None:
        return run.anchor_missing(rule, "layout::ConditionTable::matches")
    import guards
    prov = sym.Prov(b)
    bad, good = [], 0
    for bi, t in b.calls():
        p = t["callee"].get("path") or ""
        if p.endswith("::contains") and "ops::Range" in p:
            if "RangeInclusive" in p:
                good += 1
            else:
                bad.append("%s at %s" % (p.split("::<")[0].split("::")[-1] + "::contains", b.loc(t)))
    for tb, fb, op, x, y, sw in guards.branch_conditions(b, prov):
        for z, o in ((x, op), (y, guards.CMP_FLIP.get(op))):
            if any(w[0] == "field" and str(w[2]).startswith("filter_range_") for w in sym.walk(z)):
                # z is a bound: coordinate (the other side) compared with it
                if o in ("Lt", "Gt"):
                    bad.append("strict comparison with %s" % sym.show(sym.strip(z))[-40:])
                elif o in ("Le", "Ge"):
                    good += 1
    if bad:
        run.fail(rule, "condition-range", "ConditionTable::matches excludes an end of the filter range (%s): a coordinate equal to the bound does not select the "
                 "feature variation" % "; ".join(bad), "%s:%s" % (b.file, b.line))
    elif good:
        run.ok(rule, "the filter range is tested inclusively")
    else:
        run.anchor_missing(rule, "range test in ConditionTable::matches")


# what a substitution that resizes the glyph vector returns, and what its caller owes the bookkeeping of the run:
#   payload -> (advance of the position, change of the run length == change of the glyph count)
RUN_SPECS = {
    "gsub::multiplesubst": dict(
        arity=1, advance=lambda n: n, change=lambda n: n - 1,
        text="multiplesubst returns the number n of glyphs now standing where one glyph stood: the position moves past those n glyphs and the "
             "run grows by n - 1 (shrinks by one when the sequence is empty)"),
    "gsub::ligaturesubst": dict(
        arity=2, advance=lambda p: p[1] + 1, change=lambda p: -p[0],
        text="ligaturesubst returns (removed, skipped): the position moves past the ligature and the glyphs it skipped, the run shrinks by "
             "the number of glyphs removed"),
}


def _loop_test(b, prov, header, body):
    """(counter local, bound term) of `while counter < bound`: the first bool switch of the loop with an edge that leaves it"""
    for bi in sorted(body):
        t = b.term(bi)
        if t["k"] != "switch" or t.get("dty") != "bool" or not b.dominates(header, bi):
            continue
        if all(x in body for x in b.succs(bi)):
            continue
        d = sym.strip(prov.op(t["discr"]))
        if d[0] == "bin" and d[1] in ("Lt", "Gt"):
            a, c = (d[2], d[3]) if d[1] == "Lt" else (d[3], d[2])
            a = sym.strip(a)
            if a[0] == "local":
                return a[1], c
        return None
    return None


def t04_cls0(run, fx, floors=True):
    """class 0 is a class"""
    import guards
    rule = "T04-CLS0"
    run.rule(rule, "class 0 of a ClassDef is a class like any other (OpenType, Class Definition Table: every glyph not listed is in class 0; PairPos "
                   "format 2 has records for class 0, class sets of (chained) context format 2 are indexed from class 0): in layout.rs and context.rs a "
                   "value returned by ClassDef::glyph_class_value is compared with the rule's class, used as an index or bounded - it is never "
                   "tested against a constant")
    sites, bad = 0, []
    for b in fx.bodies:
        if not b.path.startswith(("layout::", "context::")):
            continue
        calls = [(bi, t) for bi, t in b.calls() if (t["callee"].get("path") or "").endswith("ClassDef::glyph_class_value") and b.reachable(bi)]
        if not calls:
            continue
        sites += len(calls)
        prov = sym.Prov(b)

        def is_class(x):
            x = sym.strip(x)
            while x[0] == "cast":
                x = sym.strip(x[4])
            return x[0] == "call" and (x[4] or x[1] or "").endswith("ClassDef::glyph_class_value")
        for tb, fb, op, x, y, sw in guards.direct_branch_conditions(b, prov):
            if op not in ("Eq", "Ne"):
                continue
            for u, v in ((x, y), (y, x)):
                if is_class(u) and sym.strip(v)[0] == "c":
                    bad.append((b, sw, sym.strip(v)[1]))
    for b, sw, k in bad:
        run.fail(rule, "class-const|%s|%s" % (b.path, k), "%s tests a glyph class value against the constant %s: glyphs of that class (class 0: every glyph the "
                 "ClassDef does not list) are treated differently from the glyphs of any other class, the specification makes no such difference"
                 % (b.path, k), b.loc(b.term(sw)))
    if not bad and sites:
        run.ok(rule, "%d uses of ClassDef::glyph_class_value, none compared with a constant" % sites)
    if floors:
        run.floor(rule, "calls of ClassDef::glyph_class_value in layout.rs / context.rs", sites, 5)


def t04_run(run, fx, floors=True):
    import guards
    import loops
    import pathwalk as pw
    rule = "T04-RUN"
    run.rule(rule, "run bookkeeping after a substitution that resizes the glyph vector (OpenType GSUB types 2 and 4: the lookup continues with "
                   "the glyph after the output, over the whole remaining run): on every path from a call of multiplesubst / ligaturesubst back to "
                   "the test of the enclosing `while position < bound` loop, the position advances by what the call reports (n; skipped + 1) and "
                   "the bound changes by the change of the glyph count (n - 1; -removed), and by (1, 0) when nothing was substituted; a caller "
                   "that reports the change to its own caller (apply_subst) returns exactly that change. The updates are piecewise linear in "
                   "the payload; they are compared with the specification on 0..K+2, K the largest constant involved, which decides equality")
    decided = 0
    notes = []
    for b in fx.bodies:
        sites = [(bi, t) for bi, t in b.calls() if (t["callee"].get("path") or "") in RUN_SPECS and b.reachable(bi)]
        if not sites:
            continue
        prov = sym.Prov(b)
        nl = loops.natural_loops(b)
        for bi, t in sites:
            callee = t["callee"]["path"]
            spec = RUN_SPECS[callee]
            short = callee.split("::")[-1]
            inner = None
            for h, body, srcs in nl:
                if bi in body and (inner is None or len(body) < len(inner[1])):
                    inner = (h, body)
            test = _loop_test(b, prov, inner[0], inner[1]) if inner else None
            key = "run|%s|%s" % (b.path, short)
            site = b.loc(t)
            if test is not None:
                ctr, bound = test
                cname = b.local_name(ctr) or "_%d" % ctr
                w = pw.Walk(b, bi, [inner[0]], region=inner[1])
                paths = [p for p in w.paths if p[3] == "stop"]
                bterm = guards.rewrite(sym.strip(bound), lambda x: ("init", b.local_name(x[1]) or "_%d" % x[1]) if x[0] in ("local", "arg") else None)
                names = sorted({x[1] for x in sym.walk(bterm) if x[0] == "init"} | {cname})
                if w.dropped or not paths or any(n in w.borrowed for n in names):
                    notes.append("%s in %s: not decided (%s)" % (short, b.path, "; ".join(w.dropped) or "counter borrowed or no path back to the test"))
                    continue
                res = _decide_loop(pw, spec, paths, cname, bterm, names)
            elif re.match(r"^std::result::Result<std::option::Option<isize>, ", b.local_ty(0) or ""):
                w = pw.Walk(b, bi, [])
                paths = [p for p in w.paths if p[3] == "return"]
                if w.dropped or not paths:
                    notes.append("%s in %s: not decided (%s)" % (short, b.path, "; ".join(w.dropped) or "no path to the return"))
                    continue
                res = _decide_return(pw, spec, paths)
            else:
                notes.append("%s in %s: neither inside a `while position < bound` loop nor reporting an isize change" % (short, b.path))
                continue
            if res[0] == "bad":
                run.fail(rule, key, "%s: after %s %s - %s" % (b.path, short, res[1], spec["text"]), site)
                decided += 1
            elif res[0] == "ok":
                run.ok(rule, "%s in %s: %s" % (short, b.path, res[1]))
                decided += 1
            else:
                notes.append("%s in %s: not decided (%s)" % (short, b.path, res[1]))
    for n in notes:
        run.notes.append("%s: %s" % (rule, n))
    if floors:
        run.floor(rule, "callers of multiplesubst / ligaturesubst whose bookkeeping was decided", decided, 4)


def _payloads(pw, spec, paths, extra_terms=()):
    terms = [v for conds, env, _, _ in paths for v in env.values()] + [c[0] for conds, _, _, _ in paths for c in conds] + list(extra_terms)
    ns = pw.samples(terms)
    if spec["arity"] == 1:
        return [None] + ns
    return [None] + [(x, y) for x in ns for y in ns]


def _feasible(pw, ev, paths):
    """the paths whose recorded conditions hold under the assignment; None when a condition cannot be evaluated"""
    out = []
    for p in paths:
        try:
            if all(ev.holds(c) for c in p[0]):
                out.append(p)
        except pw.Infeasible:
            continue
        except pw.Undecided:
            return None
    return out


def _decide_loop(pw, spec, paths, cname, bterm, names):
    base = {n: 5000 + 1000 * i for i, n in enumerate(names)}
    base[cname] = 1000
    checked = 0
    for pl in _payloads(pw, spec, paths, [bterm]):
        a = dict(base)
        a["payload"] = pl
        ev = pw.Eval(a)
        fs = _feasible(pw, ev, paths)
        if fs is None:
            continue
        for conds, env, _, _ in fs:
            try:
                b0 = pw.Eval(a).ev(bterm)
                a1 = dict(a)
                # the bound after the iteration: the same expression over the final values
                fin = {}
                for n in names:
                    fin[n] = ev.ev(env[n]) if n in env else a[n]
                    if isinstance(fin[n], tuple):
                        raise pw.Undecided("final value of %s" % n)
                a1.update(fin)
                b1 = pw.Eval(a1).ev(bterm)
            except pw.Infeasible:
                continue
            except pw.Undecided as e:
                return ("undecided", str(e))
            di, db = fin[cname] - a[cname], b1 - b0
            want = (1, 0) if pl is None else (spec["advance"](pl), spec["change"](pl))
            checked += 1
            if (di, db) != want:
                what = "nothing was substituted" if pl is None else "it returned %s" % (pl,)
                return ("bad", "when %s the position `%s` moves by %d and the bound of the run by %d, the specification is %d and %d"
                        % (what, cname, di, db, want[0], want[1]))
    if not checked:
        return ("undecided", "no payload for which the path conditions could be evaluated")
    return ("ok", "position and bound agree with the payload on %d sample paths" % checked)


def _decide_return(pw, spec, paths):
    checked = 0
    for pl in _payloads(pw, spec, paths):
        if pl is None:
            continue
        a = {"payload": pl}
        ev = pw.Eval(a)
        fs = _feasible(pw, ev, paths)
        if fs is None:
            continue
        for conds, env, _, _ in fs:
            r = env.get("_0")
            if r is None or r[0] != "agg" or r[2] != "Ok" or len(r[3]) != 1:
                return ("undecided", "shape of the returned value")
            o = r[3][0]
            if o[0] != "agg" or o[2] != "Some" or len(o[3]) != 1:
                return ("undecided", "shape of the returned value")
            try:
                got = ev.ev(o[3][0])
            except pw.Infeasible:
                continue
            except pw.Undecided as e:
                return ("undecided", str(e))
            checked += 1
            if got != spec["change"](pl):
                return ("bad", "when it returned %s the change of the glyph count reported to the caller is %s, the specification is %d"
                        % (pl, got, spec["change"](pl)))
    if not checked:
        return ("undecided", "no payload for which the path conditions could be evaluated")
    return ("ok", "the reported change agrees with the payload on %d sample paths" % checked)


def check(run, fx, tier, floors=True):
    import bsearch
    bsearch.rule_bsearch(run, fx, "T04-BS", select=lambda b: b.file.startswith(('src/layout.rs', 'src/gsub.rs', 'src/context.rs')), floors=floors, floor_n=1)
    import ignored
    ignored.run_for(run, fx, 'C04', floors)
    if floors or fx.body("layout::ConditionTable::matches") is not None:
        t04_cond(run, fx)
        t04_fvr(run, fx)
    if floors or fx.body("gsub::gsub_apply_lookups_frac") is not None:
        t04_frac(run, fx)
    import speclayout
    speclayout.rule_layouts(run, fx, "T04-LAYOUT", ["layout"], floors)
    speclayout.rule_records(run, fx, "T04-REC", ['layout'], floors)
    t04_type(run, fx)
    t04_rd(run, fx)
    t04_flag(run, fx)
    t04_ord(run, fx)
    t04_rvrn(run, fx)
    t04_disp(run, fx)
    t04_skip(run, fx)
    if floors or fx.body('layout::ClassDef::glyph_class_value') is not None:
        t04_cls0(run, fx, floors)
    if floors or any((t['callee'].get('path') or '') in RUN_SPECS for b in fx.bodies for _, t in b.calls()):
        t04_run(run, fx, floors)
    if floors or fx.adt("context::IgnoreMarks") is not None:
        t04_marks(run, fx)
    if floors or fx.const("gsub::FEATURE_MASKS") is not None:
        t04_fmask(run, fx)
    recursion.run_rule(run, fx, "C01-a", lambda f: any(p.startswith("gsub::") for p in f.local_paths), floors_n=1 if floors else None)
