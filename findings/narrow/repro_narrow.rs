// Reproductions for four font-reachable silent truncations (`as u16` / `as u8` casts).
// Each test asserts the CORRECT behaviour: it fails on the unpatched tree and passes once the
// corresponding fix is applied.
use std::borrow::Cow;
use std::convert::TryInto;

use allsorts::binary::read::ReadScope;
use allsorts::error::ParseError;
use allsorts::font::read_cmap_subtable;
use allsorts::tables::cmap::Cmap;
use allsorts::tables::{FontTableProvider, OpenTypeFont};
use allsorts::tag;

/// Table provider that replaces one table of an existing font with hand-built bytes.
struct Patched<'a, P> {
    inner: &'a P,
    tag: u32,
    data: Vec<u8>,
}

impl<'a, P: FontTableProvider> FontTableProvider for Patched<'a, P> {
    fn table_data(&self, tag: u32) -> Result<Option<Cow<'_, [u8]>>, ParseError> {
        if tag == self.tag {
            Ok(Some(Cow::Borrowed(&self.data)))
        } else {
            self.inner.table_data(tag)
        }
    }
    fn has_table(&self, tag: u32) -> bool {
        tag == self.tag || self.inner.has_table(tag)
    }
    fn table_tags(&self) -> Option<Vec<u32>> {
        self.inner.table_tags()
    }
}

fn read(path: &str) -> Vec<u8> {
    std::fs::read(std::path::Path::new(env!("CARGO_MANIFEST_DIR")).join(path)).unwrap()
}

fn be16(v: &mut Vec<u8>, x: u16) {
    v.extend_from_slice(&x.to_be_bytes())
}
fn be32(v: &mut Vec<u8>, x: u32) {
    v.extend_from_slice(&x.to_be_bytes())
}

fn cmap_header(platform: u16, encoding: u16) -> Vec<u8> {
    let mut v = Vec::new();
    be16(&mut v, 0); // version
    be16(&mut v, 1); // numTables
    be16(&mut v, platform);
    be16(&mut v, encoding);
    be32(&mut v, 12); // offset
    v
}

fn lookup(font: &[u8], ch: u32) -> Option<u16> {
    let otf = ReadScope::new(font).read::<OpenTypeFont<'_>>().unwrap();
    let provider = otf.table_provider(0).unwrap();
    let cmap_data = provider.read_table_data(tag::CMAP).unwrap();
    let cmap = ReadScope::new(&cmap_data).read::<Cmap<'_>>().unwrap();
    let (_enc, sub) = read_cmap_subtable(&cmap).unwrap().unwrap();
    sub.map_glyph(ch).unwrap()
}

// Defect 1: `CFF2::instance_char_strings`, `self.char_strings_index.len() as u16`.
// CFF2 CharStrings INDEX with more than 65535 entries (the count is 32-bit in CFF2).
#[test]
fn repro_d1() {
    use allsorts::cff::cff2::CFF2;
    use allsorts::tables::Fixed;
    use allsorts::variations::VariationError;

    let data = read("tests/fonts/opentype/cff2/SourceSansVariable-Roman.abc.otf");
    let otf = ReadScope::new(&data).read::<OpenTypeFont<'_>>().unwrap();
    let provider = otf.table_provider(0).unwrap();
    let cff2 = provider.read_table_data(tag::CFF2).unwrap().into_owned();

    // Top DICT is `1d <CharStrings offset:i32> 11 ...` in this fixture
    assert_eq!(cff2[5], 0x1d);
    assert_eq!(cff2[10], 0x11);
    let cs_off = u32::from_be_bytes([cff2[6], cff2[7], cff2[8], cff2[9]]) as usize;
    // Parse the existing CharStrings INDEX
    let count = u32::from_be_bytes(cff2[cs_off..cs_off + 4].try_into().unwrap()) as usize;
    let off_size = cff2[cs_off + 4] as usize;
    let offs: Vec<usize> = (0..=count)
        .map(|i| {
            let p = cs_off + 5 + i * off_size;
            cff2[p..p + off_size]
                .iter()
                .fold(0usize, |a, b| (a << 8) | *b as usize)
        })
        .collect();
    let data_start = cs_off + 5 + (count + 1) * off_size - 1;
    let glyph_data = &cff2[data_start + offs[0]..data_start + offs[count]];
    assert_eq!(count, 4);

    // New INDEX: the original charstrings followed by empty ones, 65536 + 2 entries in total
    let new_count = 65536usize + 2;
    let mut index = Vec::new();
    be32(&mut index, new_count as u32);
    index.push(2); // offSize
    for i in 0..=new_count {
        let off = if i <= count { offs[i] } else { offs[count] };
        be16(&mut index, off as u16);
    }
    index.extend_from_slice(glyph_data);

    let mut patched_cff2 = cff2.clone();
    let new_off = patched_cff2.len() as u32;
    patched_cff2[6..10].copy_from_slice(&new_off.to_be_bytes());
    patched_cff2.extend_from_slice(&index);

    // The patched table is accepted by the parser with all 65538 charstrings
    let parsed = ReadScope::new(&patched_cff2).read::<CFF2<'_>>().unwrap();
    assert_eq!(parsed.char_strings_index.len(), new_count);

    let patched = Patched {
        inner: &provider,
        tag: tag::CFF2,
        data: patched_cff2,
    };
    // Glyph ids are 16-bit, so the instancer can't process this font. It must say so instead of
    // emitting a CFF2 table holding only the `count mod 65536` leading charstrings.
    match allsorts::variations::instance(&patched, &[Fixed::from(650.0)]) {
        Ok((out, _)) => {
            let otf = ReadScope::new(&out).read::<OpenTypeFont<'_>>().unwrap();
            let p = otf.table_provider(0).unwrap();
            let t = p.read_table_data(tag::CFF2).unwrap();
            let c = ReadScope::new(&t).read::<CFF2<'_>>().unwrap();
            panic!(
                "instance succeeded; {} source charstrings became {}",
                new_count,
                c.char_strings_index.len()
            );
        }
        Err(VariationError::Parse(ParseError::LimitExceeded)) => {}
        Err(err) => panic!("unexpected error: {:?}", err),
    }
}

// Defect 2: `Character::new`, `macroman_to_char(ch as u8)`.
// Apple Roman (1,0) record whose sub-table format allows codes > 0xFF.
#[test]
fn repro_d2() {
    let data = read("tests/fonts/opentype/OpenSans-Regular.ttf");
    let otf = ReadScope::new(&data).read::<OpenTypeFont<'_>>().unwrap();
    let provider = otf.table_provider(0).unwrap();
    let (g_a, g_b) = (36u16, 37u16); // any two distinct non-zero glyph ids

    // (1,0) Macintosh/Roman record with a *format 6* sub-table: first_code 0x41, 0x101 entries.
    // code 0x41 ('A') -> g_a ; code 0x141 (not a Mac Roman code) -> g_b
    let mut cmap = cmap_header(1, 0);
    let entry_count = 0x101u16;
    be16(&mut cmap, 6);
    be16(&mut cmap, 10 + 2 * entry_count);
    be16(&mut cmap, 0);
    be16(&mut cmap, 0x41);
    be16(&mut cmap, entry_count);
    for i in 0..entry_count {
        be16(
            &mut cmap,
            match i {
                0 => g_a,
                0x100 => g_b,
                _ => 0,
            },
        );
    }
    let patched = Patched {
        inner: &provider,
        tag: tag::CMAP,
        data: cmap,
    };
    let out = allsorts::subset::subset(&patched, &[0, g_a, g_b]).unwrap();
    // new ids: g_a -> 1, g_b -> 2. 'A' must still map to the glyph it had in the source font,
    // not to the glyph attached to the code 0x141.
    assert_eq!(lookup(&out, 0x41), Some(1));
}

// Defect 3: `CmapSubtableFormat4::add_segment`, `segment.start as u16` / `segment.end as u16`.
// Windows Symbol (3,0) record with a format 12 sub-table carrying codes > 0xFFFF.
#[test]
fn repro_d3() {
    use allsorts::subset::SubsetError;

    let data = read("tests/fonts/opentype/OpenSans-Regular.ttf");
    let otf = ReadScope::new(&data).read::<OpenTypeFont<'_>>().unwrap();
    let provider = otf.table_provider(0).unwrap();
    let (g_a, g_b) = (36u16, 37u16);

    let mut cmap = cmap_header(3, 0);
    be16(&mut cmap, 12);
    be16(&mut cmap, 0);
    be32(&mut cmap, 16 + 2 * 12);
    be32(&mut cmap, 0);
    be32(&mut cmap, 2);
    // group 1: 0xF042 -> g_a
    be32(&mut cmap, 0xF042);
    be32(&mut cmap, 0xF042);
    be32(&mut cmap, u32::from(g_a));
    // group 2: 0x1F041 -> g_b
    be32(&mut cmap, 0x1F041);
    be32(&mut cmap, 0x1F041);
    be32(&mut cmap, u32::from(g_b));
    let patched = Patched {
        inner: &provider,
        tag: tag::CMAP,
        data: cmap,
    };
    // The symbol mappings are written as a format 4 sub-table, which can't hold 0x1F041. That
    // has to be an error, not a table in which 0xF041 (unmapped in the source) maps to g_b and
    // whose segments are out of order.
    match allsorts::subset::subset(&patched, &[0, g_a, g_b]) {
        Ok(out) => panic!(
            "subset succeeded; 0xF041 -> {:?}, 0xF042 -> {:?}",
            lookup(&out, 0xF041),
            lookup(&out, 0xF042)
        ),
        Err(SubsetError::Parse(ParseError::LimitExceeded)) => {}
        Err(err) => panic!("unexpected error: {:?}", err),
    }
}

// Defect 4: `DeltaSetIndexMap::entry`, outer index `as u16`.
// DeltaSetIndexMap entry whose outer index is wider than 16 bits, via HVAR.
#[test]
fn repro_d4() {
    use allsorts::tables::variable_fonts::fvar::FvarTable;
    use allsorts::tables::variable_fonts::hvar::HvarTable;
    use allsorts::tables::F2Dot14;

    // fvar with one axis
    let mut fvar = Vec::new();
    be16(&mut fvar, 1);
    be16(&mut fvar, 0);
    be16(&mut fvar, 16); // axesArrayOffset
    be16(&mut fvar, 2);
    be16(&mut fvar, 1); // axisCount
    be16(&mut fvar, 20); // axisSize
    be16(&mut fvar, 0); // instanceCount
    be16(&mut fvar, 8); // instanceSize
    be32(&mut fvar, tag::WGHT);
    be32(&mut fvar, 100 << 16);
    be32(&mut fvar, 400 << 16);
    be32(&mut fvar, 900 << 16);
    be16(&mut fvar, 0);
    be16(&mut fvar, 256);
    let fvar = ReadScope::new(&fvar).read::<FvarTable<'_>>().unwrap();
    let instance = fvar.owned_tuple(&[F2Dot14::from(1.0f32)]).unwrap();

    let build = |entry: u32| {
        let mut hvar = Vec::new();
        be16(&mut hvar, 1);
        be16(&mut hvar, 0);
        be32(&mut hvar, 20); // IVS offset
        let map_off_pos = hvar.len();
        be32(&mut hvar, 0); // advance mapping offset (patched below)
        be32(&mut hvar, 0);
        be32(&mut hvar, 0);
        // ItemVariationStore @20
        let ivs_start = hvar.len();
        be16(&mut hvar, 1); // format
        be32(&mut hvar, 12); // region list offset (from IVS start)
        be16(&mut hvar, 1); // itemVariationDataCount
        be32(&mut hvar, 12 + 4 + 6); // ItemVariationData offset
        assert_eq!(hvar.len() - ivs_start, 12);
        // VariationRegionList
        be16(&mut hvar, 1); // axisCount
        be16(&mut hvar, 1); // regionCount
        be16(&mut hvar, 0); // start 0.0
        be16(&mut hvar, 0x4000); // peak 1.0
        be16(&mut hvar, 0x4000); // end 1.0

        // ItemVariationData: 6 items, 0 word deltas, 1 region
        be16(&mut hvar, 6);
        be16(&mut hvar, 0);
        be16(&mut hvar, 1);
        be16(&mut hvar, 0);
        hvar.extend_from_slice(&[10, 20, 30, 40, 50, 60]);
        // DeltaSetIndexMap: format 0, entryFormat 0x37 (4-byte entries, 8 inner bits), mapCount 1
        let map_off = hvar.len() as u32;
        hvar[map_off_pos..map_off_pos + 4].copy_from_slice(&map_off.to_be_bytes());
        hvar.push(0);
        hvar.push(0x37);
        be16(&mut hvar, 1);
        be32(&mut hvar, entry);
        hvar
    };
    let advance_delta = |entry: u32| {
        let bytes = build(entry);
        let hvar = ReadScope::new(&bytes).read::<HvarTable<'_>>().unwrap();
        hvar.advance_delta(&instance, 0)
    };

    // Controls: outer 0 is the one ItemVariationData there is, outer 1 does not exist.
    assert_eq!(advance_delta(0x0000_0005), Ok(60.0));
    assert_eq!(advance_delta(0x0000_0105), Err(ParseError::BadIndex));
    // outer 0x10000 does not exist either; it must not alias to outer 0
    assert_eq!(advance_delta(0x0100_0005), Err(ParseError::BadIndex));
}
