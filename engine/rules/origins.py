"""Value provenance across functions (DESIGN 5C): classify where an integer comes from and how
large it can be by construction. Classes:
  ('const', v) | ('bounded', bits, why) | ('len', why) | ('api', why) | ('unbounded', why)"""
import re

import sym

SMALL = {"u8": 8, "i8": 8, "u16": 16, "i16": 16, "bool": 1}
LEN_FNS = ("::len", "::size_hint", "::count", "::capacity", "max_utf8_buffer_length", "::len_utf8", "::num_glyphs")


class Origins:
    def __init__(self, fx, max_depth=4):
        self.fx = fx
        self.max_depth = max_depth
        self.provs = {}
        self._callers = None
        self._field_lits = None

    def prov(self, b):
        if b.dp not in self.provs:
            self.provs[b.dp] = sym.Prov(b)
        return self.provs[b.dp]

    # ---- cross-function indexes ----
    def callers(self):
        """callee dp -> list of (caller body, bb) over declared and resolved callee identities"""
        if self._callers is None:
            d = {}
            for b in self.fx.bodies:
                for bi, t in b.calls():
                    c = t["callee"]
                    for k in (c.get("dp"), c.get("rdp")):
                        if k:
                            d.setdefault(k, []).append((b, bi))
            self._callers = d
        return self._callers

    def field_literals(self):
        """(adt path, field name) -> list of (body, operand) from every struct literal"""
        if self._field_lits is None:
            d = {}
            for b in self.fx.bodies:
                for bi, blk in enumerate(b.blocks):
                    if not b.reachable(bi):
                        continue
                    for s in blk["s"]:
                        if s["k"] == "assign" and s["rv"]["k"] == "agg" and s["rv"].get("agg") == "adt":
                            rv = s["rv"]
                            for n, f in zip(rv["fnames"], rv["fields"]):
                                d.setdefault((rv["adt"], n), []).append((b, f))
            self._field_lits = d
        return self._field_lits

    # ---- classification ----
    def classify_op(self, body, op, depth=0):
        return self.classify(body, self.prov(body).op(op), depth)

    def join(self, classes):
        worst = None
        for c in classes:
            if c[0] == "unbounded":
                return c
            if worst is None:
                worst = c
            elif rank(c) > rank(worst):
                worst = c
        return worst or ("unbounded", "no origin found")

    def classify(self, body, t, depth=0, seen=None):
        seen = seen or set()
        t = sym.strip(t)
        k = t[0]
        if k == "c":
            return ("const", t[1])
        if k == "uneval":
            c = self.fx.const(t[1])
            return ("const", c.get("val") if c else None)
        if k == "cast":
            frm = t[2]
            if frm in SMALL:
                return ("bounded", SMALL[frm], "cast from %s" % frm)
            return self.classify(body, t[4], depth, seen)
        if k == "bin":
            op = t[1].replace("WithOverflow", "")
            a = self.classify(body, t[2], depth, seen)
            b = self.classify(body, t[3], depth, seen)
            if op == "BitAnd":
                for x in (a, b):
                    if x[0] == "const" and isinstance(x[1], int):
                        return ("bounded", max(1, x[1].bit_length()), "masked with %#x" % x[1])
                return a if rank(a) <= rank(b) else b
            if op == "Shr" and a[0] == "bounded" and b[0] == "const" and isinstance(b[1], int) and 0 < b[1] < a[1]:
                return ("bounded", a[1] - b[1], "%s >> %d" % (a[2], b[1]))
            if op in ("Shr", "Div", "Rem", "Sub"):
                return a
            ba, bb = bits_of(a), bits_of(b)
            if ba is not None and bb is not None:
                if op == "Mul":
                    nb = ba + bb
                elif op == "Shl":
                    nb = ba + (b[1] if b[0] == "const" and isinstance(b[1], int) else (1 << min(bb, 6)))
                elif op == "Add":
                    nb = max(ba, bb) + 1
                else:
                    nb = max(ba, bb)
                if a[0] == "const" and b[0] == "const":
                    return ("const", None)
                if nb <= MAX_BITS:
                    return ("bounded", nb, "arithmetic on type-bounded values (%d bits)" % nb)
                return ("unbounded", "arithmetic on type-bounded values can reach %d bits" % nb)
            return self.join([a, b])
        if k == "un":
            return self.classify(body, t[2], depth, seen)
        if k == "call":
            name = t[1] or ""
            decl = t[4] or ""
            dty = t[5] if len(t) > 5 else None
            args = t[2]
            if name.endswith(("::leading_zeros", "::trailing_zeros", "::count_ones", "::count_zeros", "::leading_ones", "::trailing_ones", "::ilog2")):
                return ("bounded", 8, "bit count of an integer (<= 128)")
            if name.endswith(LEN_FNS) or decl.endswith(LEN_FNS):
                return ("len", name.split("::")[-1] + "() of data already in memory")
            m = re.search(r"impl std::convert::(?:Try)?From<(\w+)> for \w+", name)
            if m and m.group(1) in SMALL:
                return ("bounded", SMALL[m.group(1)], "converted from %s" % m.group(1))
            if dty and payload_ty(dty) in SMALL:
                return ("bounded", SMALL[payload_ty(dty)], "%s returns %s" % (name.split("::")[-1], payload_ty(dty)))
            if name.endswith(("::min", "cmp::min")) and len(args) == 2:
                a, b = self.classify(body, args[0], depth, seen), self.classify(body, args[1], depth, seen)
                return a if rank(a) <= rank(b) else b
            if name.endswith(("::max", "cmp::max", "::saturating_add", "::saturating_sub", "::saturating_mul", "::wrapping_add",
                              "::checked_add", "::checked_mul", "::checked_sub", "::unwrap_or", "::map_or", "::pow", "::abs", "::unsigned_abs")):
                return self.join([self.classify(body, a, depth, seen) for a in args if a[0] != "fn" and not (a[0] == "agg" and a[1] == "closure")])
            if decl.endswith(("From::from", "Into::into", "TryFrom::try_from", "TryInto::try_into", "SafeFrom::safe_from", "Try::branch",
                              "::unwrap", "::expect", "::ok_or", "::ok", "::copied", "::cloned", "::unwrap_or_default", "FromResidual::from_residual")) and args:
                return self.classify(body, args[0], depth, seen)
            if name.endswith(("::get", "::last", "::first", "::next", "::max", "::min", "::sum", "::get_item", "::read_item", "::position", "::iter")):
                # element of a collection: bounded by its element type if small
                if dty and payload_ty(dty) in SMALL:
                    return ("bounded", SMALL[payload_ty(dty)], "element of type %s" % payload_ty(dty))
            return ("unbounded", "result of %s (%s)" % (name, dty))
        if k in ("variant", "deref", "ref"):
            return self.classify(body, t[1], depth, seen)
        if k == "field":
            base = t[1]
            fname = t[2]
            # Result/Option/ControlFlow/tuple payload positions
            if base[0] == "variant" or isinstance(fname, int) or (isinstance(fname, str) and fname.isdigit()):
                inner = self.classify(body, base, depth, seen)
                return inner
            return self.classify_field(body, base, fname, depth, seen)
        if k == "arg":
            ty = body.local_ty(t[1])
            if payload_ty(ty) in SMALL:
                return ("bounded", SMALL[payload_ty(ty)], "parameter of type %s" % ty)
            return self.classify_param(body, t[1], depth, seen)
        if k == "local":
            ty = body.local_ty(t[1])
            if payload_ty(ty) in SMALL:
                return ("bounded", SMALL[payload_ty(ty)], "local of type %s" % ty)
            # multi-definition local: join over its assignments
            ds = body.defs().get(t[1], [])
            if ds and depth < self.max_depth and ("L", body.dp, t[1]) not in seen:
                seen = seen | {("L", body.dp, t[1])}
                cs = []
                for (bb, idx, kind, item) in ds:
                    if kind == "assign":
                        cs.append(self.classify(body, self.prov(body).rvalue(item["rv"]), depth + 1, seen))
                    elif kind == "call":
                        c = item["callee"]
                        nm = c.get("rpath") or c.get("path") or ""
                        cs.append(self.classify(body, ("call", nm, tuple(self.prov(body).op(a) for a in item["args"]), bb, c.get("path"), item["dest"].get("ty")), depth + 1, seen))
                    else:
                        cs.append(("unbounded", "partial assignment"))
                return self.join(cs)
            return ("unbounded", "local _%s (%s)" % (t[1], ty))
        if k == "discr":
            return ("bounded", 8, "enum discriminant")
        if k == "agg":
            return self.join([self.classify(body, a, depth, seen) for a in t[3]]) if t[3] else ("const", 0)
        return ("unbounded", "unrecognised term %s" % k)

    def classify_param(self, body, local, depth, seen):
        key = ("P", body.dp, local)
        if key in seen or depth >= self.max_depth:
            return ("unbounded", "parameter %s of %s (depth bound)" % (body.local_name(local), body.path))
        seen = seen | {key}
        root = body
        if body.kind == "Closure":
            return ("unbounded", "closure parameter %s" % body.local_name(local))
        sites = self.callers().get(body.dp, [])
        # trait method impl: callers reach it through the trait item too
        if not sites:
            if body.j.get("reachable"):
                return ("api", "parameter %s of public %s (supplied by the calling program)" % (body.local_name(local), body.path))
            return ("unbounded", "parameter %s of %s has no visible caller" % (body.local_name(local), body.path))
        cs = []
        for (cb, bb) in sites:
            t = cb.term(bb)
            idx = local - 1
            if idx < len(t["args"]):
                cs.append(self.classify(cb, self.prov(cb).op(t["args"][idx]), depth + 1, seen))
        if body.j.get("reachable") and body.j.get("pub"):
            cs.append(("api", "parameter %s of public %s" % (body.local_name(local), body.path)))
        return self.join(cs)

    def classify_field(self, body, base, fname, depth, seen):
        # type of the field from the ADT table
        base_ty = None
        # find ADTs that have this field name; use literals of all of them whose field type is integral
        key = ("F", fname)
        if depth >= self.max_depth:
            return ("unbounded", "field .%s (depth bound)" % fname)
        cands = [(adt, n) for (adt, n) in self.field_literals() if n == fname]
        # narrow by the base's type when known
        bt = self.base_type(body, base)
        if bt:
            cands = [(a, n) for (a, n) in cands if bt.startswith(a) or strip_generics(bt) == a] or cands
            adt = self.fx.adt(strip_generics(bt))
            if adt:
                for v in adt["variants"]:
                    for f in v["fields"]:
                        if f["name"] == fname and payload_ty(f["ty"]) in SMALL:
                            return ("bounded", SMALL[payload_ty(f["ty"])], "field .%s of type %s" % (fname, f["ty"]))
        if bt and strip_generics(bt) == "binary::read::ReadArray" and fname == "length":
            return ("len", "ReadArray.length (read_array checked length*stride bytes are present)")
        if not cands:
            return ("unbounded", "field .%s of %s (no literal found)" % (fname, bt))
        cs = []
        for c in cands:
            if ("F",) + c in seen:
                continue
            for (lb, op) in self.field_literals()[c]:
                cs.append(self.classify(lb, self.prov(lb).op(op), depth + 1, seen | {("F",) + c}))
        return self.join(cs) if cs else ("unbounded", "field .%s recursion" % fname)

    def base_type(self, body, base):
        b = base
        while b[0] in ("deref", "ref"):
            b = b[1]
        if b[0] in ("arg", "local"):
            ty = body.local_ty(b[1])
            return re.sub(r"^&(mut )?", "", ty)
        return None


MAX_BITS = 24


def bits_of(c):
    if c[0] == "const":
        return max(1, c[1].bit_length()) if isinstance(c[1], int) and c[1] >= 0 else 1
    if c[0] == "bounded":
        return c[1]
    return None


def strip_generics(ty):
    out = []
    depth = 0
    for ch in ty:
        if ch == "<":
            depth += 1
        elif ch == ">":
            depth -= 1
        elif depth == 0:
            out.append(ch)
    return "".join(out).replace("&", "").replace("mut ", "").strip()


def payload_ty(ty):
    """u16 from Result<u16, E> / Option<u16> / u16"""
    if not ty:
        return ty
    m = re.match(r"^std::(?:result::Result|option::Option)<([^,<>]+)(?:,.*)?>$", ty)
    if m:
        return m.group(1).strip().lstrip("&").replace("mut ", "").strip()
    m = re.match(r"^&(?:mut )?(\w+)$", ty)
    if m:
        return m.group(1)
    return ty


def rank(c):
    return {"const": 0, "bounded": 1, "len": 2, "api": 3, "unbounded": 4}[c[0]]
