//! Lookup flag UseMarkFilteringSet (0x0010) must only filter mark glyphs.
//!
//! OpenType, "Lookup table": "If set, indicates that the lookup table structure is followed by a
//! MarkFilteringSet field. The layout engine skips over all mark glyphs not in the mark filtering
//! set indicated." Base glyphs, ligature glyphs and glyphs without a class are not affected by
//! the flag.
//!
//! Glyphs used below (GDEF GlyphClassDef):
//!   10, 11  base glyphs
//!   22      mark that is NOT in mark glyph set 0
//!   23      mark that is in mark glyph set 0
//! All lookups have lookupFlag = 0x0010 and markFilteringSet = 0.

use allsorts::binary::read::ReadScope;
use allsorts::gsub::{self, FeatureMask, Features, GlyphOrigin, RawGlyph, RawGlyphFlags};
use allsorts::layout::{new_layout_cache, GDEFTable, LayoutCache, LayoutTable, GSUB};
use allsorts::tag;
use allsorts::tinyvec::tiny_vec;

fn be16(out: &mut Vec<u8>, v: u16) {
    out.extend_from_slice(&v.to_be_bytes());
}

fn coverage(glyphs: &[u16]) -> Vec<u8> {
    let mut t = Vec::new();
    be16(&mut t, 1); // format
    be16(&mut t, glyphs.len() as u16);
    for g in glyphs {
        be16(&mut t, *g);
    }
    t
}

/// SingleSubst format 2
fn single_subst(from: &[u16], to: &[u16]) -> Vec<u8> {
    let mut t = Vec::new();
    be16(&mut t, 2); // format
    be16(&mut t, 6 + 2 * to.len() as u16); // coverage offset
    be16(&mut t, to.len() as u16);
    for g in to {
        be16(&mut t, *g);
    }
    t.extend(coverage(from));
    t
}

/// Lookup table; `mark_filtering_set` is written after the subtable offsets when the lookup flag
/// has the UseMarkFilteringSet bit (0x0010).
fn lookup(lookup_type: u16, flag: u16, mark_filtering_set: u16, subtables: &[Vec<u8>]) -> Vec<u8> {
    let use_mark_filtering_set = flag & 0x0010 != 0;
    let header = 6 + 2 * subtables.len() + if use_mark_filtering_set { 2 } else { 0 };
    let mut t = Vec::new();
    let mut tail = Vec::new();
    be16(&mut t, lookup_type);
    be16(&mut t, flag);
    be16(&mut t, subtables.len() as u16);
    for subtable in subtables {
        be16(&mut t, (header + tail.len()) as u16);
        tail.extend_from_slice(subtable);
    }
    if use_mark_filtering_set {
        be16(&mut t, mark_filtering_set);
    }
    t.extend(tail);
    t
}

fn lookup_list(lookups: &[Vec<u8>]) -> Vec<u8> {
    let header = 2 + 2 * lookups.len();
    let mut t = Vec::new();
    let mut tail = Vec::new();
    be16(&mut t, lookups.len() as u16);
    for lookup in lookups {
        be16(&mut t, (header + tail.len()) as u16);
        tail.extend_from_slice(lookup);
    }
    t.extend(tail);
    t
}

fn feature_list(features: &[(u32, &[u16])]) -> Vec<u8> {
    let header = 2 + 6 * features.len();
    let mut t = Vec::new();
    let mut tail = Vec::new();
    be16(&mut t, features.len() as u16);
    for (feature_tag, lookup_indices) in features {
        t.extend_from_slice(&feature_tag.to_be_bytes());
        be16(&mut t, (header + tail.len()) as u16);
        be16(&mut tail, 0); // featureParams
        be16(&mut tail, lookup_indices.len() as u16);
        for lookup_index in lookup_indices.iter() {
            be16(&mut tail, *lookup_index);
        }
    }
    t.extend(tail);
    t
}

fn langsys(feature_indices: &[u16]) -> Vec<u8> {
    let mut t = Vec::new();
    be16(&mut t, 0); // lookupOrder
    be16(&mut t, 0xFFFF); // requiredFeatureIndex
    be16(&mut t, feature_indices.len() as u16);
    for feature_index in feature_indices {
        be16(&mut t, *feature_index);
    }
    t
}

/// ScriptList with a single script that has a default LangSys and the given LangSys records
fn script_list(script_tag: u32, default: &[u16], langs: &[(u32, &[u16])]) -> Vec<u8> {
    let mut script = Vec::new();
    let mut tail = Vec::new();
    let header = 4 + 6 * langs.len();
    be16(&mut script, header as u16); // defaultLangSys offset
    be16(&mut script, langs.len() as u16);
    tail.extend(langsys(default));
    for (lang_tag, feature_indices) in langs {
        script.extend_from_slice(&lang_tag.to_be_bytes());
        be16(&mut script, (header + tail.len()) as u16);
        tail.extend(langsys(feature_indices));
    }
    script.extend(tail);

    let mut t = Vec::new();
    be16(&mut t, 1); // scriptCount
    t.extend_from_slice(&script_tag.to_be_bytes());
    be16(&mut t, 8); // script offset
    t.extend(script);
    t
}

fn gsub_table(script_list: Vec<u8>, feature_list: Vec<u8>, lookup_list: Vec<u8>) -> Vec<u8> {
    let mut t = Vec::new();
    be16(&mut t, 1); // major
    be16(&mut t, 0); // minor
    be16(&mut t, 10);
    be16(&mut t, (10 + script_list.len()) as u16);
    be16(&mut t, (10 + script_list.len() + feature_list.len()) as u16);
    t.extend(script_list);
    t.extend(feature_list);
    t.extend(lookup_list);
    t
}

fn glyph(glyph_index: u16) -> RawGlyph<()> {
    RawGlyph {
        unicodes: tiny_vec![],
        glyph_index,
        liga_component_pos: 0,
        glyph_origin: GlyphOrigin::Direct,
        flags: RawGlyphFlags::empty(),
        extra_data: (),
        variation: None,
    }
}

const USE_MARK_FILTERING_SET: u16 = 0x0010;

/// LigatureSubst format 1 with a single ligature `first + rest.. -> ligature_glyph`
fn ligature_subst(first: u16, rest: &[u16], ligature_glyph: u16) -> Vec<u8> {
    let mut ligature = Vec::new();
    be16(&mut ligature, ligature_glyph);
    be16(&mut ligature, rest.len() as u16 + 1); // componentCount
    for g in rest {
        be16(&mut ligature, *g);
    }

    let mut ligature_set = Vec::new();
    be16(&mut ligature_set, 1); // ligatureCount
    be16(&mut ligature_set, 4); // ligature offset
    ligature_set.extend(ligature);

    let mut t = Vec::new();
    be16(&mut t, 1); // format
    be16(&mut t, 8 + ligature_set.len() as u16); // coverage offset
    be16(&mut t, 1); // ligatureSetCount
    be16(&mut t, 8); // ligatureSet offset
    t.extend(ligature_set);
    t.extend(coverage(&[first]));
    t
}

/// ClassDef format 2
fn class_def(ranges: &[(u16, u16, u16)]) -> Vec<u8> {
    let mut t = Vec::new();
    be16(&mut t, 2); // format
    be16(&mut t, ranges.len() as u16);
    for (start, end, class) in ranges {
        be16(&mut t, *start);
        be16(&mut t, *end);
        be16(&mut t, *class);
    }
    t
}

/// GDEF version 1.2 with a GlyphClassDef and a MarkGlyphSetsDef
fn gdef_table(glyph_classes: &[(u16, u16, u16)], mark_sets: &[&[u16]]) -> Vec<u8> {
    let glyph_class_def = class_def(glyph_classes);

    let mut mark_glyph_sets = Vec::new();
    let mut tail = Vec::new();
    let header = 4 + 4 * mark_sets.len();
    be16(&mut mark_glyph_sets, 1); // format
    be16(&mut mark_glyph_sets, mark_sets.len() as u16);
    for set in mark_sets {
        mark_glyph_sets.extend_from_slice(&((header + tail.len()) as u32).to_be_bytes());
        tail.extend(coverage(set));
    }
    mark_glyph_sets.extend(tail);

    let mut t = Vec::new();
    be16(&mut t, 1); // major
    be16(&mut t, 2); // minor
    be16(&mut t, 14); // glyphClassDef offset
    be16(&mut t, 0); // attachList offset
    be16(&mut t, 0); // ligCaretList offset
    be16(&mut t, 0); // markAttachClassDef offset
    be16(&mut t, 14 + glyph_class_def.len() as u16); // markGlyphSetsDef offset
    t.extend(glyph_class_def);
    t.extend(mark_glyph_sets);
    t
}

const BASE: u16 = 1;
const MARK: u16 = 3;

fn test_gdef() -> GDEFTable {
    let data = gdef_table(&[(10, 11, BASE), (22, 23, MARK)], &[&[23]]);
    ReadScope::new(&data)
        .read::<GDEFTable>()
        .expect("GDEF table should parse")
}

fn cache(gsub_data: &[u8]) -> LayoutCache<GSUB> {
    let table = ReadScope::new(gsub_data)
        .read::<LayoutTable<GSUB>>()
        .expect("GSUB table should parse");
    new_layout_cache(table)
}

fn shape(gsub_data: &[u8], gdef: Option<&GDEFTable>, input: &[u16]) -> Vec<u16> {
    let cache = cache(gsub_data);
    let mut glyphs: Vec<_> = input.iter().copied().map(glyph).collect();
    gsub::apply(
        0,
        &cache,
        gdef,
        tag::LATN,
        None,
        &Features::Mask(FeatureMask::default()),
        None,
        100,
        &mut glyphs,
    )
    .expect("shaping should succeed");
    glyphs.iter().map(|g| g.glyph_index).collect()
}

/// `locl`: SingleSubst 10 -> 20, 22 -> 42, 23 -> 43
fn single_subst_font(flag: u16) -> Vec<u8> {
    let lookups = lookup_list(&[lookup(
        1,
        flag,
        0,
        &[single_subst(&[10, 22, 23], &[20, 42, 43])],
    )]);
    gsub_table(
        script_list(tag::LATN, &[0], &[]),
        feature_list(&[(tag::LOCL, &[0])]),
        lookups,
    )
}

/// `liga`: LigatureSubst 10 11 -> 30
fn ligature_font(flag: u16) -> Vec<u8> {
    let lookups = lookup_list(&[lookup(4, flag, 0, &[ligature_subst(10, &[11], 30)])]);
    gsub_table(
        script_list(tag::LATN, &[0], &[]),
        feature_list(&[(tag::LIGA, &[0])]),
        lookups,
    )
}

#[test]
fn gdef_classes_and_mark_set_are_read() {
    use allsorts::gdef;

    let gdef_table = test_gdef();
    let gdef_table = Some(&gdef_table);
    assert_eq!(gdef::glyph_class(gdef_table, 10), gdef::GLYPH_CLASS_BASE);
    assert_eq!(gdef::glyph_class(gdef_table, 11), gdef::GLYPH_CLASS_BASE);
    assert_eq!(gdef::glyph_class(gdef_table, 22), gdef::GLYPH_CLASS_MARK);
    assert_eq!(gdef::glyph_class(gdef_table, 23), gdef::GLYPH_CLASS_MARK);
    assert!(!gdef::glyph_is_mark_in_set(gdef_table, 22, 0));
    assert!(gdef::glyph_is_mark_in_set(gdef_table, 23, 0));
}

/// Control: without the flag every covered glyph is substituted.
#[test]
fn single_subst_without_flag() {
    let gdef = test_gdef();
    let font = single_subst_font(0);
    assert_eq!(
        shape(&font, Some(&gdef), &[10, 22, 23, 11]),
        [20, 42, 43, 11]
    );
}

/// The base glyph 10 is not a mark, so UseMarkFilteringSet must not make the lookup skip it.
#[test]
fn single_subst_with_mark_filtering_set_substitutes_base() {
    let gdef = test_gdef();
    let font = single_subst_font(USE_MARK_FILTERING_SET);
    assert_eq!(shape(&font, Some(&gdef), &[10]), [20]);
}

/// Base substituted, mark outside the set skipped, mark in the set substituted.
#[test]
fn single_subst_with_mark_filtering_set_filters_only_marks() {
    let gdef = test_gdef();
    let font = single_subst_font(USE_MARK_FILTERING_SET);
    assert_eq!(
        shape(&font, Some(&gdef), &[10, 22, 23, 11]),
        [20, 22, 43, 11]
    );
}

/// Control: without the flag any glyph between the components prevents the ligature.
#[test]
fn ligature_without_flag() {
    let gdef = test_gdef();
    let font = ligature_font(0);
    assert_eq!(shape(&font, Some(&gdef), &[10, 11]), [30]);
    assert_eq!(shape(&font, Some(&gdef), &[10, 22, 11]), [10, 22, 11]);
    assert_eq!(shape(&font, Some(&gdef), &[10, 23, 11]), [10, 23, 11]);
}

/// The two bases are adjacent: the ligature must form.
#[test]
fn ligature_with_mark_filtering_set_adjacent_bases() {
    let gdef = test_gdef();
    let font = ligature_font(USE_MARK_FILTERING_SET);
    assert_eq!(shape(&font, Some(&gdef), &[10, 11]), [30]);
}

/// Mark 22 is not in the set: it is skipped and the ligature forms across it.
#[test]
fn ligature_with_mark_filtering_set_skips_mark_not_in_set() {
    let gdef = test_gdef();
    let font = ligature_font(USE_MARK_FILTERING_SET);
    assert_eq!(shape(&font, Some(&gdef), &[10, 22, 11]), [30, 22]);
}

/// Mark 23 is in the set: it is not skipped, so it sits between the components and no ligature
/// forms.
#[test]
fn ligature_with_mark_filtering_set_keeps_mark_in_set() {
    let gdef = test_gdef();
    let font = ligature_font(USE_MARK_FILTERING_SET);
    assert_eq!(shape(&font, Some(&gdef), &[10, 23, 11]), [10, 23, 11]);
}
