"""C06 — cmap conformance: the Mac Roman conversions are mutual inverses (both match tables read
from MIR and compared exhaustively)."""
import tableread
from facts import callee_is

LEVEL = "other"
EXPLANATION = (
    "Decides the clause 'the Mac Roman conversions used on the way are mutual inverses' exhaustively: both "
    "macroman::macroman_to_char and macroman::char_to_macroman are read from MIR as decision tables (range guards, "
    "SwitchInt value->constant maps); for all 256 codes b with to_char(b)=Some(c) the rule requires from_char(c)=Some(b), "
    "and for every scalar value c that any guard or arm of either table distinguishes (the functions are piecewise constant "
    "or identity between those breakpoints, so this covers all 0x110000 values) with from_char(c)=Some(b) it requires "
    "to_char(b)=Some(c). is_macroman must be char_to_macroman(..).is_some()."
)
NOT_DECIDED = ("format 0/2/4/6/10/12 lookup arithmetic, subtable preference order, symbol remapping, enumeration vs lookup "
               "agreement, and the Big5 conversions (delegated to encoding_rs, outside this crate).")


def check(run, fx, tier, floors=True):
    run.rule("T06-INV", "macroman_to_char and char_to_macroman are mutual inverses on every code and every scalar value")
    m2c = fx.body("macroman::macroman_to_char")
    c2m = fx.body("macroman::char_to_macroman")
    if m2c is None or c2m is None:
        run.anchor_missing("T06-INV", "macroman::macroman_to_char / char_to_macroman")
        return
    try:
        f_m2c, bp1 = tableread.scalar_fn(m2c)
        f_c2m, bp2 = tableread.scalar_fn(c2m)
    except tableread.TableShape as e:
        run.fail("T06-INV", "ANCHOR-SHAPE:macroman", "conversion function is not of the recognised table shape: %s" % e, "%s:%s" % (m2c.file, m2c.line))
        return
    site1 = "%s:%s" % (m2c.file, m2c.line)
    site2 = "%s:%s" % (c2m.file, c2m.line)
    n = 0
    for b in range(256):
        r = f_m2c(b)
        n += 1
        if r[0] == "some":
            c = r[1]
            back = f_c2m(c)
            if back != ("some", b):
                run.fail("T06-INV", "macroman:byte:%d" % b, "macroman_to_char(%d) = U+%04X but char_to_macroman(U+%04X) = %s" % (
                    b, c, c, "None" if back[0] == "none" else back[1]), site1)
            else:
                run.ok("T06-INV", "code %d <-> U+%04X" % (b, c) if b in (65, 128, 255) else None)
        else:
            run.ok("T06-INV")
    # chars: every value distinguished by either table, with neighbours, plus domain ends
    pts = set()
    results_chars = set()
    for b in range(256):
        r = f_m2c(b)
        if r[0] == "some":
            results_chars.add(r[1])
    for v in list(bp2) + list(results_chars) + [0, 0x7E, 0x7F, 0x80, 0xFF, 0x100, 0xD7FF, 0xE000, 0x10FFFF]:
        for d in (-1, 0, 1):
            x = v + d
            if 0 <= x <= 0x10FFFF and not (0xD800 <= x <= 0xDFFF):
                pts.add(x)
    for c in sorted(pts):
        r = f_c2m(c)
        if r[0] == "some":
            b = r[1]
            if not (0 <= b <= 255):
                run.fail("T06-INV", "macroman:char:U+%04X" % c, "char_to_macroman yields %d, not a byte" % b, site2)
                continue
            back = f_m2c(b)
            if back != ("some", c):
                run.fail("T06-INV", "macroman:char:U+%04X" % c, "char_to_macroman(U+%04X) = %d but macroman_to_char(%d) = %s" % (
                    c, b, b, "None" if back[0] == "none" else "U+%04X" % back[1]), site2)
            else:
                run.ok("T06-INV")
        else:
            run.ok("T06-INV")
    run.analysed["macroman_points"] = {"codes": 256, "scalar_breakpoints_evaluated": len(pts)}
    # is_macroman is defined through char_to_macroman
    run.rule("T06-IS", "is_macroman(c) is char_to_macroman(c).is_some()")
    ism = fx.body("macroman::is_macroman")
    if ism is None:
        run.anchor_missing("T06-IS", "macroman::is_macroman")
    else:
        calls = [t for _, t in ism.calls()]
        names = [t["callee"].get("path") for t in calls]
        if len(calls) == 2 and callee_is(calls[0], "macroman::char_to_macroman") and callee_is(calls[1], "::is_some") and not any(
                b["t"]["k"] == "switch" for b in ism.blocks):
            run.ok("T06-IS", "is_macroman = char_to_macroman(chr).is_some()")
        else:
            run.fail("T06-IS", "is_macroman", "is_macroman is not char_to_macroman(..).is_some(): calls %s" % names, "%s:%s" % (ism.file, ism.line))
    if floors:
        run.floor("T06-INV", "codes and scalar breakpoints compared", run.by_rule["T06-INV"]["obligations"], 500)
