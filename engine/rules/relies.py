"""Audits that lean on a check made in another function.

An audited ledger entry says, in prose, why a site cannot fail; for some the reason is a test that lives elsewhere ("find_strike
picked a record for which contains_glyph(glyph_id) held, so glyph_id >= first_glyph_index"). The count on the entry notices a new
site in the audited function, not a weakening of the function the reason cites. Such an entry can carry

    "relies_on": [{"fn": "<path of a bool function>", "true_implies": ["Ge(arg:glyph_id, *arg:self.first_glyph_index)", ...]}]

and this rule re-establishes, on every run, that the cited function still returns true only when each listed comparison holds:
comparisons whose edge dominates every non-false result, the result expression itself, or the bounds of a `(a..=b).contains(&x)`
result. Comparisons are written as sym.show prints them, either orientation.

A second form is for two collections that are indexed with one another's positions:

    "relies_on": [{"fn": "<path of the builder>", "parallel": {"pushed": "<local that is pushed to>", "over": "<local that is iterated>"}}]

The rule re-establishes that the builder pushes to `pushed` exactly once on every path round the loop that iterates `over` (a path that
leaves the function is an error exit and builds nothing), pushes nowhere else, and iterates `over` without an adaptor that drops, limits
or repeats elements - so the two have the same length whenever the builder succeeds."""
import json
import os

import guards
import sym

LEDGERS = ("arith", "index", "explicit_panic", "narrowing", "division", "alloc", "loops")


def fn_truths(body):
    """[(op, a, b)] that hold whenever the bool function returns true"""
    out = list(guards.closure_truth(body))
    prov = sym.Prov(body)
    # the result is `range.contains(&x)`
    ret = sym.strip(prov.local(0))
    if ret[0] == "call" and (ret[4] or ret[1] or "").endswith("::contains") and len(ret[2]) == 2:
        rb = guards.range_bounds(ret[2][0])
        if rb is not None:
            x = guards.canon(("deref", ret[2][1]))
            out.append(("Ge", x, rb[0]))
            out.append(("Le" if rb[2] else "Lt", x, rb[1]))
    return out


DROPPING = ("::filter", "::filter_map", "::skip", "::skip_while", "::take", "::take_while", "::step_by", "::flat_map", "::flatten",
            "::chain", "::cycle", "::dedup", "::rev_skip", "::map_while", "::scan", "::peekable", "::zip")


def _named_local(b, name):
    for l in range(1, len(b.locals)):
        if b.local_name(l) == name:
            return l
    return None


def _op_locals(op):
    return [op["p"]["l"]] if op and op.get("k") in ("copy", "move") else []


def _rv_locals(rv):
    k = rv["k"]
    if k in ("ref", "rawptr", "discr", "len"):
        return [rv["p"]["l"]]
    if k in ("use", "cast", "un"):
        return _op_locals(rv.get("op") or rv.get("a"))
    if k == "bin":
        return _op_locals(rv["a"]) + _op_locals(rv["b"])
    if k == "agg":
        return [l for f in rv["fields"] for l in _op_locals(f)]
    return []


def _flows_from(b, src):
    """locals that hold `src`, a reference to it, or an iterator made from it; with the names of the calls it went through"""
    held = {src}
    through = {}
    changed = True
    while changed:
        changed = False
        for bi in range(len(b.blocks)):
            if not b.reachable(bi):
                continue
            for st in b.stmts(bi):
                if st["k"] == "assign" and not st["p"]["p"] and st["p"]["l"] not in held and any(l in held for l in _rv_locals(st["rv"])):
                    held.add(st["p"]["l"])
                    changed = True
            t = b.term(bi)
            if t["k"] == "call" and t.get("dest") and not t["dest"]["p"] and t["dest"]["l"] not in held:
                args = [l for a in t["args"] for l in _op_locals(a)]
                nm = str(t["callee"].get("path") or "")
                if args and args[0] in held and not nm.endswith(("Iterator::next", "::len", "::is_empty")):
                    held.add(t["dest"]["l"])
                    through[t["dest"]["l"]] = nm
                    changed = True
    return held, through


def parallel_problem(fx, b, pushed, over):
    """None when `b` pushes to the local `pushed` exactly once per element of the local `over`; otherwise what is wrong"""
    import loops
    import pathwalk as pw
    lp_, lo_ = _named_local(b, pushed), _named_local(b, over)
    if lp_ is None or lo_ is None:
        return "no local named `%s` / `%s` (renamed: audit again)" % (pushed, over)
    vec_refs, _ = _flows_from(b, lp_)
    pushes = []
    for bi in range(len(b.blocks)):
        t = b.term(bi)
        if b.reachable(bi) and t["k"] == "call" and t["args"] and _op_locals(t["args"][0]) and _op_locals(t["args"][0])[0] in vec_refs:
            nm = str(t["callee"].get("path") or "")
            if nm.endswith("::push"):
                pushes.append(bi)
            elif nm.endswith(("::insert", "::extend", "::append", "::pop", "::remove", "::truncate", "::clear", "::retain", "::swap_remove", "::drain", "::resize", "::dedup")):
                return "`%s` is also changed through %s" % (pushed, nm)
    if not pushes:
        # built in one expression: `over.iter().map(..).collect::<Result<Vec<_>, _>>()?` yields one element per element or fails as a whole
        import zipalign
        chain, names = zipalign.chain_calls(b, {"k": "copy", "p": {"l": lp_, "p": []}})
        if lo_ in chain and any(nm.endswith("Iterator::collect") for nm in names):
            bad = sorted(nm for nm in names if any(nm.endswith(d) for d in DROPPING))
            if bad:
                return "`%s` is collected from `%s` through %s" % (pushed, over, bad)
            return None
        return "no push to `%s` found and it is not collected from `%s` (the collection is built some other way: audit again)" % (pushed, over)
    nl = loops.natural_loops(b)
    inner = [lp for lp in nl if all(p in lp[1] for p in pushes)]
    if not inner:
        return "pushes to `%s` are not all inside one loop" % pushed
    lp = min(inner, key=lambda l: len(l[1]))
    h, body = lp[0], lp[1]
    # the loop is driven by an iterator over `over`, unadapted
    nexts = [bi for bi in body if b.term(bi)["k"] == "call" and str(b.term(bi)["callee"].get("path") or "").endswith("Iterator::next")]
    if len(nexts) != 1:
        return "the loop round the pushes is not driven by one iterator (%d calls of next)" % len(nexts)
    held, through = _flows_from(b, lo_)
    recv = _op_locals(b.term(nexts[0])["args"][0])
    if not recv or recv[0] not in held:
        return "the loop round the pushes does not iterate `%s`" % over
    bad = sorted({nm for nm in through.values() if any(nm.endswith(d) for d in DROPPING)})
    if bad:
        return "an iterator over `%s` goes through %s" % (over, bad)
    w = pw.Walk(b, None, [h], region=set(body), start=h)
    if w.dropped:
        return "the loop body could not be walked (%s)" % "; ".join(w.dropped)
    rounds = 0
    for conds, env, end, kind in w.paths:
        if kind != "stop":
            continue
        rounds += 1
        k = sum(1 for c in env.get(pw.Walk.CALLS, ()) if c[0] in pushes)
        if k != 1:
            return "a path round the loop pushes %d element(s) to `%s`" % (k, pushed)
    if not rounds:
        return "no path round the loop was found"
    return None


def _forms(op, a, b):
    a, b = sym.show(sym.strip(a)), sym.show(sym.strip(b))
    return {"%s(%s, %s)" % (op, a, b), "%s(%s, %s)" % (guards.CMP_FLIP[op], b, a)}


def entries(verif):
    for name in LEDGERS:
        p = os.path.join(verif, "ledger", name + ".jsonl")
        if not os.path.isfile(p):
            continue
        for line in open(p):
            line = line.strip()
            if not line:
                continue
            e = json.loads(line)
            if e.get("relies_on"):
                yield name, e


def rule_relies(run, fx, rule="C01-r", floors=True, floor_n=1):
    import extract
    run.rule(rule, "an audit that leans on a test made in another function: for every ledger entry with a relies_on clause, the cited bool function "
                   "still returns true only when each listed comparison holds (read from the edges that dominate its non-false results, its result "
                   "expression, or the bounds of a range contains) - weakening the cited test re-opens the audit")
    n = 0
    for ledger, e in entries(extract.VERIF):
        for dep in e["relies_on"]:
            b = fx.body(dep["fn"])
            if b is None:
                # the audited function is not in this configuration either: nothing to establish
                if not any(x.root == e["key"].split("|")[1] for x in fx.bodies):
                    continue
                run.fail(rule, "relies|%s|%s" % (e["key"], dep["fn"]), "the audit of %s relies on %s, which no longer exists" % (e["key"], dep["fn"]))
                n += 1
                continue
            if dep.get("parallel"):
                n += 1
                pr = parallel_problem(fx, b, dep["parallel"]["pushed"], dep["parallel"]["over"])
                if pr is None:
                    run.ok(rule, "%s: one push to %s per element of %s (audit %s)" % (dep["fn"], dep["parallel"]["pushed"], dep["parallel"]["over"], e["key"]))
                else:
                    run.fail(rule, "relies|%s|%s|parallel" % (e["key"], dep["fn"]),
                             "the audited site %s is safe only because %s builds `%s` with one element per element of `%s`; that no longer holds: %s"
                             % (e["key"], dep["fn"], dep["parallel"]["pushed"], dep["parallel"]["over"], pr), "%s:%s" % (b.file, b.line))
                continue
            have = set()
            for op, x, y in fn_truths(b):
                if op in guards.CMP_FLIP:
                    have |= _forms(op, x, y)
            for want in dep.get("true_implies", []):
                n += 1
                if want in have:
                    run.ok(rule, "%s: true implies %s (audit %s)" % (dep["fn"], want, e["key"]))
                else:
                    run.fail(rule, "relies|%s|%s|%s" % (e["key"], dep["fn"], want),
                             "the audited site %s is safe only because %s returns true only when %s; the function no longer establishes that "
                             "(it establishes: %s)" % (e["key"], dep["fn"], want, "; ".join(sorted(have))[:300] or "nothing"), "%s:%s" % (b.file, b.line))
    if not floors:
        # planted fixture: the parallel-collection clause is exercised on functions named parallel_* (no ledger applies there)
        for b in fx.bodies:
            if b.kind != "Closure" and b.path.split("::")[-1].startswith("parallel_"):
                pr = parallel_problem(fx, b, "tables", "records")
                if pr is not None:
                    run.fail(rule, "parallel:" + b.path, "%s does not build `tables` with one element per element of `records`: %s" % (b.path, pr), "%s:%s" % (b.file, b.line))
                else:
                    run.ok(rule, "%s: one push per element" % b.path)
    if floors:
        run.floor(rule, "comparisons that audits rely on", n, floor_n)
    return n
