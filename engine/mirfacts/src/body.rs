//! Structured MIR export of every fn / assoc fn / closure body of the local crate.
use crate::json::J;
use rustc_hir::def::DefKind;
use rustc_hir::def_id::DefId;
use rustc_middle::mir::*;
use rustc_middle::mir::PlaceTy;
use rustc_middle::ty::print::{with_no_trimmed_paths, PrintTraitRefExt};
use rustc_middle::ty::{self, Instance, Ty, TyCtxt, TypingEnv};
use rustc_span::{ExpnKind, Span};

pub fn path(tcx: TyCtxt<'_>, did: DefId) -> String {
    with_no_trimmed_paths!(tcx.def_path_str(did))
}

/// unique, stable (line-independent) identity of a definition
pub fn dp(tcx: TyCtxt<'_>, did: DefId) -> String {
    format!("{}{}", tcx.crate_name(did.krate), tcx.def_path(did).to_string_no_crate_verbose())
}

pub fn ty_s<'tcx>(t: Ty<'tcx>) -> String {
    with_no_trimmed_paths!(format!("{}", t))
}

pub fn span_j(tcx: TyCtxt<'_>, span: Span) -> (String, usize) {
    let sp = if span.from_expansion() { span.source_callsite() } else { span };
    let sm = tcx.sess.source_map();
    let loc = sm.lookup_char_pos(sp.lo());
    let file = match &loc.file.name {
        rustc_span::FileName::Real(r) => match r.local_path() {
            Some(p) => p.to_string_lossy().to_string(),
            None => format!("{:?}", r),
        },
        other => format!("{:?}", other),
    };
    (file, loc.line)
}

/// names of macros (innermost first) and desugarings in the expansion backtrace of a span
pub fn expn_j(span: Span) -> (J, J) {
    if !span.from_expansion() {
        return (J::Null, J::Null);
    }
    let mut macros = vec![];
    let mut desugar = J::Null;
    for e in span.macro_backtrace() {
        match e.kind {
            ExpnKind::Macro(_, name) => macros.push(J::s(name.to_string())),
            ExpnKind::Desugaring(k) => {
                if matches!(desugar, J::Null) {
                    desugar = J::s(format!("{:?}", k));
                }
            }
            _ => {}
        }
    }
    // a span can be a desugaring at its own ctxt without macro_backtrace listing it first
    if matches!(desugar, J::Null) {
        if let ExpnKind::Desugaring(k) = span.ctxt().outer_expn_data().kind {
            desugar = J::s(format!("{:?}", k));
        }
    }
    (if macros.is_empty() { J::Null } else { J::Arr(macros) }, desugar)
}

pub struct Cx<'a, 'tcx> {
    pub tcx: TyCtxt<'tcx>,
    pub body: &'a Body<'tcx>,
    pub env: TypingEnv<'tcx>,
}

impl<'a, 'tcx> Cx<'a, 'tcx> {
    pub fn place(&self, p: &Place<'tcx>) -> J {
        let tcx = self.tcx;
        let mut pty = PlaceTy::from_ty(self.body.local_decls[p.local].ty);
        let mut proj = vec![];
        for elem in p.projection.iter() {
            let j = match elem {
                ProjectionElem::Deref => J::s("*"),
                ProjectionElem::Field(f, fty) => {
                    let mut name = J::Null;
                    let mut adt = J::Null;
                    if let ty::Adt(def, _) = pty.ty.kind() {
                        let vi = pty.variant_index.unwrap_or(rustc_abi::FIRST_VARIANT);
                        if def.is_enum() || def.is_struct() || def.is_union() {
                            if let Some(v) = def.variants().get(vi) {
                                if let Some(fd) = v.fields.get(f) {
                                    name = J::s(fd.name.to_string());
                                }
                            }
                        }
                        adt = J::s(path(tcx, def.did()));
                    }
                    J::Obj(vec![
                        ("f", J::u(f.as_usize())),
                        ("n", name),
                        ("a", adt),
                        ("ty", J::s(ty_s(fty))),
                    ])
                }
                ProjectionElem::Index(l) => J::Obj(vec![("i", J::u(l.as_usize()))]),
                ProjectionElem::ConstantIndex { offset, min_length, from_end } => J::Obj(vec![
                    ("ci", J::Int(offset as i128)),
                    ("min", J::Int(min_length as i128)),
                    ("fe", J::Bool(from_end)),
                ]),
                ProjectionElem::Subslice { from, to, from_end } => J::Obj(vec![
                    ("ss", J::Arr(vec![J::Int(from as i128), J::Int(to as i128)])),
                    ("fe", J::Bool(from_end)),
                ]),
                ProjectionElem::Downcast(name, vi) => J::Obj(vec![
                    ("d", J::u(vi.as_usize())),
                    ("n", J::opt_s(name.map(|n| n.to_string()))),
                ]),
                other => J::Obj(vec![("o", J::s(format!("{:?}", other)))]),
            };
            proj.push(j);
            pty = pty.projection_ty(tcx, elem);
        }
        J::Obj(vec![("l", J::u(p.local.as_usize())), ("p", J::Arr(proj)), ("ty", J::s(ty_s(pty.ty)))])
    }

    pub fn constant(&self, c: &ConstOperand<'tcx>) -> J {
        let tcx = self.tcx;
        let ty = c.const_.ty();
        let mut o: Vec<(&'static str, J)> = vec![("k", J::s("const")), ("ty", J::s(ty_s(ty)))];
        if let ty::FnDef(def, gargs) = ty.kind() {
            o.push(("fn", J::s(path(tcx, *def))));
            o.push(("fn_dp", J::s(dp(tcx, *def))));
            o.push(("fn_args", J::Arr(gargs.iter().map(|a| J::s(with_no_trimmed_paths!(format!("{}", a)))).collect())));
        } else {
            let mut val = J::Null;
            if ty.is_integral() || ty.is_bool() || ty.is_char() {
                if let Some(si) = c.const_.try_eval_scalar_int(tcx, self.env) {
                    let size = si.size();
                    let bits = si.to_bits(size);
                    let v: i128 = if ty.is_signed() { size.sign_extend(bits) as i128 } else { bits as i128 };
                    val = J::Int(v);
                }
            }
            o.push(("val", val));
            if let Const::Unevaluated(u, _) = c.const_ {
                o.push(("uneval", J::s(path(tcx, u.def))));
                o.push(("uneval_dp", J::s(dp(tcx, u.def))));
                o.push(("uneval_args", J::Arr(u.args.iter().map(|a| J::s(with_no_trimmed_paths!(format!("{}", a)))).collect())));
                o.push(("promoted", match u.promoted { Some(p) => J::u(p.as_usize()), None => J::Null }));
                // promoted constants: export the statements of the promoted body (resolved paths), so that
                // rules can identify e.g. which enum variant or array a `&CONST` operand refers to
                if let Some(p) = u.promoted {
                    if u.def.is_local() {
                        let pm = tcx.promoted_mir(u.def);
                        if let Some(pb) = pm.get(p) {
                            let mut st: Vec<J> = Vec::new();
                            for bb in pb.basic_blocks.iter() {
                                for s in bb.statements.iter() {
                                    if let StatementKind::Assign(b) = &s.kind {
                                        let txt = with_no_trimmed_paths!(format!("{:?} = {:?}", b.0, b.1));
                                        let txt = if txt.len() > 400 { txt.chars().take(400).collect::<String>() } else { txt };
                                        st.push(J::s(txt));
                                    }
                                }
                                // const fn calls of the promoted body (e.g. RangeInclusive::new(a, b)) are terminators
                                if let Some(t) = &bb.terminator {
                                    if let TerminatorKind::Call { .. } = &t.kind {
                                        let txt = with_no_trimmed_paths!(format!("{:?}", t.kind));
                                        let txt = if txt.len() > 400 { txt.chars().take(400).collect::<String>() } else { txt };
                                        st.push(J::s(txt));
                                    }
                                }
                            }
                            o.push(("pstmts", J::Arr(st)));
                        }
                    }
                }
            }
            let s = with_no_trimmed_paths!(format!("{}", c.const_));
            let s = if s.len() > 300 { format!("{}…", &s[..s.char_indices().nth(280).map(|x| x.0).unwrap_or(s.len())]) } else { s };
            o.push(("s", J::s(s)));
        }
        J::Obj(o)
    }

    pub fn operand(&self, op: &Operand<'tcx>) -> J {
        match op {
            Operand::Copy(p) => J::Obj(vec![("k", J::s("copy")), ("p", self.place(p))]),
            Operand::Move(p) => J::Obj(vec![("k", J::s("move")), ("p", self.place(p))]),
            Operand::Constant(c) => self.constant(c),
            #[allow(unreachable_patterns)]
            other => J::Obj(vec![("k", J::s("other")), ("s", J::s(format!("{:?}", other)))]),
        }
    }

    pub fn rvalue(&self, rv: &Rvalue<'tcx>) -> J {
        let tcx = self.tcx;
        match rv {
            Rvalue::Use(op, ..) => J::Obj(vec![("k", J::s("use")), ("op", self.operand(op))]),
            Rvalue::Repeat(op, n) => J::Obj(vec![
                ("k", J::s("repeat")),
                ("op", self.operand(op)),
                ("n", J::s(with_no_trimmed_paths!(format!("{}", n)))),
            ]),
            Rvalue::Ref(_, bk, p) => J::Obj(vec![
                ("k", J::s("ref")),
                ("mut", J::Bool(matches!(bk, BorrowKind::Mut { .. }))),
                ("p", self.place(p)),
            ]),
            Rvalue::RawPtr(kind, p) => J::Obj(vec![
                ("k", J::s("rawptr")),
                ("kind", J::s(format!("{:?}", kind))),
                ("p", self.place(p)),
            ]),
            Rvalue::Cast(kind, op, to) => {
                let from = op.ty(&self.body.local_decls, tcx);
                J::Obj(vec![
                    ("k", J::s("cast")),
                    ("kind", J::s(format!("{:?}", kind))),
                    ("op", self.operand(op)),
                    ("from", J::s(ty_s(from))),
                    ("to", J::s(ty_s(*to))),
                ])
            }
            Rvalue::BinaryOp(op, ab) => {
                let (a, b) = &**ab;
                J::Obj(vec![
                    ("k", J::s("bin")),
                    ("bop", J::s(format!("{:?}", op))),
                    ("a", self.operand(a)),
                    ("b", self.operand(b)),
                    ("aty", J::s(ty_s(a.ty(&self.body.local_decls, tcx)))),
                ])
            }
            Rvalue::UnaryOp(op, a) => J::Obj(vec![
                ("k", J::s("un")),
                ("bop", J::s(format!("{:?}", op))),
                ("a", self.operand(a)),
                ("aty", J::s(ty_s(a.ty(&self.body.local_decls, tcx)))),
            ]),
            Rvalue::Discriminant(p) => J::Obj(vec![("k", J::s("discr")), ("p", self.place(p))]),
            Rvalue::CopyForDeref(p) => J::Obj(vec![
                ("k", J::s("use")),
                ("op", J::Obj(vec![("k", J::s("copy")), ("p", self.place(p))])),
            ]),
            Rvalue::Aggregate(kind, fields) => {
                let mut o: Vec<(&'static str, J)> = vec![("k", J::s("agg"))];
                match &**kind {
                    AggregateKind::Array(t) => {
                        o.push(("agg", J::s("array")));
                        o.push(("elem", J::s(ty_s(*t))));
                    }
                    AggregateKind::Tuple => o.push(("agg", J::s("tuple"))),
                    AggregateKind::Adt(did, vi, gargs, _, active) => {
                        o.push(("agg", J::s("adt")));
                        o.push(("adt", J::s(path(tcx, *did))));
                        o.push(("adt_args", J::Arr(gargs.iter().map(|a| J::s(with_no_trimmed_paths!(format!("{}", a)))).collect())));
                        let def = tcx.adt_def(*did);
                        let v = def.variant(*vi);
                        o.push(("variant", J::u(vi.as_usize())));
                        o.push(("vname", J::s(v.name.to_string())));
                        o.push(("fnames", J::Arr(v.fields.iter().map(|f| J::s(f.name.to_string())).collect())));
                        if let Some(a) = active {
                            o.push(("active", J::u(a.as_usize())));
                        }
                    }
                    AggregateKind::Closure(did, _) => {
                        o.push(("agg", J::s("closure")));
                        o.push(("closure", J::s(path(tcx, *did))));
                        o.push(("closure_dp", J::s(dp(tcx, *did))));
                    }
                    other => {
                        o.push(("agg", J::s("other")));
                        o.push(("s", J::s(format!("{:?}", other))));
                    }
                }
                o.push(("fields", J::Arr(fields.iter().map(|f| self.operand(f)).collect())));
                J::Obj(o)
            }
            other => J::Obj(vec![("k", J::s("other")), ("s", J::s(format!("{:?}", other)))]),
        }
    }

    fn site(&self, span: Span) -> Vec<(&'static str, J)> {
        let (file, line) = span_j(self.tcx, span);
        let (macros, desugar) = expn_j(span);
        let mut v = vec![("line", J::u(line))];
        if file != self.file() {
            v.push(("file", J::s(file)));
        }
        if span.from_expansion() {
            v.push(("exp", J::Bool(true)));
        }
        if !matches!(macros, J::Null) {
            v.push(("macros", macros));
        }
        if !matches!(desugar, J::Null) {
            v.push(("desugar", desugar));
        }
        v
    }

    fn file(&self) -> String {
        span_j(self.tcx, self.body.span).0
    }

    pub fn statement(&self, st: &Statement<'tcx>) -> Option<J> {
        match &st.kind {
            StatementKind::Assign(b) => {
                let (p, rv) = &**b;
                let mut o = vec![("k", J::s("assign")), ("p", self.place(p)), ("rv", self.rvalue(rv))];
                o.extend(self.site(st.source_info.span));
                Some(J::Obj(o))
            }
            StatementKind::SetDiscriminant { place, variant_index } => {
                let mut o = vec![
                    ("k", J::s("setdiscr")),
                    ("p", self.place(place)),
                    ("variant", J::u(variant_index.as_usize())),
                ];
                o.extend(self.site(st.source_info.span));
                Some(J::Obj(o))
            }
            StatementKind::Intrinsic(i) => {
                let mut o = vec![("k", J::s("intrinsic")), ("s", J::s(format!("{:?}", i)))];
                o.extend(self.site(st.source_info.span));
                Some(J::Obj(o))
            }
            _ => None,
        }
    }

    pub fn callee(&self, func: &Operand<'tcx>) -> J {
        let tcx = self.tcx;
        if let Some((def, gargs)) = func.const_fn_def() {
            let mut o: Vec<(&'static str, J)> = vec![
                ("path", J::s(path(tcx, def))),
                ("dp", J::s(dp(tcx, def))),
                ("krate", J::s(tcx.crate_name(def.krate).to_string())),
                ("args", J::Arr(gargs.iter().map(|a| J::s(with_no_trimmed_paths!(format!("{}", a)))).collect())),
            ];
            if matches!(tcx.def_kind(def), DefKind::Fn | DefKind::AssocFn) {
                let sig = tcx.fn_sig(def).skip_binder();
                if sig.safety().is_unsafe() {
                    o.push(("unsafe", J::Bool(true)));
                }
            }
            if let Some(tr) = tcx.trait_of_assoc(def) {
                o.push(("trait", J::s(path(tcx, tr))));
            }
            if let Some(ai) = tcx.opt_associated_item(def) {
                o.push(("name", J::s(ai.name().to_string())));
            } else {
                o.push(("name", J::opt_s(tcx.opt_item_name(def).map(|n| n.to_string()))));
            }
            if let Some(imp) = tcx.impl_of_assoc(def) {
                let st = tcx.type_of(imp).skip_binder();
                o.push(("impl_self", J::s(ty_s(st))));
            }
            match Instance::try_resolve(tcx, self.env, def, gargs) {
                Ok(Some(inst)) => {
                    let rdid = inst.def_id();
                    o.push(("rpath", J::s(path(tcx, rdid))));
                    o.push(("rdp", J::s(dp(tcx, rdid))));
                    o.push(("rkind", J::s(instance_kind(&inst))));
                    o.push(("rargs", J::Arr(inst.args.iter().map(|a| J::s(with_no_trimmed_paths!(format!("{}", a)))).collect())));
                }
                _ => {
                    o.push(("rpath", J::Null));
                }
            }
            J::Obj(o)
        } else {
            J::Obj(vec![("indirect", self.operand(func)), ("ty", J::s(ty_s(func.ty(&self.body.local_decls, tcx))))])
        }
    }

    pub fn terminator(&self, t: &Terminator<'tcx>) -> J {
        let bb = |b: &BasicBlock| J::u(b.as_usize());
        let obb = |b: &Option<BasicBlock>| match b {
            Some(b) => J::u(b.as_usize()),
            None => J::Null,
        };
        let unw = |u: &UnwindAction| match u {
            UnwindAction::Cleanup(b) => J::u(b.as_usize()),
            _ => J::Null,
        };
        let mut o: Vec<(&'static str, J)> = match &t.kind {
            TerminatorKind::Goto { target } => vec![("k", J::s("goto")), ("target", bb(target))],
            TerminatorKind::SwitchInt { discr, targets } => {
                let mut arms = vec![];
                for (v, b) in targets.iter() {
                    arms.push(J::Arr(vec![J::Int(v as i128), bb(&b)]));
                }
                vec![
                    ("k", J::s("switch")),
                    ("discr", self.operand(discr)),
                    ("dty", J::s(ty_s(discr.ty(&self.body.local_decls, self.tcx)))),
                    ("arms", J::Arr(arms)),
                    ("otherwise", bb(&targets.otherwise())),
                ]
            }
            TerminatorKind::Return => vec![("k", J::s("return"))],
            TerminatorKind::Unreachable => vec![("k", J::s("unreachable"))],
            TerminatorKind::UnwindResume => vec![("k", J::s("resume"))],
            TerminatorKind::UnwindTerminate(_) => vec![("k", J::s("terminate"))],
            TerminatorKind::Drop { place, target, unwind, .. } => vec![
                ("k", J::s("drop")),
                ("p", self.place(place)),
                ("target", bb(target)),
                ("unwind", unw(unwind)),
            ],
            TerminatorKind::Call { func, args, destination, target, unwind, .. } => vec![
                ("k", J::s("call")),
                ("callee", self.callee(func)),
                ("args", J::Arr(args.iter().map(|a| self.operand(&a.node)).collect())),
                ("dest", self.place(destination)),
                ("target", obb(target)),
                ("unwind", unw(unwind)),
            ],
            TerminatorKind::TailCall { func, args, .. } => vec![
                ("k", J::s("tailcall")),
                ("callee", self.callee(func)),
                ("args", J::Arr(args.iter().map(|a| self.operand(&a.node)).collect())),
            ],
            TerminatorKind::Assert { cond, expected, msg, target, unwind } => {
                let (kind, ops): (String, Vec<J>) = match &**msg {
                    AssertKind::BoundsCheck { len, index } => {
                        ("BoundsCheck".into(), vec![self.operand(len), self.operand(index)])
                    }
                    AssertKind::Overflow(op, a, b) => {
                        (format!("Overflow:{:?}", op), vec![self.operand(a), self.operand(b)])
                    }
                    AssertKind::OverflowNeg(a) => ("OverflowNeg".into(), vec![self.operand(a)]),
                    AssertKind::DivisionByZero(a) => ("DivisionByZero".into(), vec![self.operand(a)]),
                    AssertKind::RemainderByZero(a) => ("RemainderByZero".into(), vec![self.operand(a)]),
                    other => {
                        let s = format!("{:?}", other);
                        (s.split(|c: char| !c.is_alphanumeric()).next().unwrap_or("Other").to_string(), vec![])
                    }
                };
                let tys: Vec<J> = match &**msg {
                    AssertKind::Overflow(_, a, _) | AssertKind::OverflowNeg(a) | AssertKind::DivisionByZero(a) | AssertKind::RemainderByZero(a) => {
                        vec![J::s(ty_s(a.ty(&self.body.local_decls, self.tcx)))]
                    }
                    _ => vec![],
                };
                vec![
                    ("k", J::s("assert")),
                    ("cond", self.operand(cond)),
                    ("expected", J::Bool(*expected)),
                    ("kind", J::s(kind)),
                    ("ops", J::Arr(ops)),
                    ("otys", J::Arr(tys)),
                    ("target", bb(target)),
                    ("unwind", unw(unwind)),
                ]
            }
            TerminatorKind::FalseEdge { real_target, .. } => vec![("k", J::s("goto")), ("target", bb(real_target))],
            TerminatorKind::FalseUnwind { real_target, .. } => vec![("k", J::s("goto")), ("target", bb(real_target))],
            other => vec![("k", J::s("other")), ("s", J::s(format!("{:?}", other)))],
        };
        o.extend(self.site(t.source_info.span));
        J::Obj(o)
    }
}

pub fn instance_kind(inst: &Instance<'_>) -> String {
    use ty::InstanceKind::*;
    match inst.def {
        Item(_) => "item",
        Intrinsic(_) => "intrinsic",
        VTableShim(_) => "vtable_shim",
        ReifyShim(..) => "reify_shim",
        FnPtrShim(..) => "fnptr_shim",
        Virtual(..) => "virtual",
        ClosureOnceShim { .. } => "closure_once_shim",
        DropGlue(..) => "drop_glue",
        CloneShim(..) => "clone_shim",
        _ => "other",
    }
    .to_string()
}

pub fn export_body<'tcx>(tcx: TyCtxt<'tcx>, did: DefId, body: &Body<'tcx>, env: TypingEnv<'tcx>) -> J {
    let cx = Cx { tcx, body, env };
    let kind = tcx.def_kind(did);
    let (file, line) = span_j(tcx, body.span);
    let mut o: Vec<(&'static str, J)> = vec![
        ("path", J::s(path(tcx, did))),
        ("dp", J::s(dp(tcx, did))),
        ("kind", J::s(format!("{:?}", kind))),
        ("file", J::s(file)),
        ("line", J::u(line)),
        ("exp", J::Bool(tcx.def_span(did).from_expansion())),
        ("arg_count", J::u(body.arg_count)),
    ];
    let root = tcx.typeck_root_def_id(did);
    o.push(("root", J::s(path(tcx, root))));
    o.push(("root_dp", J::s(dp(tcx, root))));
    if matches!(kind, DefKind::Fn | DefKind::AssocFn) {
        let sig = tcx.fn_sig(did).skip_binder();
        o.push(("unsafe", J::Bool(sig.safety().is_unsafe())));
        let sig = sig.skip_binder();
        o.push(("inputs", J::Arr(sig.inputs().iter().map(|t| J::s(ty_s(*t))).collect())));
        o.push(("output", J::s(ty_s(sig.output()))));
        o.push(("vis", J::s(format!("{:?}", tcx.visibility(did)))));
        o.push(("pub", J::Bool(tcx.visibility(did).is_public())));
        if let Some(ldid) = did.as_local() {
            let ev = tcx.effective_visibilities(());
            o.push(("reachable", J::Bool(ev.is_reachable(ldid))));
        }
        o.push(("generic", J::Bool(tcx.generics_of(did).requires_monomorphization(tcx))));
        if let Some(ai) = tcx.opt_associated_item(did) {
            o.push(("name", J::s(ai.name().to_string())));
            if let Some(tr) = ai.trait_item_def_id() {
                o.push(("trait_item", J::s(path(tcx, tr))));
            }
        } else {
            o.push(("name", J::opt_s(tcx.opt_item_name(did).map(|n| n.to_string()))));
        }
        if let Some(imp) = tcx.impl_of_assoc(did) {
            o.push(("impl_self", J::s(ty_s(tcx.type_of(imp).skip_binder()))));
            if let Some(tr) = tcx.impl_opt_trait_ref(imp) {
                o.push(("impl_trait", J::s(with_no_trimmed_paths!(format!("{}", tr.skip_binder().print_only_trait_path())))));
            }
        }
        if let Some(tr) = tcx.trait_of_assoc(did) {
            o.push(("in_trait", J::s(path(tcx, tr))));
        }
    }
    // locals
    let mut names: Vec<Option<String>> = vec![None; body.local_decls.len()];
    for vdi in &body.var_debug_info {
        if let VarDebugInfoContents::Place(p) = &vdi.value {
            if p.projection.is_empty() {
                names[p.local.as_usize()] = Some(vdi.name.to_string());
            }
        }
    }
    let locals: Vec<J> = body
        .local_decls
        .iter_enumerated()
        .map(|(l, d)| {
            let mut v = vec![("ty", J::s(ty_s(d.ty)))];
            if let Some(n) = &names[l.as_usize()] {
                v.push(("name", J::s(n.clone())));
            }
            if d.mutability.is_mut() {
                v.push(("mut", J::Bool(true)));
            }
            J::Obj(v)
        })
        .collect();
    o.push(("locals", J::Arr(locals)));
    // upvar / captured names for closures via var_debug_info with projections
    let mut caps = vec![];
    for vdi in &body.var_debug_info {
        if let VarDebugInfoContents::Place(p) = &vdi.value {
            if !p.projection.is_empty() {
                caps.push(J::Obj(vec![("name", J::s(vdi.name.to_string())), ("p", cx.place(p))]));
            }
        }
    }
    if !caps.is_empty() {
        o.push(("captures", J::Arr(caps)));
    }
    let blocks: Vec<J> = body
        .basic_blocks
        .iter()
        .map(|bbd| {
            let stmts: Vec<J> = bbd.statements.iter().filter_map(|s| cx.statement(s)).collect();
            let mut v = vec![("s", J::Arr(stmts)), ("t", cx.terminator(bbd.terminator()))];
            if bbd.is_cleanup {
                v.push(("cleanup", J::Bool(true)));
            }
            J::Obj(v)
        })
        .collect();
    o.push(("blocks", J::Arr(blocks)));
    J::Obj(o)
}

pub fn export_bodies(tcx: TyCtxt<'_>) -> J {
    let mut out = vec![];
    let mut keys: Vec<_> = tcx.mir_keys(()).iter().copied().collect();
    keys.sort_by_key(|k| dp(tcx, k.to_def_id()));
    for ldid in keys {
        let did = ldid.to_def_id();
        let kind = tcx.def_kind(did);
        if !matches!(kind, DefKind::Fn | DefKind::AssocFn | DefKind::Closure) {
            continue;
        }
        if !tcx.is_mir_available(did) {
            continue;
        }
        let body = tcx.optimized_mir(did);
        let env = TypingEnv::post_analysis(tcx, did);
        out.push(export_body(tcx, did, body, env));
    }
    J::Arr(out)
}
