"""Planted fixture self-check: the rule code of a property is run, unchanged, on
fixtures/planted; every planted violation must be reported and nothing else (the twins stay
silent). Expectations live in fixtures/planted/expect.json."""
import importlib
import json
import os

import core
import extract
import facts as F

ALLOWED_PREFIX = ("ANCHOR-MISSING:", "FLOOR:")


def bless(pid):
    """(maintenance) record the current non-anchor reports as the expectation — review by hand"""
    exp_path = os.path.join(core.VERIF, "fixtures", "planted", "expect.json")
    with open(exp_path) as fh:
        allexp = json.load(fh)
    mod = importlib.import_module("rules_" + pid)
    fx = F.Facts(extract.planted_facts())
    run = core.Run(pid, "planted")
    run.known = []
    run.ledger = lambda rule: _EmptyLedger()
    mod.check(run, fx, "quick", floors=False)
    got = sorted({(v["rule"], v["key"]) for v in run.violations if not v["key"].startswith(ALLOWED_PREFIX)})
    allexp[pid] = {"must_fire": [list(g) for g in got]}
    with open(exp_path, "w") as fh:
        json.dump(allexp, fh, indent=1, sort_keys=True)
    return got


def selfcheck(pid, verbose=True):
    exp_path = os.path.join(core.VERIF, "fixtures", "planted", "expect.json")
    with open(exp_path) as fh:
        expect = json.load(fh).get(pid)
    if expect is None:
        return False, {"problems": ["no planted expectations for %s" % pid]}
    mod = importlib.import_module("rules_" + pid)
    fx = F.Facts(extract.planted_facts())
    run = core.Run(pid, "planted")
    run.known = []            # known findings never apply to the fixture
    run.ledger = lambda rule: _EmptyLedger()
    run.set_config("planted")
    mod.check(run, fx, "quick", floors=False)
    got = {(v["rule"], v["key"]) for v in run.violations}
    must = {tuple(x) for x in expect["must_fire"]}
    problems = []
    if not must:
        problems.append("no planted violation is registered for %s: the self-check would be vacuous" % pid)
    for m in sorted(must - got):
        problems.append("rule did not fire on planted violation %s %s" % m)
    for g in sorted(got - must):
        if g[1].startswith(ALLOWED_PREFIX):
            continue
        problems.append("unexpected report on the fixture (twin not silent?) %s %s" % g)
    rep = {"planted_violations_expected": len(must), "reported": len(got & must),
           "rules_exercised": sorted({m[0] for m in must}), "problems": problems}
    if verbose:
        for v in run.violations:
            tag = "expected" if (v["rule"], v["key"]) in must else ("anchor" if v["key"].startswith(ALLOWED_PREFIX) else "UNEXPECTED")
            print("  [%s] %s %s :: %s" % (tag, v["rule"], v["key"], v["message"][:140]))
    return (not problems), rep


class _EmptyLedger:
    def allows(self, key):
        return None

    def stale(self):
        return []
