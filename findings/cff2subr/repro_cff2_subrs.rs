//! Reproduction: subsetting a CFF2 font whose glyphs call LOCAL subroutines, into a CID-keyed CFF
//! font, with a glyph list that is not a prefix of the glyph order.
//!
//! `CFF2::subset_to_cff` recorded the local subroutines used by each glyph keyed by the glyph's id
//! in the SOURCE font, but then resolved those keys through the FDSelect of the SUBSET font
//! (`rebuild_local_subr_indices`), which is indexed by NEW glyph ids. Depending on the glyph list
//! that is either an out of range lookup (`ParseError::BadIndex`) or a lookup that lands on the
//! wrong Font DICT, so the subroutine is copied into the wrong Local Subr INDEX.
//!
//! The CFF2 fixtures that are not variable do not use subroutines, so the test font is derived
//! from `SourceSans3-Instance.256.otf`: the charstrings of a few glyphs are moved into the Local
//! Subr INDEX of their Font DICT and replaced with a `callsubr`. The table is serialised with the
//! crate's CFF2 writer and supplied to the subsetter via a `FontTableProvider`.
//!
//! The tests check which subroutines end up in which Local Subr INDEX of the CFF font. They do not
//! compare outlines: the CharStrings that `convert_cff2_to_cff` produces for glyphs that call
//! subroutines can not be interpreted (`InvalidSubroutineIndex`) whatever the glyph list is, which
//! is a separate problem.

mod common;

use std::borrow::Cow;
use std::convert::TryFrom;

use allsorts::binary::read::{ReadArrayCow, ReadScope};
use allsorts::binary::write::{WriteBinary, WriteBinaryDep, WriteBuffer};
use allsorts::cff::cff2::{self, OutputFormat, CFF2};
use allsorts::cff::{CFFVariant, DictDelta, FDSelect, IndexU32, MaybeOwnedIndex, CFF};
use allsorts::error::ParseError;
use allsorts::subset::SubsetError;
use allsorts::tables::{FontTableProvider, OpenTypeFont};
use allsorts::tag;

const FIXTURE: &str = "tests/fonts/opentype/cff2/SourceSans3-Instance.256.otf";

/// A glyph whose charstring is to be moved into a local subroutine of Font DICT `fd`.
struct UsesSubr {
    glyph_id: u16,
    fd: u8,
}

/// Serialise `objects` as a CFF2 INDEX (32-bit count).
fn index_bytes(objects: &[Vec<u8>]) -> Vec<u8> {
    let mut out = u32::try_from(objects.len()).unwrap().to_be_bytes().to_vec();
    if objects.is_empty() {
        return out;
    }
    out.push(4); // offSize
    let mut offset = 1u32;
    out.extend_from_slice(&offset.to_be_bytes());
    for object in objects {
        offset += u32::try_from(object.len()).unwrap();
        out.extend_from_slice(&offset.to_be_bytes());
    }
    objects
        .iter()
        .for_each(|object| out.extend_from_slice(object));
    out
}

/// CharString that consists of a call to local subroutine `index` (for an INDEX with < 1240 subrs).
fn call_local_subr(index: usize) -> Vec<u8> {
    let operand = i32::try_from(index).unwrap() - 107; // subroutine bias
    assert!((-107..=107).contains(&operand));
    vec![u8::try_from(operand + 139).unwrap(), 10] // <operand> callsubr
}

/// Build a CFF2 table from the fixture with `num_fds` Font DICTs.
///
/// `fd_of(glyph_id)` assigns glyphs to Font DICTs. For each entry of `uses_subrs` the CharString of
/// the glyph becomes a subroutine in the Local Subr INDEX of `fd` and the glyph calls it.
fn build_cff2_table(
    provider: &impl FontTableProvider,
    num_fds: u8,
    fd_of: impl Fn(u16) -> u8,
    uses_subrs: &[UsesSubr],
) -> Vec<u8> {
    let cff2_data = provider.read_table_data(tag::CFF2).unwrap();
    let mut cff2 = ReadScope::new(&cff2_data).read::<CFF2<'_>>().unwrap();
    assert_eq!(cff2.fonts.len(), 1);
    assert!(cff2.fonts[0].local_subr_index.is_none());
    assert!(cff2.vstore.is_none());
    let num_glyphs = u16::try_from(cff2.char_strings_index.len()).unwrap();

    // Move CharStrings into subroutines
    let mut char_strings = cff2
        .char_strings_index
        .iter()
        .map(|char_string| char_string.to_vec())
        .collect::<Vec<_>>();
    let mut local_subrs = vec![Vec::new(); usize::from(num_fds)];
    for UsesSubr { glyph_id, fd } in uses_subrs {
        assert_eq!(fd_of(*glyph_id), *fd);
        let subrs: &mut Vec<Vec<u8>> = &mut local_subrs[usize::from(*fd)];
        let char_string = &mut char_strings[usize::from(*glyph_id)];
        let body = std::mem::replace(char_string, call_local_subr(subrs.len()));
        subrs.push(body);
    }
    let char_strings_data = index_bytes(&char_strings);
    let local_subrs_data = local_subrs
        .iter()
        .map(|subrs| index_bytes(subrs))
        .collect::<Vec<_>>();

    // Private DICT with a Subrs operator, the offset is filled in when the table is written
    let mut private_dict_data = WriteBuffer::new();
    cff2::PrivateDict::write_dep(
        &mut private_dict_data,
        &cff2.fonts[0].private_dict,
        DictDelta::new(),
    )
    .unwrap();
    let mut private_dict_data = private_dict_data.into_inner();
    private_dict_data.extend_from_slice(&[29, 0, 0, 0, 0, 19]); // 0 Subrs
    let private_dict_with_subrs = ReadScope::new(&private_dict_data)
        .read_dep::<cff2::PrivateDict>(cff2::MAX_OPERANDS)
        .unwrap();

    let template = cff2.fonts[0].clone();
    cff2.fonts = local_subrs_data
        .iter()
        .map(|data| {
            let index = ReadScope::new(data).read::<IndexU32>().unwrap();
            let mut font = template.clone();
            if index.count > 0 {
                font.private_dict = private_dict_with_subrs.clone();
                font.local_subr_index = Some(MaybeOwnedIndex::Borrowed(index));
            }
            font
        })
        .collect();
    cff2.char_strings_index = MaybeOwnedIndex::Borrowed(
        ReadScope::new(&char_strings_data)
            .read::<IndexU32>()
            .unwrap(),
    );
    cff2.fd_select = (num_fds > 1).then(|| FDSelect::Format0 {
        glyph_font_dict_indices: ReadArrayCow::Owned((0..num_glyphs).map(&fd_of).collect()),
    });

    let mut out = WriteBuffer::new();
    CFF2::write(&mut out, cff2).unwrap();
    out.into_inner()
}

/// Table provider that replaces the CFF2 table of `inner`.
struct ReplaceCff2<'a, P> {
    inner: &'a P,
    cff2: Vec<u8>,
}

impl<P: FontTableProvider> FontTableProvider for ReplaceCff2<'_, P> {
    fn table_data(&self, tag: u32) -> Result<Option<Cow<'_, [u8]>>, ParseError> {
        if tag == tag::CFF2 {
            Ok(Some(Cow::Borrowed(self.cff2.as_slice())))
        } else {
            self.inner.table_data(tag)
        }
    }

    fn has_table(&self, tag: u32) -> bool {
        self.inner.has_table(tag)
    }

    fn table_tags(&self) -> Option<Vec<u32>> {
        self.inner.table_tags()
    }
}

/// The CharString of `glyph_id` in the unmodified fixture
fn source_char_string(provider: &impl FontTableProvider, glyph_id: u16) -> Vec<u8> {
    let cff2_data = provider.read_table_data(tag::CFF2).unwrap();
    let cff2 = ReadScope::new(&cff2_data).read::<CFF2<'_>>().unwrap();
    let char_string = cff2.char_strings_index.read_object(usize::from(glyph_id));
    char_string
        .filter(|data| !data.is_empty())
        .unwrap()
        .to_vec()
}

/// Local subr `index` of Font DICT `fd` in the CID-keyed `cff`
fn local_subr<'a>(cff: &'a CFF<'_>, fd: usize, index: usize) -> &'a [u8] {
    let CFFVariant::CID(cid) = &cff.fonts[0].data else {
        panic!("expected CID-keyed CFF")
    };
    let local_subr_index = cid.local_subr_indices[fd].as_ref().unwrap();
    local_subr_index.read_object(index).unwrap()
}

/// For each Font DICT of the CID-keyed `cff`, which entries of the Local Subr INDEX are populated.
fn populated_local_subrs(cff: &CFF<'_>) -> Vec<Option<Vec<usize>>> {
    let CFFVariant::CID(cid) = &cff.fonts[0].data else {
        panic!("expected CID-keyed CFF")
    };
    cid.local_subr_indices
        .iter()
        .map(|index| {
            index.as_ref().map(|index| {
                (0..index.len())
                    .filter(|&i| index.read_object(i).map_or(false, |subr| !subr.is_empty()))
                    .collect()
            })
        })
        .collect()
}

/// One Font DICT, glyphs 5 and 9 call local subrs 0 and 1, subset is `[0, 5, 9]`.
///
/// This is the conversion `allsorts::subset::prince::subset` does for CFF2 fonts
/// (`OutputFormat::CidOnly`). Source glyph ids 5 and 9 are not valid glyph ids in the three glyph
/// subset font.
#[test]
fn subset_cff2_with_local_subrs_non_prefix_glyph_list() {
    let buffer = common::read_fixture(FIXTURE);
    let otf = ReadScope::new(&buffer).read::<OpenTypeFont<'_>>().unwrap();
    let original = otf.table_provider(0).unwrap();
    let uses_subrs = [
        UsesSubr { glyph_id: 5, fd: 0 },
        UsesSubr { glyph_id: 9, fd: 0 },
    ];
    let provider = ReplaceCff2 {
        inner: &original,
        cff2: build_cff2_table(&original, 1, |_| 0, &uses_subrs),
    };

    let cff2_data = provider.read_table_data(tag::CFF2).unwrap();
    let cff2 = ReadScope::new(&cff2_data).read::<CFF2<'_>>().unwrap();
    assert_eq!(cff2.fonts[0].local_subr_index.as_ref().unwrap().len(), 2);

    // Sanity check: a prefix of the glyph order works, as does a list without subr using glyphs
    for glyph_ids in [&[0, 1, 2, 3, 4, 5][..], &[0, 7, 8]] {
        cff2.subset_to_cff(glyph_ids, &provider, true, OutputFormat::CidOnly)
            .unwrap();
    }

    let subset = cff2.subset_to_cff(&[0, 5, 9], &provider, true, OutputFormat::CidOnly);
    let cff: CFF<'_> = match subset {
        Ok(subset) => subset.into(),
        Err(err) => panic!("unable to subset CFF2 glyphs [0, 5, 9] to CFF: {:?}", err),
    };
    assert_eq!(populated_local_subrs(&cff), vec![Some(vec![0, 1])]);
    assert_eq!(local_subr(&cff, 0, 0), source_char_string(&original, 5));
    assert_eq!(local_subr(&cff, 0, 1), source_char_string(&original, 9));
}

/// Two Font DICTs that each have a Local Subr INDEX with two subroutines:
///
/// * glyph 4 (Font DICT 0) calls subr 0 of Font DICT 0, glyph 5 (Font DICT 0) calls subr 1
/// * glyph 2 (Font DICT 1) calls subr 0 of Font DICT 1, glyph 3 (Font DICT 1) calls subr 1
///
/// The subset is `[0, 3, 2, 1, 4]`. Every source glyph id is a valid glyph id in the subset font as
/// well, so no error is reported, but source glyph 3 is looked up as new glyph 3 (Font DICT 0)
/// instead of new glyph 1 (Font DICT 1): subr 1 of Font DICT 0, which no glyph of the subset
/// calls, is retained instead of subr 1 of Font DICT 1.
#[test]
fn subset_cff2_with_local_subrs_in_two_font_dicts() {
    let buffer = common::read_fixture(FIXTURE);
    let otf = ReadScope::new(&buffer).read::<OpenTypeFont<'_>>().unwrap();
    let original = otf.table_provider(0).unwrap();
    let fd_of = |glyph_id: u16| u8::from(glyph_id == 2 || glyph_id == 3);
    let uses_subrs = [
        UsesSubr { glyph_id: 4, fd: 0 },
        UsesSubr { glyph_id: 5, fd: 0 },
        UsesSubr { glyph_id: 2, fd: 1 },
        UsesSubr { glyph_id: 3, fd: 1 },
    ];
    let provider = ReplaceCff2 {
        inner: &original,
        cff2: build_cff2_table(&original, 2, fd_of, &uses_subrs),
    };

    // Through the top level entry point: more than one Font DICT always results in CID-keyed CFF
    let subset_buffer = match allsorts::subset::subset(&provider, &[0, 3, 2, 1, 4]) {
        Ok(buffer) => buffer,
        Err(err @ SubsetError::Parse(_)) => panic!("unable to subset: {:?}", err),
        Err(err) => panic!("unable to subset: {}", err),
    };
    let subset_otf = ReadScope::new(&subset_buffer)
        .read::<OpenTypeFont<'_>>()
        .unwrap();
    let subset_provider = subset_otf.table_provider(0).unwrap();
    let cff_data = subset_provider.read_table_data(tag::CFF).unwrap();
    let cff = ReadScope::new(&cff_data)
        .read::<CFF<'_>>()
        .expect("unable to read CFF table of subset font");

    // The subrs that are retained are the ones that are called: new glyphs 1 and 2 (old glyphs 3
    // and 2) are in Font DICT 1 and call subrs 1 and 0, new glyph 4 (old glyph 4) is in Font DICT 0
    // and calls subr 0.
    let CFFVariant::CID(cid) = &cff.fonts[0].data else {
        panic!("expected CID-keyed CFF")
    };
    let subset_fds = (0..5)
        .map(|glyph_id| cid.fd_select.font_dict_index(glyph_id).unwrap())
        .collect::<Vec<_>>();
    assert_eq!(subset_fds, [0, 1, 1, 0, 0]);
    assert_eq!(
        populated_local_subrs(&cff),
        vec![Some(vec![0]), Some(vec![0, 1])]
    );

    assert_eq!(local_subr(&cff, 0, 0), source_char_string(&original, 4));
    assert_eq!(local_subr(&cff, 1, 0), source_char_string(&original, 2));
    assert_eq!(local_subr(&cff, 1, 1), source_char_string(&original, 3));
}
