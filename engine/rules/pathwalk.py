"""Forward symbolic walk over a region of one body, forking at switches, and an evaluator of the resulting terms over the
naturals. Used by relations of the form "between this call and the next visit of the loop header (or the return) the counters
change by exactly this much, as a function of what the call returned" (T04-RUN).

The walk starts after a distinguished call whose result is the term ('callres',). The store maps place strings to terms; a place
not written since the start reads as ('init', place). Every switch forks; the condition (discriminant term, value) or
(discriminant term, ('not', values)) is recorded on the path. A path ends at a stop block, at a return, or is dropped when it
leaves the region or revisits a block (an inner loop: the relation is then undecided, never violated).

The terms are piecewise linear in the call's payload: +, -, casts, and the std helpers saturating_sub / max / min / checked_*.
Two such functions agree on the naturals iff they agree on 0..K+2 where K is the largest constant in either; `decide` compares
them there. A term with anything else in it is not evaluated and the relation is undecided for that path."""
import re

import sym
from facts import place_str


class Undecided(Exception):
    pass


class Infeasible(Exception):
    pass


class Walk(sym.StraightLine):
    CALLS = "\0calls"

    def __init__(self, body, call_bb, stops, region=None, max_paths=64, start=None):
        """walk from the return of the call at `call_bb` (its result is ('callres',)), or - with `start` - from that block itself"""
        self.b = body
        self.env = {}
        self.calls = []
        self.writes = []
        self.call_hook = None
        self.ret = None
        self.paths = []         # (conds, env, end block, 'stop' | 'return')
        self.dropped = []       # reasons
        self.borrowed = set()   # place strings whose address was taken inside the region
        self.stops, self.region, self.max_paths = set(stops), region, max_paths
        if start is not None:
            self._go(start, {}, [], frozenset(), first=True)
            return
        t = body.term(call_bb)
        self.env[place_str(body, t["dest"])] = ("callres",)
        if t.get("target") is None:
            return
        self._go(t["target"], dict(self.env), [], frozenset([call_bb]))

    def _go(self, bb, env, conds, seen, first=False):
        b = self.b
        while True:
            if len(self.paths) + len(self.dropped) > self.max_paths:
                self.dropped.append("more than %d paths" % self.max_paths)
                return
            if bb in self.stops and not first:
                self.paths.append((conds, env, bb, "stop"))
                return
            first = False
            if bb in seen:
                self.dropped.append("inner loop at bb%d" % bb)
                return
            if self.region is not None and bb not in self.region and b.term(bb)["k"] != "return":
                # left the loop without coming back to its header: not a path of this relation, unless it returns
                if not self._leads_to_return_only(bb):
                    return
            seen = seen | {bb}
            self.env = env
            for s in b.stmts(bb):
                if s["k"] == "assign":
                    rv = s["rv"]
                    if (rv["k"] == "ref" and rv.get("mut")) or rv["k"] == "rawptr":
                        self.borrowed.add(place_str(b, rv["p"]))
                    self.write(s["p"], self.rvalue(rv))
            t = b.term(bb)
            k = t["k"]
            if k == "return":
                self.paths.append((conds, env, bb, "return"))
                return
            if k in ("goto", "assert", "drop"):
                bb = t["target"]
            elif k == "call":
                c = t["callee"]
                name = c.get("rpath") or c.get("path") or "<indirect>"
                args = tuple(self.op(a) for a in t["args"])
                self.write(t["dest"], ("call", name, args, bb, c.get("path")))
                env[self.CALLS] = env.get(self.CALLS, ()) + ((bb, name, args, c.get("path")),)
                if t.get("target") is None:
                    return
                bb = t["target"]
            elif k == "switch":
                d = self.op(t["discr"])
                vals = [v for v, _ in t["arms"]]
                for v, tgt in t["arms"]:
                    self._go(tgt, dict(env), conds + [(d, v)], seen)
                oth = t.get("otherwise")
                if oth is not None and b.term(oth)["k"] != "unreachable":
                    self._go(oth, dict(env), conds + [(d, ("not", tuple(vals)))], seen)
                return
            else:
                return

    def _leads_to_return_only(self, bb):
        return True


def _const_max(t, acc):
    for x in sym.walk(t):
        if x[0] == "c" and isinstance(x[1], int) and not isinstance(x[1], bool):
            acc.append(abs(x[1]))


SUCC_WRAPPERS = ("Try::branch", "::ok_or", "::ok_or_else", "From::from", "Into::into", "Clone::clone", "::ok")


class Eval:
    """evaluate a term for one assignment: {'payload': int | tuple, place string: int}"""

    def __init__(self, assign):
        self.a = assign

    def ev(self, t):
        k = t[0]
        if k == "callres":
            return ("R",)
        if k == "c":
            if isinstance(t[1], bool):
                return int(t[1])
            if isinstance(t[1], int):
                return t[1]
            raise Undecided("constant %r" % (t[3],))
        if k == "init":
            if t[1] in self.a:
                return self.a[t[1]]
            raise Undecided("value of %s" % t[1])
        if k == "bin":
            op = t[1][:-len("WithOverflow")] if t[1].endswith("WithOverflow") else t[1]
            x, y = self.ev(t[2]), self.ev(t[3])
            if not isinstance(x, int) or not isinstance(y, int):
                raise Undecided("operands of %s" % op)
            if op == "Add":
                return x + y
            if op == "Sub":
                return x - y
            if op == "Mul":
                return x * y
            if op in ("Lt", "Le", "Gt", "Ge", "Eq", "Ne"):
                return int({"Lt": x < y, "Le": x <= y, "Gt": x > y, "Ge": x >= y, "Eq": x == y, "Ne": x != y}[op])
            raise Undecided("operator %s" % op)
        if k == "un":
            x = self.ev(t[2])
            if t[1] == "Neg" and isinstance(x, int):
                return -x
            if t[1] == "Not" and x in (0, 1):
                return 1 - x
            raise Undecided("operator %s" % t[1])
        if k == "cast":
            x = self.ev(t[4])
            if isinstance(x, int) and t[1] == "IntToInt":
                return x
            raise Undecided("cast %s" % t[1])
        if k == "discr":
            x = self.ev(t[1])
            if x == ("R",) or x == ("CF",):
                return 0
            if isinstance(x, tuple) and x and x[0] == "O":
                return 1 if self.a.get("payload") is not None else 0
            if isinstance(x, tuple) and x and x[0] == "succ":
                return 0 if x[2] == "cf" else 1
            raise Undecided("discriminant")
        if k == "variant":
            x = self.ev(t[1])
            name = t[2]
            if x == ("R",) and name == "Ok":
                return ("Rk",)
            if x == ("CF",) and name == "Continue":
                return ("Rk",)
            if x == ("O",) and name == "Some":
                if self.a.get("payload") is None:
                    raise Infeasible()
                return ("Os",)
            if isinstance(x, tuple) and x and x[0] == "succ" and name in ("Some", "Ok", "Continue"):
                return ("succv", x[1])
            raise Undecided("variant %s" % name)
        if k == "field":
            x = self.ev(t[1])
            f = t[2]
            if x == ("Rk",):
                return ("O",)
            if x == ("Os",):
                return self.a["payload"]
            if isinstance(x, tuple) and x and x[0] == "succv":
                return x[1]
            if isinstance(x, tuple) and x and all(isinstance(y, int) for y in x) and str(f).isdigit() and int(f) < len(x):
                return x[int(f)]
            raise Undecided("field %s" % (f,))
        if k == "agg":
            if t[1] == "tuple":
                return tuple(self.ev(x) for x in t[3])
            raise Undecided("aggregate %s" % (t[1],))
        if k == "call":
            p = t[4] or t[1] or ""
            args = t[2]
            if p.endswith("Try::branch") and len(args) == 1:
                x = self.ev(args[0])
                if x == ("R",):
                    return ("CF",)
                if isinstance(x, tuple) and x and x[0] == "succ":
                    return ("succ", x[1], "cf")
                raise Undecided("Try::branch")
            if p.endswith(("::ok_or", "::ok_or_else")) and len(args) == 2:
                x = self.ev(args[0])
                if isinstance(x, tuple) and x and x[0] == "succ":
                    return ("succ", x[1], "res")
                raise Undecided("ok_or")
            if p.endswith(("From::from", "Into::into", "Clone::clone")) and len(args) == 1:
                return self.ev(args[0])
            m = re.search(r"core::num::<impl \w+>::(\w+)$", p)
            if m and len(args) == 2:
                x, y = self.ev(args[0]), self.ev(args[1])
                if not isinstance(x, int) or not isinstance(y, int):
                    raise Undecided(m.group(1))
                f = m.group(1)
                if f == "saturating_sub":
                    return max(x - y, 0)
                if f == "saturating_add":
                    return x + y
                if f == "checked_sub":
                    if x - y < 0:
                        raise Infeasible()
                    return ("succ", x - y, "opt")
                if f == "checked_add":
                    return ("succ", x + y, "opt")
                if f in ("wrapping_add",):
                    return x + y
                raise Undecided(f)
            if re.search(r"cmp::(Ord::)?(max|min)$", p) and len(args) == 2:
                x, y = self.ev(args[0]), self.ev(args[1])
                if isinstance(x, int) and isinstance(y, int):
                    return max(x, y) if p.endswith("max") else min(x, y)
            raise Undecided("call of %s" % (p.split("::<")[0],))
        raise Undecided("term %s" % k)

    def holds(self, cond):
        """True / False for a recorded switch condition"""
        d, v = cond
        x = self.ev(d)
        if isinstance(x, tuple):
            raise Undecided("switch operand")
        if isinstance(v, tuple) and v and v[0] == "not":
            return x not in v[1]
        return x == v


def samples(terms, extra=2):
    acc = [0]
    for t in terms:
        _const_max(t, acc)
    k = min(max(a for a in acc if a < 64) if any(a < 64 for a in acc) else 0, 16)
    return list(range(0, k + extra + 1))
