"""Effect analysis on a buffer parameter: which operations can mutate the object a `&mut`
parameter refers to. Forward may-alias propagation inside one body (locals derived from the
parameter through reborrows, DerefMut, IndexMut, split_mut/iter_mut/next ...), then every use of a
derived *mutable capability* is an effect:

  ('permute', name)        slice::sort*/rotate*/swap/reverse           (stable sorts only)
  ('unstable', name)       sort_unstable*                               (violates stability)
  ('insert'|'remove', _)   Vec::insert / Vec::remove
  ('store', _)             assignment through a derived element reference / indexed place
  ('local', callee_dp)     the capability is handed to a function of this crate (analysed recursively)
  ('capture', _)           the capability is captured by a closure
  ('other', name)          anything else that receives the capability
"""
from facts import callee_is, op_place

DERIVE = (
    "std::ops::DerefMut::deref_mut", "std::ops::IndexMut::index_mut", "core::slice::<impl [T]>::split_mut",
    "std::iter::IntoIterator::into_iter", "std::iter::Iterator::next", "core::slice::<impl [T]>::iter_mut",
    "std::vec::Vec::<T, A>::as_mut_slice", "core::slice::<impl [T]>::split_at_mut", "core::slice::<impl [T]>::get_mut",
    "core::slice::<impl [T]>::first_mut", "core::slice::<impl [T]>::last_mut", "core::slice::<impl [T]>::chunks_mut",
    "std::convert::AsMut::as_mut", "std::borrow::BorrowMut::borrow_mut", "std::option::Option::<T>::unwrap",
    "core::slice::<impl [T]>::splitn_mut", "core::slice::<impl [T]>::rsplit_mut", "std::iter::Iterator::by_ref",
)
PERMUTE = ("::sort_by_key", "::sort_by", "::sort", "::sort_by_cached_key", "::rotate_left", "::rotate_right", "::swap", "::reverse")
UNSTABLE = ("::sort_unstable", "::sort_unstable_by", "::sort_unstable_by_key", "::select_nth_unstable", "::select_nth_unstable_by", "::select_nth_unstable_by_key")
SLICE_HOME = ("core::slice::<impl [T]>", "std::slice::<impl [T]>", "alloc::slice::<impl [T]>")


def is_mut_cap(ty):
    return ty.startswith("&mut ") or "Mut<" in ty or ty.startswith("std::option::Option<&mut ")


class Effect:
    __slots__ = ("kind", "name", "bb", "item", "value", "recv", "root")

    def __init__(self, kind, name, bb, item, value=None, recv=None, root=None):
        self.kind, self.name, self.bb, self.item, self.value, self.recv, self.root = kind, name, bb, item, value, recv, root

    def __repr__(self):
        return "Effect(%s,%s,bb%s,root=%s)" % (self.kind, self.name, self.bb, self.root)


class BufferEffects:
    """`params`: local indices of the buffer parameter(s). `root_of[l]` remembers whether local l was
    derived through a split_mut ('split:<closure dp>') or straight from the parameter ('param')."""

    def __init__(self, fx, body, params):
        self.fx = fx
        self.b = body
        self.root_of = {p: "param" for p in params}
        self.effects = []
        self._propagate()
        self._collect()

    def derived(self, l):
        return l in self.root_of

    def _place_derived(self, p):
        return p is not None and p["l"] in self.root_of

    def _propagate(self):
        b = self.b
        changed = True
        while changed:
            changed = False
            for bi, blk in enumerate(b.blocks):
                if not b.reachable(bi):
                    continue
                for s in blk["s"]:
                    if s["k"] != "assign" or s["p"]["p"]:
                        continue
                    dst = s["p"]["l"]
                    rv = s["rv"]
                    src = None
                    if rv["k"] in ("ref", "rawptr"):
                        src = rv["p"]
                    elif rv["k"] in ("use", "cast"):
                        src = op_place(rv["op"])
                    if src is not None and src["l"] in self.root_of and dst not in self.root_of:
                        self.root_of[dst] = self.root_of[src["l"]]
                        changed = True
                t = blk["t"]
                if t["k"] == "call" and not t["dest"]["p"]:
                    dst = t["dest"]["l"]
                    if dst in self.root_of:
                        continue
                    roots = [self.root_of[a["p"]["l"]] for a in t["args"] if a["k"] in ("copy", "move") and a["p"]["l"] in self.root_of]
                    if roots and callee_is(t, *DERIVE):
                        r = roots[0]
                        if callee_is(t, "core::slice::<impl [T]>::split_mut") and len(t["args"]) >= 2:
                            r = "split:" + self._closure_of(t["args"][1])
                        self.root_of[dst] = r
                        changed = True

    def _closure_of(self, op):
        """def-path of the closure passed in operand `op` (a local assigned from a closure aggregate)"""
        b = self.b
        if op["k"] in ("copy", "move") and not op["p"]["p"]:
            l = op["p"]["l"]
            for _ in range(4):
                d = b.single_def(l)
                if d is None or d[2] != "assign":
                    break
                rv = d[3]["rv"]
                if rv["k"] == "agg" and rv.get("agg") == "closure":
                    return rv.get("closure_dp") or rv.get("adt") or rv.get("s") or "?"
                if rv["k"] in ("use", "cast") and rv["op"]["k"] in ("copy", "move") and not rv["op"]["p"]["p"]:
                    l = rv["op"]["p"]["l"]
                    continue
                break
        if op["k"] == "const" and "fn_dp" in op:
            return op["fn_dp"]
        return "?"

    def _collect(self):
        b = self.b
        for bi, blk in enumerate(b.blocks):
            if not b.reachable(bi):
                continue
            for s in blk["s"]:
                if s["k"] != "assign":
                    continue
                p = s["p"]
                # store through a derived reference or into an indexed/deref'd derived place
                if p["p"] and p["l"] in self.root_of and p["p"][0] == "*":
                    self.effects.append(Effect("store", "=", bi, s, value=s["rv"], root=self.root_of[p["l"]]))
                rv = s["rv"]
                if rv["k"] == "agg" and rv.get("agg") == "closure":
                    for f in rv["fields"]:
                        if f["k"] in ("copy", "move") and f["p"]["l"] in self.root_of and is_mut_cap(b.local_ty(f["p"]["l"])):
                            self.effects.append(Effect("capture", "closure", bi, s, root=self.root_of[f["p"]["l"]]))
            t = blk["t"]
            if t["k"] != "call":
                continue
            caps = [(i, a) for i, a in enumerate(t["args"]) if a["k"] in ("copy", "move") and a["p"]["l"] in self.root_of
                    and is_mut_cap(b.local_ty(a["p"]["l"]))]
            if not caps:
                continue
            if callee_is(t, *DERIVE):
                continue
            c = t["callee"]
            path = c.get("path") or ""
            rpath = c.get("rpath") or path
            root = self.root_of[caps[0][1]["p"]["l"]]
            short = path.split("::")[-1]
            in_slice = path.startswith(SLICE_HOME)
            if in_slice and path.endswith(UNSTABLE):
                self.effects.append(Effect("unstable", short, bi, t, recv=caps[0][1], root=root))
            elif in_slice and path.endswith(PERMUTE):
                self.effects.append(Effect("permute", short, bi, t, recv=caps[0][1], root=root))
            elif path == "std::vec::Vec::<T, A>::insert":
                self.effects.append(Effect("insert", short, bi, t, value=t["args"][2], recv=caps[0][1], root=root))
            elif path == "std::vec::Vec::<T, A>::remove":
                self.effects.append(Effect("remove", short, bi, t, recv=caps[0][1], root=root))
            else:
                dp = c.get("rdp") or c.get("dp")
                if dp and dp in self.fx.by_dp:
                    self.effects.append(Effect("local", dp, bi, t, recv=caps, root=root))
                else:
                    self.effects.append(Effect("other", rpath, bi, t, recv=caps[0][1], root=root))
