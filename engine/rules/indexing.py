"""Rule C01-g: element indexing discipline. Every `x[i]` with an integer index (MIR BoundsCheck
asserts for arrays/slices, Index/IndexMut calls with a usize index for Vec and friends) is
 * discharged locally: constant or type-bounded index into a fixed-size array; dominated by
   `i < x.len()` on the same receiver and the same (SSA) value of i; `i` produced by iterating
   `0..x.len()` / `x.iter().enumerate()` / `x.iter().position()` over the same receiver while the
   receiver is not resized in the loop; or
 * audited in ledger/index.jsonl (key = index|function|receiver type, with a count), or
 * a violation."""
import re

import guards
import origins
import sym
from facts import callee_is


def unref(t):
    t = sym.strip(t)
    while True:
        if t[0] in ("ref", "deref"):
            t = sym.strip(t[1])
            continue
        if t[0] == "call" and (t[4] or "").endswith(("Deref::deref", "DerefMut::deref_mut", "::as_slice", "::as_mut_slice", "::as_ref", "::as_mut")) and t[2]:
            t = sym.strip(t[2][0])
            continue
        return t


def len_of(t):
    t = sym.strip(t)
    if t[0] == "call" and (t[1] or "").endswith("::len") and t[2]:
        return unref(t[2][0])
    return None


def short_ty(s):
    s = re.sub(r"\b(?:std|core|alloc)::(?:\w+::)*", "", s or "")
    s = re.sub(r"\b(?:\w+::)+", "", s)
    return s[:48]


class Site:
    __slots__ = ("b", "bb", "t", "kind", "recv_ty")

    def __init__(self, b, bb, t, kind, recv_ty):
        self.b, self.bb, self.t, self.kind, self.recv_ty = b, bb, t, kind, recv_ty

    def key(self):
        return "index|%s|%s" % (self.b.root, short_ty(self.recv_ty))

    def loc(self):
        return self.b.loc(self.t)


def sites(fx, select=None):
    for b in fx.bodies:
        if b.exp and ("ouroboros_impl_" in b.path):
            continue
        if select and not select(b):
            continue
        for bi, blk in enumerate(b.blocks):
            if not b.reachable(bi):
                continue
            t = blk["t"]
            if t["k"] == "assert" and t["kind"] == "BoundsCheck":
                if any(m in ("Debug", "PartialEq", "Hash", "Clone", "PartialOrd", "Ord") for m in (t.get("macros") or [])):
                    continue
                # the indexed place's type: find the statement in the target block that indexes with this local
                rty = "[..]"
                ops = t.get("ops") or []
                if len(ops) >= 1 and ops[0]["k"] == "const":
                    rty = "[_; %s]" % ops[0].get("val")
                yield Site(b, bi, t, "array", rty)
            elif t["k"] == "call":
                p = t["callee"].get("path") or ""
                a = t["callee"].get("args") or []
                if (p.endswith("ops::Index::index") or p.endswith("ops::IndexMut::index_mut")) and len(a) >= 2 and a[1] == "usize":
                    if any(m in ("Debug", "PartialEq", "Hash", "Clone") for m in (t.get("macros") or [])):
                        continue
                    yield Site(b, bi, t, "call", a[0])


def discharge(fx, O, s):
    b, bi, t = s.b, s.bb, s.t
    prov = O.prov(b)
    recv = None
    ln = None
    if s.kind == "array":
        ops = t.get("ops") or []
        if len(ops) < 2:
            return None
        ln = sym.strip(prov.op(ops[0]))
        idx = sym.strip(prov.op(ops[1]))
        if ln[0] == "c" and isinstance(ln[1], int):
            if idx[0] == "c" and isinstance(idx[1], int) and idx[1] < ln[1]:
                return "constant index %d into an array of %d" % (idx[1], ln[1])
            cl = O.classify(b, idx)
            if cl[0] == "bounded" and (1 << cl[1]) <= ln[1]:
                return "index bounded to %d bits into an array of %d (%s)" % (cl[1], ln[1], cl[2])
            import overflow
            r = overflow.Intervals(fx, b, prov).at(guards.branch_conditions(b, prov), bi).term(idx)
            if r is not None and 0 <= r[0] and r[1] < ln[1]:
                return "index in [%d, %d] by interval reasoning into an array of %d" % (r[0], r[1], ln[1])
        # slice: the length operand is PtrMetadata/len of the indexed place
        recv = len_source(ln)
    else:
        recv = unref(prov.op(t["args"][0]))
        idx = sym.strip(prov.op(t["args"][1]))
    ni = sym.norm(idx)
    nrecv = sym.norm(recv) if recv is not None else None
    # (a) dominated by idx < len(recv)
    for tb, fb, op, x, y, sw in guards.branch_conditions(b, prov):
        for blk, o in ((tb, op), (fb, guards.CMP_NEG[op])):
            if blk is None or not b.dominates(blk, bi):
                continue
            x1, y1 = sym.strip(x), sym.strip(y)
            for a, c, ok_ops in ((x1, y1, ("Lt",)), (y1, x1, ("Gt",))):
                if sym.norm(a) != ni or o not in ok_ops:
                    continue
                l = len_of(c)
                if l is not None and nrecv is not None and sym.norm(l) == nrecv:
                    return "dominated by index < len() of the same receiver"
                if ln is not None and sym.norm(sym.strip(c)) == sym.norm(ln):
                    return "dominated by index < the checked length"
    # (d) grown on demand: `if i >= v.len() { v.resize(i + 1, ..) }` (or `let needed = i + 1; if v.len() < needed { v.resize(needed, ..) }`) in
    # front of `v[i]`. The test dominates the site; on the edge where the index is not yet in range every path to the site passes a resize
    # of the same receiver to (the same index) + k, k >= 1; nothing in the function shrinks the receiver
    if nrecv is not None:
        import reach

        def beyond_index(tm):
            tm = sym.strip(tm)
            if tm[0] == "bin" and tm[1].replace("WithOverflow", "") == "Add":
                p_, q_ = sym.strip(tm[2]), sym.strip(tm[3])
                return (sym.norm(p_) == ni and q_[0] == "c" and isinstance(q_[1], int) and q_[1] >= 1) or \
                       (sym.norm(q_) == ni and p_[0] == "c" and isinstance(p_[1], int) and p_[1] >= 1)
            return False
        resizes, shrinks = [], False
        for cj, ct in b.calls():
            cp = str(ct["callee"].get("path") or "")
            if not ct["args"] or sym.norm(unref(prov.op(ct["args"][0]))) != nrecv:
                continue
            if cp.endswith(("::truncate", "::clear", "::pop", "::remove", "::swap_remove", "::drain", "::split_off", "::retain", "::dedup")):
                shrinks = True
            if cp.endswith(("::resize", "::resize_with")) and len(ct["args"]) >= 2 and beyond_index(prov.op(ct["args"][1])):
                resizes.append(cj)
        if resizes and not shrinks:
            for tb, fb, op, x, y, sw in guards.branch_conditions(b, prov):
                x1, y1 = sym.strip(x), sym.strip(y)
                grow = None
                for a, c, o in ((x1, y1, op), (y1, x1, guards.CMP_FLIP[op])):
                    l = len_of(c)
                    if l is None or sym.norm(l) != nrecv:
                        continue
                    # a `o` len(v): the index is out of range where  i >= len  or  i + k > len (k >= 1)
                    if sym.norm(a) == ni and o in ("Ge", "Lt"):
                        grow = tb if o == "Ge" else fb
                    elif beyond_index(a) and o in ("Gt", "Le"):
                        grow = tb if o == "Gt" else fb
                if grow is None or sw is None or not b.dominates(sw, bi):
                    continue
                if reach.must_pass(b, grow, [bi], resizes):
                    return "grown on demand: where the index is not below len() the receiver is resized beyond it before the access"
    # (c) a constant index into an item of `x.windows(n)` / `x.chunks_exact(n)`: every item has exactly n elements
    if idx[0] == "c" and isinstance(idx[1], int) and recv is not None:
        r0 = recv
        while r0[0] in ("field", "variant", "ref", "deref"):
            r0 = sym.strip(r0[1])
        if r0[0] == "call" and (r0[4] or r0[1] or "").endswith(("Iterator::next", "DoubleEndedIterator::next_back")):
            adaptors = ("Iterator::next", "DoubleEndedIterator::next_back", "Iterator::enumerate", "Iterator::rev", "IntoIterator::into_iter", "Iterator::skip",
                        "Iterator::take", "Iterator::peekable", "Iterator::by_ref", "Iterator::zip")
            cur, ok_chain, n_items = r0, True, None
            for _ in range(12):
                nm = cur[4] or cur[1] or ""
                if nm.endswith(("::windows", "::chunks_exact")) and len(cur[2]) == 2:
                    k = sym.strip(cur[2][1])
                    n_items = k[1] if k[0] == "c" and isinstance(k[1], int) else None
                    break
                if not nm.endswith(adaptors) or not cur[2]:
                    ok_chain = False
                    break
                nxt = sym.strip(cur[2][0])
                while nxt[0] in ("ref", "deref"):
                    nxt = sym.strip(nxt[1])
                if nxt[0] != "call":
                    ok_chain = False
                    break
                cur = nxt
            if ok_chain and n_items is not None and 0 <= idx[1] < n_items:
                return "constant index %d into an item of windows(%d)/chunks_exact(%d)" % (idx[1], n_items, n_items)
    # (b) the index is the payload of `opt.filter(|&i| i < x.len())` with x the same receiver: only in-range values survive the filter
    if idx[0] == "field" and idx[1][0] == "variant" and idx[1][2] == "Some" and nrecv is not None:
        c = sym.strip(idx[1][1])
        if c[0] == "call" and (c[1] or "").endswith("Option::<T>::filter") and len(c[2]) == 2:
            clo = sym.strip(c[2][1])
            if clo[0] == "agg" and clo[1] == "closure":
                cb = fx.body(clo[2])
                if cb is not None and len(cb.return_blocks()) == 1:
                    ret = sym.strip(sym.Prov(cb).local(0))
                    if ret[0] == "bin" and ret[1] in ("Lt", "Gt"):
                        a, l = (ret[2], ret[3]) if ret[1] == "Lt" else (ret[3], ret[2])
                        a = unref(a)
                        l = len_of(l)
                        if a[0] == "arg" and a[1] == 2 and l is not None and l[0] == "field" and sym.strip(l[1])[0] == "arg" and sym.strip(l[1])[1] == 1 \
                                and str(l[2]).isdigit() and int(l[2]) < len(clo[3]):
                            if sym.norm(unref(clo[3][int(l[2])])) == nrecv:
                                return "payload of Option::filter(|i| i < len()) over the same receiver"
    return None


def len_source(ln):
    """the place a slice-length operand was taken from"""
    ln = sym.strip(ln)
    if ln[0] == "call" and (ln[1] or "").endswith("::len") and ln[2]:
        return unref(ln[2][0])
    if ln[0] == "un" and ln[1] == "PtrMetadata":
        return unref(ln[2])
    if ln[0] == "len":
        return unref(ln[1])
    return None


def rule_index(run, fx, rule="C01-g", floors=True, select=None, floor_n=250):
    run.rule(rule, "every element indexing site (slice/array BoundsCheck, Index/IndexMut with a usize index) is discharged by a constant or "
                   "type-bounded index into a fixed-size array or by a dominating `i < x.len()` on the same receiver and value, or is audited in "
                   "ledger/index.jsonl (key = index|function|receiver type, with a count); new sites and removed guards are violations")
    O = origins.Origins(fx)
    n = 0
    for s in sites(fx, select):
        n += 1
        why = discharge(fx, O, s)
        if why:
            run.ok(rule, "%s: %s" % (s.b.path, why))
        else:
            run.fail(rule, s.key(), "element indexing of %s in %s is neither discharged by a dominating bound check nor audited" % (short_ty(s.recv_ty), s.b.path), s.loc(), ledger="index", alt_keys=fx.alt_keys(s.b, s.key()))
    if floors:
        run.floor(rule, "element indexing sites", n, floor_n)
    return n
