"""Rule C01-f: loop progress. Every natural loop that is not driven by an iterator's next() must
have a progress witness on every path round the loop."""
import linecache

import guards
import sym
from facts import callee_is, op_local, place_fields

READ_PROGRESS = ("ReadCtxt::<'a>::read_u8", "ReadCtxt::<'a>::read_i8", "ReadCtxt::<'a>::read_u16be", "ReadCtxt::<'a>::read_i16be",
                 "ReadCtxt::<'a>::read_u32be", "ReadCtxt::<'a>::read_i32be", "ReadCtxt::<'a>::read_u64be", "ReadCtxt::<'a>::read_i64be")


MIGRATE = []


def natural_loops(b):
    """list of (header, body set, back edge sources)"""
    loops = {}
    for u in range(len(b.blocks)):
        if not b.reachable(u) or b.blocks[u].get("cleanup"):
            continue
        for h in b.succs(u):
            if b.dominates(h, u):
                loops.setdefault(h, []).append(u)
    out = []
    for h, srcs in loops.items():
        body = {h}
        st = list(srcs)
        while st:
            n = st.pop()
            if n in body:
                continue
            body.add(n)
            st.extend(p for p in b.preds(n) if b.reachable(p))
        out.append((h, body, srcs))
    return out


def cuts_all_cycles(b, header, body, cut):
    """removing `cut` blocks from the loop leaves no path header -> header inside the loop"""
    if header in cut:
        return True
    seen = set()
    st = [s for s in b.succs(header) if s in body and s not in cut]
    while st:
        n = st.pop()
        if n == header:
            return False
        if n in seen:
            continue
        seen.add(n)
        st.extend(s for s in b.succs(n) if s in body and s not in cut)
    return True


def iterator_driven(b, header, body):
    """a call to Iterator::next (or next_back / DoubleEnded) in the loop whose block cuts all cycles"""
    cut = set()
    for n in body:
        t = b.term(n)
        if t["k"] == "call" and callee_is(t, "Iterator::next", "DoubleEndedIterator::next_back", "::next", "::next_back", "Peekable<I>::next_if", "::next_if"):
            cut.add(n)
    return bool(cut) and cuts_all_cycles(b, header, body, cut)


def progress_witness(fx, b, header, body):
    prov = sym.Prov(b)
    # (ii) cursor progress: a read of statically positive size on every path
    cut = set()
    for n in body:
        t = b.term(n)
        if t["k"] != "call":
            continue
        if callee_is(t, *READ_PROGRESS):
            cut.add(n)
        elif callee_is(t, "ReadCtxt::<'a>::read_array", "ReadCtxt::<'a>::read_slice", "ReadCtxt::<'a>::read_scope") and len(t["args"]) >= 2 and nonzero_guarded(b, prov, header, t["args"][1]):
            cut.add(n)
        elif t["callee"].get("rdp") and t["callee"].get("krate") == fx.raw["crate"] and consumes_positive(fx, t["callee"]["rdp"]):
            cut.add(n)
        elif callee_is(t, "ReadCtxt::<'a>::read") or callee_is(t, "ReadCtxt::<'a>::read_dep") or callee_is(t, "ReadBinary::read", "ReadBinaryDep::read_dep"):
            # typed read: positive size when the type is a fixed-size ReadUnchecked type
            a = (t["callee"].get("args") or [])
            tyarg = [x for x in a if not x.startswith("'")]
            if tyarg and fixed_positive(fx, tyarg[-1] if callee_is(t, "ReadCtxt::<'a>::read", "ReadCtxt::<'a>::read_dep") else tyarg[0]):
                cut.add(n)
    if cut and cuts_all_cycles(b, header, body, cut):
        return "cursor: a read of statically positive size on every path round the loop"
    # (i) counter: local/field updated by +-const on every path and compared in a loop exit condition
    upd = {}
    for n in body:
        for s in b.stmts(n):
            if s["k"] != "assign":
                continue
            t = sym.strip(prov.rvalue(s["rv"]))
            # x = x +- c   (through the checked-arithmetic pair)
            if t[0] == "bin" and t[1] in ("Add", "Sub") and t[3][0] == "c" and t[3][1]:
                tgt = place_key(b, s["p"])
                src = t[2]
                upd.setdefault(tgt, set()).add(n)
            if t[0] == "field" and t[1][0] == "bin":
                pass
    # MIR shape: _t = AddWithOverflow(x, c); assert; x = move _t.0
    for n in body:
        for s in b.stmts(n):
            if s["k"] == "assign" and s["rv"]["k"] == "use":
                o = s["rv"]["op"]
                if o["k"] in ("move", "copy") and o["p"]["p"] and isinstance(o["p"]["p"][0], dict) and o["p"]["p"][0].get("f") == 0:
                    d = b.defs().get(o["p"]["l"], [])
                    for (bb, idx, kind, item) in d:
                        if kind == "assign" and item["rv"]["k"] == "bin" and item["rv"]["bop"] in ("AddWithOverflow", "SubWithOverflow"):
                            a, c = item["rv"]["a"], item["rv"]["b"]
                            if (c["k"] == "const" and c.get("val")) or positive_const_local(b, c, prov):
                                if a["k"] in ("copy", "move") and place_key(b, a["p"]) == place_key(b, s["p"]):
                                    upd.setdefault(place_key(b, s["p"]), set()).add(n)
    # x = y where y is a counter that runs ahead of x (`for j in i + 1..n { .. i = j; continue 'outer }` written as a while loop)
    for n in body:
        for s in b.stmts(n):
            if s["k"] == "assign" and s["rv"]["k"] == "use" and not s["p"]["p"]:
                o = s["rv"]["op"]
                if o["k"] in ("copy", "move") and not o["p"]["p"]:
                    xk = place_key(b, s["p"])
                    src = o["p"]["l"]
                    # follow one copy (`_t = j; i = move _t`)
                    sd = b.single_def(src)
                    if sd and sd[2] == "assign" and sd[3]["rv"]["k"] == "use" and sd[3]["rv"]["op"]["k"] in ("copy", "move") and not sd[3]["rv"]["op"]["p"]["p"]:
                        src = sd[3]["rv"]["op"]["p"]["l"]
                    if src != s["p"]["l"] and xk in upd and leading_counter(b, prov, body, xk, src):
                        upd[xk].add(n)
    # exit conditions: switches in the loop with a successor outside the loop
    exit_terms = []
    for n in body:
        t = b.term(n)
        if t["k"] == "switch" and any(s not in body for s in b.succs(n)):
            term = prov.op(t["discr"])
            exit_terms.append(sym.show(term, 0))
    for tgt, blocks in upd.items():
        if cuts_all_cycles(b, header, body, blocks):
            name = tgt
            if any(name_in(name, e) for e in exit_terms):
                return "counter: %s moves by a non-zero constant on every path and is tested in an exit condition" % name
    # (iii) collection shrinks: pop/remove/drain/truncate/split_off/next on every path
    cut = set()
    for n in body:
        t = b.term(n)
        if t["k"] == "call" and callee_is(t, "::pop", "::pop_front", "::pop_back", "::remove", "::swap_remove", "::split_first", "::split_last", "VecDeque<T, A>::pop_front"):
            cut.add(n)
    if cut and cuts_all_cycles(b, header, body, cut):
        return "collection: an element is removed on every path round the loop"
    return None


def nonzero_guarded(b, prov, header, op):
    """the operand is tested against zero on a path that dominates the loop header (== 0 => leave)"""
    d = sym.strip(prov.op(op))
    for tb, fb, o, x, y, sw in guards.branch_conditions(b, prov):
        for blk, oo in ((tb, o), (fb, guards.CMP_NEG[o])):
            if blk is None or not b.dominates(blk, header):
                continue
            x1, y1 = sym.strip(x), sym.strip(y)
            if x1 == d and y1[0] == "c" and y1[1] == 0 and oo in ("Ne", "Gt"):
                return True
            if y1 == d and x1[0] == "c" and x1[1] == 0 and oo in ("Ne", "Lt"):
                return True
    return False


def positive_const_local(b, op, prov=None):
    """operand is a local all of whose definitions assign positive integer constants (directly, or through the arms of nested
    `match`/`if` expressions merged into it)"""
    l = op_local(op)
    if l is None:
        return False
    prov = prov or sym.Prov(b)
    alts = sym.alternatives(b, prov, ("local", l, b.local_name(l)), limit=12)
    if not alts:
        return False
    for _db, v in alts:
        v = sym.strip(v)
        if v[0] != "c" or not isinstance(v[1], int) or isinstance(v[1], bool) or v[1] <= 0:
            return False
    return True


def leading_counter(b, prov, body, x_key, y_local):
    """y runs ahead of x inside the loop: every definition of y in the loop body is `y = x + c` or `y = y + c` with c > 0
    (so `x = y` moves x forward)"""
    ds = [d for d in b.defs().get(y_local, []) if d[0] in body]
    if not ds:
        return False
    for (bb, idx, kind, item) in ds:
        if kind != "assign":
            return False
        t = sym.strip(prov.rvalue(item["rv"]))
        # through the checked pair: y = (AddWithOverflow(a, c)).0
        if t[0] == "field" and sym.strip(t[1])[0] == "bin":
            t = sym.strip(t[1])
        if not (t[0] == "bin" and t[1].replace("WithOverflow", "") == "Add"):
            return False
        a, c = sym.strip(t[2]), sym.strip(t[3])
        if not (c[0] == "c" and isinstance(c[1], int) and c[1] > 0):
            return False
        base = a[1] if a[0] in ("local", "arg") else None
        if base is None:
            return False
        if base != y_local and place_key(b, {"l": base, "p": []}) != x_key:
            return False
    return True


def consumes_positive(fx, callee_dp, depth=0):
    """callee summary: every path from entry to a normal return passes a read of statically positive
    size on its ReadCtxt parameter (so a caller's loop makes progress or gets an error)"""
    b = fx.by_dp.get(callee_dp)
    if b is None or depth > 2:
        return False
    cut = set()
    for bi, t in b.calls():
        if callee_is(t, *READ_PROGRESS):
            cut.add(bi)
        elif t["callee"].get("rdp") and t["callee"]["rdp"] != callee_dp and callee_is(t, "ReadBinary::read", "ReadBinaryDep::read_dep", "ReadCtxt::<'a>::read", "ReadCtxt::<'a>::read_dep"):
            a = [x for x in (t["callee"].get("args") or []) if not x.startswith("'")]
            if a and fixed_positive(fx, a[-1] if callee_is(t, "ReadCtxt::<'a>::read", "ReadCtxt::<'a>::read_dep") else a[0]):
                cut.add(bi)
    rets = b.return_blocks()
    # success returns only: blocks assigning Ok to _0 are hard to separate cheaply; require all returns cut
    seen = set()
    st = [0]
    while st:
        n = st.pop()
        if n in seen or n in cut:
            continue
        seen.add(n)
        st.extend(b.succs(n))
    # a return reachable without a read must be an error return (Err literal assigned on the way)
    for r in rets:
        if r in seen:
            # is there an Ok assignment in the uncut region?
            for n in seen:
                for s_ in b.stmts(n):
                    if s_["k"] == "assign" and s_["p"]["l"] == 0 and s_["rv"]["k"] == "agg" and s_["rv"].get("vname") in ("Ok", "Some"):
                        return False
    return bool(cut)


def name_in(name, text):
    base = name.split(".")[-1].replace("(*", "").replace(")", "")
    return base in text


def place_key(b, p):
    from facts import place_str
    return place_str(b, p)


def fixed_positive(fx, ty):
    for nd in fx.nodes:
        if nd.get("assoc") and nd.get("self_ty", {}).get("s") == ty and nd["path"].endswith("ReadUnchecked>::read_unchecked"):
            for a in nd["assoc"]:
                if a["name"] == "SIZE":
                    return (a["val"] or 0) > 0
    return False


def hand_loops(fx, select=None):
    for b in fx.bodies:
        if b.exp and ("ouroboros_impl_" in b.path):
            continue
        if select and not select(b):
            continue
        for (h, body, srcs) in natural_loops(b):
            if b.term(h).get("exp") and "ouroboros" in str(b.term(h).get("macros")):
                continue
            yield b, h, body, srcs


def rule_loops(run, fx, rule="C01-f", floors=True, select=None):
    run.rule(rule, "every natural loop is driven by an iterator's next(), or has a progress witness on every path round the loop "
                   "(a cursor read of positive size, a counter stepped by a constant and tested in an exit condition, a shrinking collection), or is audited")
    n_iter = n_hand = 0
    for b, h, body, srcs in hand_loops(fx, select):
        if iterator_driven(b, h, body):
            n_iter += 1
            run.ok(rule)
            continue
        n_hand += 1
        w = progress_witness(fx, b, h, body)
        line = min((b.term(x).get("line") or 10**9) for x in [h])
        if w:
            run.ok(rule, "%s loop@bb%d: %s" % (b.path, h, w))
        else:
            # key: function + ordinal of the loop among the function's unwitnessed loops is unstable; use header statement callee set
            # the functions of this crate that the loop calls name the loop; std helpers (checked_sub, ok_or, deref, ..) come and go with the
            # spelling of the same code and are left out. A new call into the crate inside an audited loop re-opens the audit.
            crate = fx.raw["crate"]
            calls = sorted({(b.term(x)["callee"].get("name") or "?") for x in body
                            if b.term(x)["k"] == "call" and b.term(x)["callee"].get("krate") == crate})
            key = "loop|%s|%s" % (b.root, ",".join(calls)[:120])
            old_calls = sorted({(b.term(x)["callee"].get("name") or "?") for x in body if b.term(x)["k"] == "call"})
            MIGRATE.append(("loop|%s|%s" % (b.root, ",".join(old_calls)[:120]), key))
            run.fail(rule, key, "loop has no progress witness (not iterator-driven; no positive-size read, stepped counter or shrinking collection on every path)",
                     b.loc(b.term(h)), ledger="loops")
    run.analysed.setdefault("loops", {})[run.config] = {"iterator_driven": n_iter, "hand_written": n_hand}
    if floors:
        run.floor(rule, "natural loops", n_iter + n_hand, 250)
