"""Pretty printer for exported MIR bodies (debug aid and violation context)."""
from facts import place_str


def op_s(body, op):
    if op is None:
        return "?"
    k = op["k"]
    if k in ("copy", "move"):
        return ("" if k == "copy" else "move ") + place_str(body, op["p"])
    if k == "const":
        if "fn" in op:
            return "fn " + op["fn"]
        if op.get("uneval"):
            return "const %s%s" % (op["uneval"], "<%s>" % ",".join(op["uneval_args"]) if op.get("uneval_args") else "")
        return "const " + str(op.get("s"))
    return op.get("s", "?")


def rv_s(body, rv):
    k = rv["k"]
    if k == "use":
        return op_s(body, rv["op"])
    if k == "ref":
        return ("&mut " if rv["mut"] else "&") + place_str(body, rv["p"])
    if k == "rawptr":
        return "&raw " + place_str(body, rv["p"])
    if k == "cast":
        return "%s as %s (%s)" % (op_s(body, rv["op"]), rv["to"], rv["kind"])
    if k == "bin":
        return "%s(%s, %s)" % (rv["bop"], op_s(body, rv["a"]), op_s(body, rv["b"]))
    if k == "un":
        return "%s(%s)" % (rv["bop"], op_s(body, rv["a"]))
    if k == "discr":
        return "discriminant(%s)" % place_str(body, rv["p"])
    if k == "agg":
        if rv["agg"] == "adt":
            fs = ", ".join("%s: %s" % (n, op_s(body, f)) for n, f in zip(rv["fnames"], rv["fields"]))
            return "%s::%s { %s }" % (rv["adt"], rv["vname"], fs)
        return "%s(%s)" % (rv["agg"], ", ".join(op_s(body, f) for f in rv["fields"]))
    if k == "repeat":
        return "[%s; %s]" % (op_s(body, rv["op"]), rv["n"])
    return rv.get("s", k)


def term_s(body, t):
    k = t["k"]
    if k == "call":
        c = t["callee"]
        name = c.get("path") or "<indirect %s>" % op_s(body, c.get("indirect"))
        r = ""
        if c.get("rpath") and c.get("rpath") != c.get("path"):
            r = " [=> %s]" % c["rpath"]
        return "%s = %s(%s)%s -> bb%s" % (place_str(body, t["dest"]), name, ", ".join(op_s(body, a) for a in t["args"]), r, t["target"])
    if k == "switch":
        return "switch %s [%s, otherwise -> bb%s]" % (op_s(body, t["discr"]), ", ".join("%s -> bb%s" % (a[0], a[1]) for a in t["arms"]), t["otherwise"])
    if k == "assert":
        return "assert(%s%s, %s(%s)) -> bb%s" % ("" if t["expected"] else "!", op_s(body, t["cond"]), t["kind"], ", ".join(op_s(body, o) for o in t["ops"]), t["target"])
    if k == "drop":
        return "drop(%s) -> bb%s" % (place_str(body, t["p"]), t["target"])
    if k == "goto":
        return "goto bb%s" % t["target"]
    return k


def body_s(body, cleanup=False):
    out = ["fn %s  [%s:%s]" % (body.path, body.file, body.line)]
    for i, l in enumerate(body.locals):
        out.append("  let _%d: %s%s" % (i, l["ty"], "  // " + l["name"] if l.get("name") else ""))
    for bi, b in enumerate(body.blocks):
        if b.get("cleanup") and not cleanup:
            continue
        out.append(" bb%d:" % bi)
        for s in b["s"]:
            tag = " @%s%s" % (s.get("line"), " exp" if s.get("exp") else "")
            if s["k"] == "assign":
                out.append("    %s = %s%s" % (place_str(body, s["p"]), rv_s(body, s["rv"]), tag))
            else:
                out.append("    %s %s%s" % (s["k"], s.get("s", ""), tag))
        t = b["t"]
        tag = " @%s%s%s" % (t.get("line"), " exp" if t.get("exp") else "", " macros=%s" % t["macros"] if t.get("macros") else "")
        out.append("    %s%s" % (term_s(body, t), tag))
    return "\n".join(out)
