"""Rule C01-e / C02-o: integer arithmetic that panics under overflow checks ("attempt to subtract with
overflow" and friends; silent wrap-around in release builds). Sites are MIR `assert Overflow:*`
terminators, i.e. exactly the operations the compiler would check.

Scope: every Sub (any integer type: an unsigned underflow does not depend on the width), every
Add/Mul/Neg/Shl/Shr/Div/Rem in a type narrower than 64 bits. Add/Mul in usize/u64/i64 are out of scope
on purpose (64-bit target: the operands derive from <=32-bit font fields, lengths of data in memory and
counters; 32-bit targets are not decided) - this is stated in DESIGN.md.

A site is
 * discharged by interval arithmetic over the provenance of its operands (type widths through
   widening casts / From::from, constants, masks, shifts, min/max/clamp, len()), or
 * for Sub: by a dominating comparison `a >= b` / `a > b` on the same SSA values, a dominating
   constant bound (`a > k`, `a != 0`, `!x.is_empty()` for `x.len() - 1`), or both operands being
   readings of the same monotone write counter (`bytes_written()`), or
 * audited in ledger/arith.jsonl (key = arith|function|op type, with a count), or
 * a violation."""
import re

import guards
import origins
import sym

INT = {"u8": (0, 2 ** 8 - 1), "u16": (0, 2 ** 16 - 1), "u32": (0, 2 ** 32 - 1), "u64": (0, 2 ** 64 - 1), "usize": (0, 2 ** 64 - 1),
       "u128": (0, 2 ** 128 - 1),
       "i8": (-2 ** 7, 2 ** 7 - 1), "i16": (-2 ** 15, 2 ** 15 - 1), "i32": (-2 ** 31, 2 ** 31 - 1), "i64": (-2 ** 63, 2 ** 63 - 1),
       "isize": (-2 ** 63, 2 ** 63 - 1), "i128": (-2 ** 127, 2 ** 127 - 1), "bool": (0, 1), "char": (0, 0x10FFFF)}
WIDE = ("usize", "u64", "i64", "isize", "u128", "i128")
LEN = (0, 2 ** 63 - 1)
PASS = ("From::from", "Into::into", "Try::branch", "::unwrap", "::expect", "::ok_or", "::ok", "::copied", "::cloned", "Clone::clone",
        "FromResidual::from_residual", "SafeFrom::safe_from", "TryFrom::try_from", "TryInto::try_into", "::unwrap_or_default")


def meet(a, b):
    if a is None:
        return b
    if b is None:
        return a
    lo, hi = max(a[0], b[0]), min(a[1], b[1])
    return (lo, hi) if lo <= hi else a


def ty_range(ty):
    if not ty:
        return None
    ty = origins.payload_ty(ty)
    return INT.get(ty)


class Intervals:
    def __init__(self, fx, body, prov):
        self.fx, self.b, self.prov = fx, body, prov
        self.ctx = None

    def at(self, conds, bi):
        """evaluate at block bi: every (sub)term that a comparison dominating bi relates to a value of known range is tightened by it
        (`match v { -1131..=-108 => -v - 108 }`: v, and therefore -v, is bounded inside the arm). Terms are SSA values, so a
        comparison that dominates the site constrains the same value the site reads."""
        idx = {}
        for tb, fb, o, x, y, sw in conds:
            for blk, oo in ((tb, o), (fb, guards.CMP_NEG.get(o))):
                if blk is None or oo is None or not self.b.dominates(blk, bi):
                    continue
                xs, ys = sym.strip(x), sym.strip(y)
                idx.setdefault(sym.norm(xs), []).append((oo, ys))
                fl = guards.CMP_FLIP.get(oo)
                if fl:
                    idx.setdefault(sym.norm(ys), []).append((fl, xs))
        self.ctx = idx
        self.bi = bi
        return self

    def term(self, t, depth=0):
        r = self.term0(t, depth)
        if self.ctx and depth <= 30 and t[0] not in ("c", "uneval"):
            rels = self.ctx.get(sym.norm(sym.strip(t)))
            if rels:
                lo, hi = r if r else (-(1 << 200), 1 << 200)
                ctx, self.ctx = self.ctx, None
                try:
                    for rel, other in rels:
                        oi = self.term0(other, depth + 1)
                        if oi is None:
                            continue
                        if rel == "Lt":
                            hi = min(hi, oi[1] - 1)
                        elif rel == "Le":
                            hi = min(hi, oi[1])
                        elif rel == "Gt":
                            lo = max(lo, oi[0] + 1)
                        elif rel == "Ge":
                            lo = max(lo, oi[0])
                        elif rel == "Eq":
                            lo, hi = max(lo, oi[0]), min(hi, oi[1])
                finally:
                    self.ctx = ctx
                if lo <= hi and (lo > -(1 << 200) and hi < (1 << 200)):
                    r = (lo, hi)
                elif lo <= hi and r is not None:
                    r = (max(lo, r[0]), min(hi, r[1]))
        return r

    def op_term(self, op):
        """term of an operand read at the site block: a direct read of a variable with several definitions (a loop counter) is named by
        the SSA version that reaches the site, so that it compares equal to the snapshot a dominating test was made on"""
        t = self.prov.op(op)
        bi = getattr(self, "bi", None)
        if bi is not None and op["k"] in ("copy", "move") and not op["p"]["p"] and t[0] == "local" and len(t) <= 3:
            v = self.b.ssa_version(op["p"]["l"], bi, "t")
            if v is not None and v[0] in ("d", "phi", "entry"):
                return ("local", t[1], t[2] if len(t) > 2 else None, v)
        return t

    def op(self, op):
        ty = (op.get("p") or {}).get("ty") if op["k"] in ("copy", "move") else op.get("ty")
        if ty and ty.startswith("&"):
            # a reference operand of a std operator impl (`&u8 - u8`): the value is the pointee
            return meet(self.term(guards.canon(("deref", self.op_term(op)))), INT.get(re.sub(r"^&(mut )?", "", ty)))
        return meet(self.term(self.op_term(op)), INT.get(ty))

    def term_ty(self, t):
        k = t[0]
        if k in ("arg", "local"):
            return self.b.local_ty(t[1])
        if k in ("deref", "ref"):
            ty = self.term_ty(t[1])
            return re.sub(r"^&(mut )?", "", ty) if ty and k == "deref" else ty
        if k == "field" and isinstance(t[2], str):
            bt = self.term_ty(t[1])
            if bt:
                adt = self.fx.adt(origins.strip_generics(re.sub(r"^&(mut )?", "", bt)))
                if adt and len(adt["variants"]) == 1:
                    for f in adt["variants"][0]["fields"]:
                        if f["name"] == t[2]:
                            return f["ty"]
        if k == "call":
            return t[5] if len(t) > 5 else None
        if k == "cast":
            return t[3]
        return None

    def term0(self, t, depth=0):
        if depth > 30:
            return None
        k = t[0]
        if k == "c":
            return (t[1], t[1]) if isinstance(t[1], int) and not isinstance(t[1], bool) else None
        if k == "uneval":
            m = re.match(r"^(?:core|std)::num::<impl (\w+)>::(MIN|MAX)$", t[1] or "")
            if m and m.group(1) in INT:
                v = INT[m.group(1)][0 if m.group(2) == "MIN" else 1]
                return (v, v)
            c = self.fx.const(t[1])
            v = c.get("val") if c else None
            return (v, v) if isinstance(v, int) else None
        if k == "cast":
            if t[1] != "IntToInt":
                return INT.get(t[3])
            inner = meet(self.term(t[4], depth + 1), INT.get(t[2]))
            to = INT.get(t[3])
            if inner and to and to[0] <= inner[0] and inner[1] <= to[1]:
                return inner
            return to
        if k == "bin":
            op = t[1].replace("WithOverflow", "")
            a, c = self.term(t[2], depth + 1), self.term(t[3], depth + 1)
            a = meet(a, INT.get(origins.payload_ty(self.term_ty(t[2]) or "")))
            c = meet(c, INT.get(origins.payload_ty(self.term_ty(t[3]) or "")))
            return arith(op, a, c)
        if k == "un":
            a = self.term(t[2], depth + 1)
            if t[1] == "Neg" and a:
                return (-a[1], -a[0])
            return None
        if k in ("deref", "ref", "variant"):
            return meet(self.term(t[1], depth + 1), ty_range(self.term_ty(t)))
        if k == "field":
            if t[1][0] == "variant" or isinstance(t[2], int):
                return self.term(t[1], depth + 1)
            return INT.get(self.term_ty(t) or "")
        if k in ("arg", "local"):
            return INT.get(origins.payload_ty(self.b.local_ty(t[1]) or "") or "")
        if k == "call":
            name, args, decl = t[1] or "", t[2], t[4] or ""
            dr = ty_range(t[5] if len(t) > 5 else None)
            if name.endswith(origins.LEN_FNS) or decl.endswith(origins.LEN_FNS):
                # len() of a fixed-size array viewed as a slice is the array length
                if args:
                    a0 = args[0]
                    for _ in range(6):
                        if a0[0] in ("ref", "deref", "copy"):
                            a0 = a0[1]
                        else:
                            break
                    if a0[0] == "cast" and "Unsize" in str(a0[1]):
                        m = re.match(r"^&(?:mut )?\[.*; (\d+)\]$", str(a0[2]))
                        if m:
                            return (int(m.group(1)), int(m.group(1)))
                return meet(LEN, dr)
            m = re.search(r"impl std::convert::(?:Try)?From<(\w+)> for (\w+)", name)
            if m and args:
                return meet(meet(self.term(args[0], depth + 1), INT.get(m.group(1))), dr)
            if (name.endswith(("::min", "cmp::min")) or decl.endswith("Ord::min")) and len(args) == 2:
                a, c = self.term(args[0], depth + 1), self.term(args[1], depth + 1)
                if a and c:
                    return meet((min(a[0], c[0]), min(a[1], c[1])), dr)
                x = a or c
                return meet((dr[0], x[1]) if x and dr else None, dr)
            if (name.endswith(("::max", "cmp::max")) or decl.endswith("Ord::max")) and len(args) == 2:
                a, c = self.term(args[0], depth + 1), self.term(args[1], depth + 1)
                if a and c:
                    return meet((max(a[0], c[0]), max(a[1], c[1])), dr)
                return dr
            if name.endswith("::clamp") and len(args) == 3:
                lo, hi = self.term(args[1], depth + 1), self.term(args[2], depth + 1)
                if lo and hi:
                    return meet((lo[0], hi[1]), dr)
                return dr
            if name.endswith(("::leading_zeros", "::trailing_zeros", "::count_ones", "::count_zeros")):
                return (0, 128)
            if name.endswith("::abs") and args:
                a = self.term(args[0], depth + 1)
                return meet((0, max(abs(a[0]), abs(a[1]))) if a else None, dr)
            if decl.endswith(PASS) and args:
                return meet(self.term(args[0], depth + 1), dr)
            return dr
        return None


def arith(op, a, c):
    if a is None or c is None:
        if op == "BitAnd":
            x = a or c
            if x and x[0] >= 0:
                return (0, x[1])
        if op == "Rem" and c and c[0] > 0:
            return (-(c[1] - 1), c[1] - 1)
        return None
    if op == "Add":
        return (a[0] + c[0], a[1] + c[1])
    if op == "Sub":
        return (a[0] - c[1], a[1] - c[0])
    if op == "Mul":
        ps = [a[0] * c[0], a[0] * c[1], a[1] * c[0], a[1] * c[1]]
        return (min(ps), max(ps))
    if op == "BitAnd":
        if a[0] >= 0 and c[0] >= 0:
            return (0, min(a[1], c[1]))
        if a[0] >= 0:
            return (0, a[1])
        if c[0] >= 0:
            return (0, c[1])
        return None
    if op in ("BitOr", "BitXor"):
        if a[0] >= 0 and c[0] >= 0:
            n = max(a[1].bit_length(), c[1].bit_length())
            return (0, (1 << n) - 1)
        return None
    if op == "Shr" and c[0] == c[1] and 0 <= c[0] < 128:
        return (a[0] >> c[0], a[1] >> c[0])
    if op == "Shl" and c[0] >= 0 and c[1] < 128 and a[0] >= 0:
        return (a[0] << c[0], a[1] << c[1])
    if op == "Div" and c[0] > 0:
        qs = [int(a[0] / c[0]), int(a[0] / c[1]), int(a[1] / c[0]), int(a[1] / c[1])]
        return (min(qs), max(qs))
    if op == "Rem" and c[0] > 0:
        if a[0] >= 0:
            return (0, min(a[1], c[1] - 1))
        return (-(c[1] - 1), c[1] - 1)
    return None


class Site:
    __slots__ = ("b", "bb", "t", "op", "ty")

    def __init__(self, b, bb, t, op, ty):
        self.b, self.bb, self.t, self.op, self.ty = b, bb, t, op, ty

    def key(self):
        return "arith|%s|%s %s" % (self.b.root, self.op, self.ty)

    def loc(self):
        return self.b.loc(self.t)


OP_CALL = re.compile(r"^<&?(u8|u16|u32|u64|u128|usize|i8|i16|i32|i64|i128|isize) as std::ops::"
                     r"(Add|Sub|Mul|Neg|Shl|Shr|AddAssign|SubAssign|MulAssign|ShlAssign|ShrAssign)(?:<[^>]*>)?>::\w+$")
NUM_CALL = re.compile(r"core::num::<impl (u8|u16|u32|u64|usize|i8|i16|i32|i64|isize)>::(abs|pow|next_power_of_two)$")
SKIP_MACROS = ("Debug", "PartialEq", "Hash", "Clone", "PartialOrd", "Ord", "bitflags")


def sites(fx, select=None):
    for b in fx.bodies:
        if b.exp and ("ouroboros_impl_" in b.path):
            continue
        if select and not select(b):
            continue
        for bi, blk in enumerate(b.blocks):
            if not b.reachable(bi):
                continue
            t = blk["t"]
            if t["k"] == "call":
                # `a + b` with a reference operand (`&u32 + u32`, `u32 * &u32`, `x += &y`) is a call of the std operator impl, which
                # inherits the caller's overflow checks: the same obligation as the checked MIR operation, without an assert terminator
                m = OP_CALL.match(t["callee"].get("rpath") or "")
                if m and len(t["args"]) in (1, 2) and not any(mm in SKIP_MACROS for mm in (t.get("macros") or [])):
                    op = m.group(2)[:-len("Assign")] if m.group(2).endswith("Assign") else m.group(2)
                    ty = m.group(1)
                    if not (op in ("Add", "Mul") and ty in WIDE):
                        t2 = dict(t)
                        t2["ops"] = list(t["args"])
                        t2["kind"] = "Overflow:" + op
                        yield Site(b, bi, t2, op, ty)
                # integer helpers of std that inherit the caller's overflow checks: abs / pow / next_power_of_two, and sum / product of integers
                cp = t["callee"].get("path") or ""
                m = NUM_CALL.search(cp)
                if m and not any(mm in SKIP_MACROS for mm in (t.get("macros") or [])):
                    op = {"abs": "Abs", "pow": "Pow", "next_power_of_two": "NextPow2"}[m.group(2)]
                    t2 = dict(t)
                    t2["ops"] = list(t["args"])
                    t2["kind"] = "Overflow:" + op
                    yield Site(b, bi, t2, op, m.group(1))
                elif cp.endswith(("Iterator::sum", "Iterator::product")) and (t["dest"].get("ty") in INT) and t["dest"].get("ty") not in ("u128", "i128"):
                    t2 = dict(t)
                    t2["ops"] = []
                    t2["kind"] = "Overflow:" + ("Sum" if cp.endswith("sum") else "Product")
                    yield Site(b, bi, t2, "Sum" if cp.endswith("sum") else "Product", t["dest"]["ty"])
                continue
            if t["k"] != "assert":
                continue
            kind = t["kind"]
            if kind.startswith("Overflow:"):
                op = kind.split(":", 1)[1]
            elif kind == "OverflowNeg":
                op = "Neg"
            else:
                continue
            if any(m in SKIP_MACROS for m in (t.get("macros") or [])):
                continue
            ty = (t.get("otys") or [None])[0]
            if ty is None and t.get("ops"):
                o = t["ops"][0]
                ty = (o.get("p") or {}).get("ty") if o["k"] in ("copy", "move") else o.get("ty")
            if op in ("Add", "Mul") and ty in WIDE:
                continue
            yield Site(b, bi, t, op, ty)


def discharge(fx, O, s, cache):
    b, bi, t = s.b, s.bb, s.t
    prov = O.prov(b)
    if b.dp not in cache:
        cache[b.dp] = guards.branch_conditions(b, prov)
    iv = Intervals(fx, b, prov).at(cache[b.dp], bi)
    ops = t.get("ops") or []
    rng = INT.get(s.ty)
    if s.op in ("Sum", "Product"):
        return None
    if s.op == "NextPow2" and len(ops) >= 1 and rng:
        a = iv.op(ops[0])
        if a and a[1] <= (rng[1] + 1) // 2:
            return "operand at most %d: the next power of two fits %s" % (a[1], s.ty)
        return None
    if s.op == "Pow" and len(ops) >= 2 and rng:
        a, c = iv.op(ops[0]), iv.op(ops[1])
        if a and c and c[0] >= 0 and c[1] <= 128:
            hi = max(abs(a[0]), abs(a[1])) ** c[1]
            if hi <= rng[1]:
                return "|base| at most %d, exponent at most %d: the power is at most %d" % (max(abs(a[0]), abs(a[1])), c[1], hi)
        return None
    if s.op in ("Neg", "Abs") and len(ops) >= 1 and rng:
        a = iv.op(ops[0])
        if a and a[0] > rng[0]:
            return "operand in [%d, %d]: the minimum of %s is excluded" % (a[0], a[1], s.ty)
        return None
    if len(ops) < 2:
        return None
    a, c = iv.op(ops[0]), iv.op(ops[1])
    if s.op in ("Add", "Mul", "Sub") and (a is not None or c is not None):
        if b.dp not in cache:
            cache[b.dp] = guards.branch_conditions(b, prov)
        a = refine(b, prov, iv, cache[b.dp], bi, ops[0], a)
        c = refine(b, prov, iv, cache[b.dp], bi, ops[1], c)
    if s.op in ("Shl", "Shr"):
        bits = {"u8": 8, "i8": 8, "u16": 16, "i16": 16, "u32": 32, "i32": 32, "u64": 64, "i64": 64, "usize": 64, "isize": 64, "u128": 128, "i128": 128}.get(s.ty)
        if c and bits and 0 <= c[0] and c[1] < bits:
            return "shift amount in [%d, %d] < %d bits" % (c[0], c[1], bits)
        return None
    if s.op in ("Div", "Rem"):
        # signed MIN / -1
        if c and (c[0] > -1 or c[1] < -1):
            return "divisor in [%d, %d] is never -1" % c
        if a and rng and a[0] > rng[0]:
            return "dividend is never %s::MIN" % s.ty
        return None
    if rng and a and c:
        r = arith(s.op, a, c)
        if r and rng[0] <= r[0] and r[1] <= rng[1]:
            return "interval [%d, %d] %s [%d, %d] = [%d, %d] fits %s" % (a[0], a[1], s.op, c[0], c[1], r[0], r[1], s.ty)
    if s.op != "Sub":
        return None
    ta, tc = sym.strip(iv.op_term(ops[0])), sym.strip(iv.op_term(ops[1]))
    na, nc = sym.norm(ta), sym.norm(tc)
    # both readings of one monotone counter
    if is_counter(ta) and is_counter_or_snapshot(tc, ta):
        return "difference of two readings of the same write counter (bytes_written only grows)"
    # the minuend is an item of `start..end` / `start..=end` and the subtrahend is that start
    st = range_start(ta)
    if st is not None and sym.norm(sym.strip(st)) == nc:
        return "minuend iterates a range that starts at the subtrahend"
    if b.dp not in cache:
        cache[b.dp] = guards.branch_conditions(b, prov)
    kc = tc[1] if tc[0] == "c" and isinstance(tc[1], int) else None
    la = indexing_len_of(ta)
    for tb, fb, op, x, y, sw in cache[b.dp]:
        for blk, o in ((tb, op), (fb, guards.CMP_NEG.get(op))):
            if blk is None or o is None or not b.dominates(blk, bi):
                continue
            x0, y0 = sym.strip(x), sym.strip(y)
            x1, y1 = sym.norm(x0), sym.norm(y0)
            if x1 == na and y1 == nc and o in ("Ge", "Gt"):
                return "dominated by minuend %s subtrahend" % (">=" if o == "Ge" else ">")
            if x1 == nc and y1 == na and o in ("Le", "Lt"):
                return "dominated by subtrahend %s minuend" % ("<=" if o == "Le" else "<")
            if kc is not None and rng and rng[0] == 0:
                ky = y0[1] if y0[0] == "c" and isinstance(y0[1], int) else None
                kx = x0[1] if x0[0] == "c" and isinstance(x0[1], int) else None
                if x1 == na and ky is not None:
                    if (o == "Gt" and ky >= kc - 1) or (o == "Ge" and ky >= kc) or (o == "Ne" and ky == 0 and kc == 1) or (o == "Eq" and ky >= kc):
                        return "dominated by minuend %s %d" % (o, ky)
                if y1 == na and kx is not None:
                    if (o == "Lt" and kx >= kc - 1) or (o == "Le" and kx >= kc) or (o == "Ne" and kx == 0 and kc == 1) or (o == "Eq" and kx >= kc):
                        return "dominated by %d %s minuend" % (kx, o)
    if kc == 1 and rng and rng[0] == 0:
        # x - 1 where x is odd (`if len.is_odd() { len -= 1 }`)
        for tb, fb, call, sw in guards.bool_call_conditions(b, prov):
            if tb is not None and b.dominates(tb, bi) and (call[4] or call[1] or "").endswith("::is_odd") and call[2]:
                a0 = sym.strip(call[2][0])
                while a0[0] in ("ref", "deref"):
                    a0 = sym.strip(a0[1])
                if sym.norm(a0) == na:
                    return "minuend is odd (is_odd() dominates), so it is at least 1"
    if la is not None and kc == 1:
        import indexing
        for tb, fb, call, sw in guards.bool_call_conditions(b, prov):
            if fb is not None and b.dominates(fb, bi) and (call[1] or "").endswith("::is_empty") and call[2]:
                if sym.norm(indexing.unref(call[2][0])) == sym.norm(la):
                    return "len() - 1 dominated by !is_empty() of the same receiver"
    return None


def refine(b, prov, iv, conds, bi, op, cur):
    """tighten the interval of an operand with the dominating comparisons of the same (SSA) value against values of known range:
    x < y with y <= U gives x <= U - 1, x <= y gives x <= U; likewise lower bounds from > and >="""
    if cur is None:
        return cur
    t = sym.norm(sym.strip(iv.op_term(op) if hasattr(iv, "op_term") else prov.op(op)))
    lo, hi = cur
    for tb, fb, o, x, y, sw in conds:
        for blk, oo in ((tb, o), (fb, guards.CMP_NEG.get(o))):
            if blk is None or oo is None or not b.dominates(blk, bi):
                continue
            xs, ys = sym.strip(x), sym.strip(y)
            rel, other = None, None
            if sym.norm(xs) == t:
                rel, other = oo, ys
            elif sym.norm(ys) == t:
                rel, other = guards.CMP_FLIP.get(oo), xs
            if rel is None:
                continue
            oi = iv.term(other)
            if oi is None:
                continue
            if rel == "Lt":
                hi = min(hi, oi[1] - 1)
            elif rel == "Le":
                hi = min(hi, oi[1])
            elif rel == "Gt":
                lo = max(lo, oi[0] + 1)
            elif rel == "Ge":
                lo = max(lo, oi[0])
            elif rel == "Eq":
                lo, hi = max(lo, oi[0]), min(hi, oi[1])
    return (lo, hi) if lo <= hi else cur


def range_start(t):
    """start of the integer range whose iteration produced t: (iter.next() as Some).0 over Range/RangeInclusive built in place"""
    t = sym.strip(t)
    if not (t[0] == "field" and t[1][0] == "variant" and t[1][2] == "Some"):
        return None
    c = sym.strip(t[1][1])
    if not (c[0] == "call" and re.search(r"Iterator for std::ops::Range(Inclusive)?<A>>::next$", c[1] or "") and c[2]):
        return None
    it = sym.strip(c[2][0])
    while it[0] in ("ref", "deref") or (it[0] == "call" and (it[4] or it[1] or "").endswith("IntoIterator::into_iter") and it[2]):
        it = sym.strip(it[1] if it[0] in ("ref", "deref") else it[2][0])
    if it[0] == "call" and (it[1] or "").endswith("RangeInclusive::<Idx>::new") and len(it[2]) == 2:
        return it[2][0]
    if it[0] == "agg" and str(it[1]).endswith(("ops::Range", "ops::RangeInclusive")) and len(it[3]) >= 2:
        return it[3][0]
    return None


def indexing_len_of(t):
    import indexing
    return indexing.len_of(t)


def is_counter(t):
    return t[0] == "call" and (t[4] or t[1] or "").endswith("::bytes_written")


def is_counter_or_snapshot(t, other):
    if not is_counter(t):
        return False
    import indexing
    return sym.norm(indexing.unref(t[2][0])) == sym.norm(indexing.unref(other[2][0])) if t[2] and other[2] else False


def rule_overflow(run, fx, rule="C01-e", floors=True, select=None, floor_n=300):
    run.rule(rule, "every overflow-checked integer operation in scope (all Sub; Add/Mul/Neg/Shl/Shr/Div/Rem narrower than 64 bits) is discharged by "
                   "interval arithmetic over operand provenance, by a dominating comparison / constant bound / non-emptiness check on the same SSA "
                   "values, or as the difference of two readings of one write counter; otherwise it is audited in ledger/arith.jsonl "
                   "(key = arith|function|op type, with a count) or a violation")
    O = origins.Origins(fx)
    cache = {}
    n = 0
    for s in sites(fx, select):
        n += 1
        why = discharge(fx, O, s, cache)
        if why:
            run.ok(rule, "%s: %s %s: %s" % (s.b.path, s.op, s.ty, why))
        else:
            run.fail(rule, s.key(), "%s in %s in %s can overflow: neither discharged by interval/guard reasoning nor audited" % (s.op, s.ty, s.b.path), s.loc(), ledger="arith", alt_keys=fx.alt_keys(s.b, s.key()))
    if floors:
        run.floor(rule, "overflow-checked arithmetic sites in scope", n, floor_n)
    return n
