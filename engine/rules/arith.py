"""Rules C01-c (allocation bounded by the input) and C01-d (division by a font-supplied value)."""
import guards
import origins
import re
import sym
from facts import callee_is

SINKS = {"::with_capacity": 0, "::with_capacity_and_hasher": 0, "std::vec::from_elem": 1, "::resize": 1, "::reserve": 1,
         "::reserve_exact": 1, "std::iter::Iterator::take": 1, "std::iter::repeat_n": 1, "::resize_with": 1}


def alloc_sinks(fx):
    for b in fx.bodies:
        if b.exp and "ouroboros_impl_" in b.path:
            continue
        for bi, t in b.calls():
            c = t["callee"]
            p = c.get("path") or ""
            idx = None
            for k, v in SINKS.items():
                if p.endswith(k):
                    idx = v
            if idx is None or idx >= len(t["args"]):
                continue
            if p.endswith("Iterator::take") and "Repeat" not in ((c.get("args") or [""])[0]):
                continue
            # WriteContext::reserve is a placeholder reservation, not an allocation of its own
            if p.endswith("WriteContext::reserve"):
                continue
            yield b, bi, t, idx, p.split("::")[-1]


def rule_alloc(run, fx, rule="C01-c", floors=True, select=None):
    run.rule(rule, "the size operand of every allocation sink (with_capacity, vec![x; n], resize, reserve, repeat().take(n)) originates from a constant, "
                   "a len() of data already in memory, a value bounded by its type width (u8/u16, possibly times a constant), or a caller-supplied API argument; "
                   "a u32/usize read from the font is a violation unless audited")
    O = origins.Origins(fx)
    n = 0
    for b, bi, t, idx, name in alloc_sinks(fx):
        if select and not select(b):
            continue
        n += 1
        cl = O.classify_op(b, t["args"][idx])
        key = "alloc|%s|%s" % (b.root, name)
        if cl[0] in ("const", "len", "bounded", "api"):
            run.ok(rule, "%s: %s(%s) — %s" % (b.path, name, cl[0], cl[1] if len(cl) > 1 else ""))
            continue
        why = local_bound(b, O.prov(b), bi, t["args"][idx])
        if why:
            run.ok(rule, "%s: %s — %s" % (b.path, name, why))
        else:
            run.fail(rule, key, "allocation size is not bounded by the input: %s" % cl[1], b.loc(t), ledger="alloc")
    if floors:
        run.floor(rule, "allocation sinks", n, 70)
    return n


def local_bound(b, prov, use_bb, op):
    """the size operand was already validated in this function: the same value was the element count of a
    read_array*/read_slice that succeeded before the sink (the bytes are present), or a comparison
    with a constant upper bound dominates the sink"""
    d = sym.strip(prov.op(op))
    for bi, t in b.calls():
        if callee_is(t, "ReadCtxt::<'a>::read_array", "ReadCtxt::<'a>::read_array_dep", "ReadCtxt::<'a>::read_array_stride", "ReadCtxt::<'a>::read_slice") and len(t["args"]) >= 2:
            if sym.same(prov.op(t["args"][1]), d) and not t["dest"]["p"]:
                for sb in guards.success_blocks(b, t["dest"]["l"]):
                    if b.dominates(sb, use_bb):
                        return "same count was read as an array before the allocation (bytes are present)"
    for tb, fb, o, x, y, sw in guards.branch_conditions(b, prov):
        for blk, oo in ((tb, o), (fb, guards.CMP_NEG[o])):
            if blk is None or not b.dominates(blk, use_bb):
                continue
            x1, y1 = sym.strip(x), sym.strip(y)
            core_d = d
            while core_d[0] == "cast":
                core_d = sym.strip(core_d[4])
            for xx, yy, ops in ((x1, y1, ("Lt", "Le")), (y1, x1, ("Gt", "Ge"))):
                while xx[0] == "cast":
                    xx = sym.strip(xx[4])
                if xx == core_d and yy[0] == "c" and isinstance(yy[1], int) and oo in ops:
                    return "guarded by a comparison with the constant %d" % yy[1]
    return None


DIV_CALL = re.compile(r"^<&?(u8|u16|u32|u64|u128|usize|i8|i16|i32|i64|i128|isize) as std::ops::(Div|Rem|DivAssign|RemAssign)(?:<[^>]*>)?>::\w+$")
DIV_HELPER = re.compile(r"core::num::<impl (u8|u16|u32|u64|u128|usize|i8|i16|i32|i64|i128|isize)>::(div_euclid|rem_euclid|div_ceil|next_multiple_of|div_floor)$")


def division_sites(fx):
    for b in fx.bodies:
        for bi, blk in enumerate(b.blocks):
            t = blk["t"]
            if t["k"] == "assert" and t["kind"] in ("DivisionByZero", "RemainderByZero") and b.reachable(bi):
                yield b, bi, t
            elif t["k"] == "call" and b.reachable(bi) and len(t["args"]) == 2 and (
                    DIV_CALL.match(t["callee"].get("rpath") or "") or DIV_HELPER.search(t["callee"].get("path") or "")):
                # `a / b` with a reference operand, div_euclid / rem_euclid / div_ceil / next_multiple_of: calls that panic on a zero divisor
                yield b, bi, t


def rule_div(run, fx, rule="C01-d", floors=True, select=None):
    run.rule(rule, "every division/remainder whose divisor is not a non-zero constant is guarded by a test of the same value against zero "
                   "(the Fixed::div idiom), or the divisor is a callee/const that is non-zero by construction, or the site is audited")
    n = 0
    sizes_positive = all((a.get("val") or 0) > 0 for nd in fx.nodes if not nd.get("poly") and nd.get("assoc")
                         and nd["path"].endswith("ReadUnchecked>::read_unchecked") for a in nd["assoc"] if a["name"] == "SIZE")
    for b, bi, t in division_sites(fx):
        if select and not select(b):
            continue
        n += 1
        prov = sym.Prov(b)
        d = None
        if t["k"] == "call":
            d = sym.strip(prov.op(t["args"][1]))
            if ((t["args"][1].get("p") or {}).get("ty") or t["args"][1].get("ty") or "").startswith("&"):
                d = sym.strip(guards.canon(("deref", d)))
        else:
            c = sym.strip(prov.op(t["cond"]))
            if c[0] == "bin" and c[1] == "Eq":
                d = sym.strip(c[2])
        key = "div|%s|%s" % (b.root, sym.show(d)[:80] if d else "?")
        if d is None:
            run.fail(rule, key, "unrecognised division assert shape", b.loc(t), ledger="division")
            continue
        if d[0] == "c" and d[1]:
            run.ok(rule)
            continue
        if d[0] == "uneval":
            cst = fx.const(d[1])
            if cst and (cst.get("val") or 0) > 0:
                run.ok(rule, "%s: divisor %s = %s" % (b.path, d[1], cst["val"]))
                continue
            if d[1].endswith("ReadUnchecked::SIZE") and sizes_positive:
                run.ok(rule, "%s: divisor T::SIZE (every instantiated SIZE > 0)" % b.path)
                continue
        if d[0] == "call" and nonzero_callee(fx, d[1]):
            run.ok(rule, "%s: divisor %s() returns only non-zero constants" % (b.path, d[1].split("::")[-1]))
            continue
        # guard on the same term
        g = False
        for tb, fb, op, x, y, sw in guards.branch_conditions(b, prov):
            for blk, o in ((tb, op), (fb, guards.CMP_NEG[op])):
                if blk is None or not b.dominates(blk, bi):
                    continue
                x1, y1 = sym.strip(x), sym.strip(y)
                if x1 == d and y1[0] == "c" and y1[1] == 0 and o in ("Ne", "Gt"):
                    g = True
                if y1 == d and x1[0] == "c" and x1[1] == 0 and o in ("Ne", "Lt"):
                    g = True
        if g:
            run.ok(rule, "%s: divisor %s guarded against zero" % (b.path, sym.show(d)[:50]))
        else:
            run.fail(rule, key, "divisor %s is neither constant nor guarded against zero" % sym.show(d)[:80], b.loc(t), ledger="division")
    if floors:
        run.floor(rule, "division/remainder sites", n, 28)
    return n


def nonzero_callee(fx, path):
    b = fx.body(path)
    if b is None:
        return False
    vals = []
    for bi, blk in enumerate(b.blocks):
        if not b.reachable(bi):
            continue
        for s in blk["s"]:
            if s["k"] == "assign" and s["p"]["l"] == 0 and not s["p"]["p"]:
                rv = s["rv"]
                if rv["k"] == "use" and rv["op"]["k"] == "const":
                    v = rv["op"].get("val")
                    if v is None and rv["op"].get("uneval"):
                        c = fx.const(rv["op"]["uneval"])
                        v = c.get("val") if c else None
                        if v is None and rv["op"]["uneval"].endswith("ReadUnchecked::SIZE"):
                            # concrete <X as ReadUnchecked>::SIZE: look it up through the instance table
                            args = rv["op"].get("uneval_args") or []
                            for nd in fx.nodes:
                                if nd.get("assoc") and nd.get("self_ty", {}).get("s") == (args[0] if args else None):
                                    for a in nd["assoc"]:
                                        if a["name"] == "SIZE":
                                            v = a["val"]
                    vals.append(v)
                else:
                    return False
        if blk["t"]["k"] == "call" and blk["t"]["dest"]["l"] == 0:
            return False
    return bool(vals) and all(isinstance(v, int) and v > 0 for v in vals)
