//! Reproductions for four panics reachable from untrusted CFF/CFF2 data.
//!
//! Intended location: tests/repro_cffw.rs
//! Run with: cargo test --offline --test repro_cffw

use std::convert::TryFrom;

use allsorts::binary::read::ReadScope;
use allsorts::binary::write::{WriteBinary, WriteBinaryDep, WriteBuffer, WriteContext};
use allsorts::binary::U16Be;
use allsorts::cff::cff2::CFF2;
use allsorts::cff::outline::CFF2Outlines;
use allsorts::cff::{CFFVariant, Operand, Operator, CFF};
use allsorts::error::WriteError;
use allsorts::font_data::FontData;
use allsorts::outline::{OutlineBuilder, OutlineSink};
use allsorts::pathfinder_geometry::line_segment::LineSegment2F;
use allsorts::pathfinder_geometry::vector::Vector2F;
use allsorts::subset::subset;
use allsorts::tables::{Fixed, OpenTypeData, OpenTypeFont};
use allsorts::tag;
use allsorts::variations::instance;

fn read_fixture(path: &str) -> Vec<u8> {
    let path = std::path::Path::new(env!("CARGO_MANIFEST_DIR")).join(path);
    std::fs::read(path).expect("unable to read fixture")
}

/// Returns the (offset, length) of `table` in the font in `buffer`.
fn table_range(buffer: &[u8], table: u32) -> (usize, usize) {
    let otf = ReadScope::new(buffer).read::<OpenTypeFont<'_>>().unwrap();
    let ttf = match otf.data {
        OpenTypeData::Single(ttf) => ttf,
        OpenTypeData::Collection(_) => unreachable!(),
    };
    let record = ttf.find_table_record(table).expect("table not found");
    (record.offset as usize, record.length as usize)
}

fn find(haystack: &[u8], needle: &[u8]) -> usize {
    haystack
        .windows(needle.len())
        .position(|window| window == needle)
        .expect("byte sequence not found")
}

/// Runs each part of a reproduction so that a panic in one part does not hide the others.
struct Parts(Vec<&'static str>);

impl Parts {
    fn run(&mut self, name: &'static str, part: impl FnOnce()) {
        println!("-- {name}");
        if std::panic::catch_unwind(std::panic::AssertUnwindSafe(part)).is_err() {
            self.0.push(name);
        }
    }

    fn finish(self) {
        assert!(self.0.is_empty(), "parts that panicked: {:?}", self.0);
    }
}

/// The glyphs that tests/cff.rs test_subset_cff_type1 retains from Klei.otf.
const KLEI_GLYPH_IDS: [u16; 13] = [0, 1, 53, 66, 67, 70, 72, 73, 74, 79, 84, 85, 86];

// -- B1 ------------------------------------------------------------------------------------------

struct TwoU16;

impl WriteBinary<&Self> for TwoU16 {
    type Output = ();

    fn write<C: WriteContext>(ctxt: &mut C, _val: &Self) -> Result<(), WriteError> {
        U16Be::write(ctxt, 0x0102u16)?;
        U16Be::write(ctxt, 0x0304u16)
    }
}

/// `WriteSlice::write_bytes` compares the length of the data against the length of the whole
/// slice, not against the space that remains after earlier writes.
#[test]
fn repro_b1() {
    // (a) Public API only: reserve 3 bytes then fill the placeholder with a type that writes 2 + 2
    // bytes. The second write fits in the whole slice (2 <= 3) but not in the remaining byte.
    let mut parts = Parts(Vec::new());
    parts.run("WriteBuffer::reserve + write_placeholder_dep", || {
        let mut ctxt = WriteBuffer::new();
        let placeholder = ctxt.reserve::<TwoU16, _>(3).unwrap();
        let res =
            <TwoU16 as WriteBinaryDep<&TwoU16>>::write_dep(&mut WriteBuffer::new(), &TwoU16, ());
        assert!(res.is_ok());
        match ctxt.write_placeholder_dep(placeholder, &TwoU16, ()) {
            Err(WriteError::PlaceholderMismatch) => {}
            other => panic!("expected PlaceholderMismatch, got {:?}", other),
        }
    });

    // (b) From a font: Klei.otf with a Top DICT that has a second CharStrings entry.
    //
    // The Top DICT is the 55 bytes at offset 20..75 of the CFF table. It is rewritten in place:
    // the `fa 3b 01` (935 Notice) entry is dropped and `8b 8b 11` (0 0 CharStrings) is appended
    // so the DICT stays the same size and the real CharStrings entry remains the first one.
    let mut buffer = read_fixture("tests/fonts/opentype/Klei.otf");
    let (cff_offset, _) = table_range(&buffer, tag::CFF);
    let top_dict = &mut buffer[cff_offset + 20..cff_offset + 75];
    assert_eq!(&top_dict[..6], &[0xf8, 0x0f, 0x00, 0xfa, 0x3b, 0x01]);
    let mut patched = top_dict[..3].to_vec();
    patched.extend_from_slice(&top_dict[6..]);
    patched.extend_from_slice(&[0x8b, 0x8b, 0x11]);
    top_dict.copy_from_slice(&patched);

    // The font still parses
    let (cff_offset, cff_length) = table_range(&buffer, tag::CFF);
    let cff = ReadScope::new(&buffer[cff_offset..cff_offset + cff_length])
        .read::<CFF<'_>>()
        .expect("patched CFF table does not parse");
    let char_strings = cff.fonts[0]
        .top_dict
        .iter()
        .filter(|(op, _)| *op == Operator::CharStrings)
        .count();
    assert_eq!(char_strings, 2);

    // Writing the table: the Top DICT is 3 bytes longer than the space reserved for it
    parts.run("CFF::write", || {
        let mut out = WriteBuffer::new();
        match CFF::write(&mut out, &cff) {
            Err(WriteError::PlaceholderMismatch) => {}
            other => panic!("expected PlaceholderMismatch, got {:?}", other),
        }
    });

    // Subsetting the font
    parts.run("subset", || {
        let font = ReadScope::new(&buffer).read::<FontData<'_>>().unwrap();
        let provider = font.table_provider(0).unwrap();
        let res = subset(&provider, &KLEI_GLYPH_IDS);
        assert!(res.is_err(), "expected an error from subset");
    });
    parts.finish();
}

// -- B2 ------------------------------------------------------------------------------------------

/// `write_private_dict_and_local_subr_index` predicts the length of the Private DICT with an
/// empty delta and then asserts that what was written (with a Subrs delta) has that length.
#[test]
fn repro_b2() {
    // Klei.otf with a Private DICT that has a second Subrs entry.
    //
    // The Private DICT is rewritten in place: the `9f 0c 0a` (20 BlueShift) entry is dropped and
    // `8b 8b 13` (0 0 Subrs) is appended so the DICT stays the same size and the real Subrs entry
    // remains the first one.
    let mut buffer = read_fixture("tests/fonts/opentype/Klei.otf");
    let (cff_offset, cff_length) = table_range(&buffer, tag::CFF);
    let (private_offset, private_length) = {
        let cff = ReadScope::new(&buffer[cff_offset..cff_offset + cff_length])
            .read::<CFF<'_>>()
            .unwrap();
        match cff.fonts[0].top_dict.get(Operator::Private) {
            Some([Operand::Offset(length), Operand::Offset(offset)]) => {
                (usize::try_from(*offset).unwrap(), usize::try_from(*length).unwrap())
            }
            _ => panic!("unexpected Private operands"),
        }
    };
    let private_dict = &mut buffer[cff_offset + private_offset..][..private_length];
    println!("original Private DICT ({private_offset}, {private_length}): {private_dict:02x?}");
    let blue_shift = find(private_dict, &[0x9f, 0x0c, 0x0a]);
    let mut patched = private_dict[..blue_shift].to_vec();
    patched.extend_from_slice(&private_dict[blue_shift + 3..]);
    patched.extend_from_slice(&[0x8b, 0x8b, 0x13]);
    private_dict.copy_from_slice(&patched);
    println!("patched Private DICT: {patched:02x?}");

    // The font still parses and has local subrs
    let cff = ReadScope::new(&buffer[cff_offset..cff_offset + cff_length])
        .read::<CFF<'_>>()
        .expect("patched CFF table does not parse");
    let CFFVariant::Type1(type1) = &cff.fonts[0].data else {
        panic!("expected Type 1 CFF")
    };
    let subrs = type1
        .private_dict
        .iter()
        .filter(|(op, _)| *op == Operator::Subrs)
        .count();
    assert_eq!(subrs, 2);
    assert!(type1.local_subr_index.is_some());

    // Writing the table
    let mut parts = Parts(Vec::new());
    parts.run("CFF::write", || {
        let mut out = WriteBuffer::new();
        let res = CFF::write(&mut out, &cff);
        println!("CFF::write -> {:?}", res);
        if res.is_ok() {
            // If it was written it has to be readable, and still have its local subrs
            let written = ReadScope::new(out.bytes())
                .read::<CFF<'_>>()
                .expect("unable to read written CFF");
            let CFFVariant::Type1(written_type1) = &written.fonts[0].data else {
                panic!("expected Type 1 CFF")
            };
            assert_eq!(
                written_type1.local_subr_index.as_ref().map(|index| index.len()),
                type1.local_subr_index.as_ref().map(|index| index.len())
            );
        }
    });

    // Subsetting the font
    parts.run("subset", || {
        let font = ReadScope::new(&buffer).read::<FontData<'_>>().unwrap();
        let provider = font.table_provider(0).unwrap();
        let res = subset(&provider, &KLEI_GLYPH_IDS);
        println!("subset -> {:?}", res.as_ref().map(|data| data.len()));
        if let Ok(data) = res {
            let (cff_offset, cff_length) = table_range(&data, tag::CFF);
            ReadScope::new(&data[cff_offset..cff_offset + cff_length])
                .read::<CFF<'_>>()
                .expect("unable to read subset CFF");
        }
    });
    parts.finish();
}

// -- B3 ------------------------------------------------------------------------------------------

/// `Operand::bcd_encode` hits `unreachable!()` when asked to encode NaN or infinity.
#[test]
fn repro_b3() {
    // (a) `Operand::from(f32::NAN)` (a caller-supplied value, not font data) still panics by
    // contract; only the font-reachable path (b) is a defect of the "untrusted font" property.
    let mut parts = Parts(Vec::new());
    // (b) From a font: SourceSansVariable-Roman.abc.otf with a Private DICT in which the default
    // and the deltas of the blended StdHW value are the real number 3E38. Blending them at any
    // non-default instance overflows f32.
    //
    // The 15 bytes `1e a0 62 5f 0c 09  8b 0c 0b  a7 cb f5 8c 17 0a`
    //               (0.039625 BlueScale, 0 BlueFuzz, 28 64 106 1 blend StdHW)
    // are overwritten with `1e 3b 38 ff  1e 3b 38 ff  1e 3b 38 ff  8c 17 0a`
    //               (3E38 3E38 3E38 1 blend StdHW)
    let mut buffer = read_fixture("tests/fonts/opentype/cff2/SourceSansVariable-Roman.abc.otf");
    let (cff2_offset, cff2_length) = table_range(&buffer, tag::CFF2);
    let cff2 = &mut buffer[cff2_offset..cff2_offset + cff2_length];
    let original = [
        0x1e, 0xa0, 0x62, 0x5f, 0x0c, 0x09, 0x8b, 0x0c, 0x0b, 0xa7, 0xcb, 0xf5, 0x8c, 0x17, 0x0a,
    ];
    let replacement = [
        0x1e, 0x3b, 0x38, 0xff, 0x1e, 0x3b, 0x38, 0xff, 0x1e, 0x3b, 0x38, 0xff, 0x8c, 0x17, 0x0a,
    ];
    let pos = find(cff2, &original);
    println!("patching CFF2 table at {pos}");
    cff2[pos..pos + original.len()].copy_from_slice(&replacement);

    // The font still parses
    let table = ReadScope::new(&buffer[cff2_offset..cff2_offset + cff2_length])
        .read::<CFF2<'_>>()
        .expect("patched CFF2 table does not parse");
    println!("patched Private DICT: {:?}", table.fonts[0].private_dict);

    // Instance at wght=900
    parts.run("variations::instance", || {
        let font = ReadScope::new(&buffer).read::<FontData<'_>>().unwrap();
        let provider = font.table_provider(0).unwrap();
        let res = instance(&provider, &[Fixed::from(900.0)]);
        match res {
            Ok(_) => panic!("expected instancing to fail"),
            Err(err) => println!("instance -> Err({:?})", err),
        }
    });
    parts.finish();
}

// -- B4 ------------------------------------------------------------------------------------------

struct Sink {
    curves: usize,
}

impl OutlineSink for Sink {
    fn move_to(&mut self, _to: Vector2F) {}

    fn line_to(&mut self, _to: Vector2F) {}

    fn quadratic_curve_to(&mut self, _ctrl: Vector2F, _to: Vector2F) {}

    fn cubic_curve_to(&mut self, _ctrl: LineSegment2F, _to: Vector2F) {
        self.curves += 1;
    }

    fn close(&mut self) {}
}

/// `CharStringParser::temp` holds 48 values but a CFF2 arguments stack holds up to 513.
#[test]
fn repro_b4() {
    for (name, op, glyph_id) in [("hvcurveto", 0x1f_u8, 0_u16), ("vhcurveto", 0x1e, 1)] {
        // SourceSans3.abc.otf (CFF2) with the CharString of the glyph overwritten in place with:
        //
        //   0 0 rmoveto, 52 x `1`, hvcurveto/vhcurveto
        //
        // 52 operands = 4 + 8 * 6, a valid operand count for these operators. The rest of the
        // original CharString is filled with `0 hmoveto`/`0 0 rmoveto`, which draw nothing.
        let mut buffer = read_fixture("tests/fonts/opentype/cff2/SourceSans3.abc.otf");
        let (cff2_offset, cff2_length) = table_range(&buffer, tag::CFF2);
        let (char_string_offset, char_string_length) = {
            let table = ReadScope::new(&buffer[cff2_offset..cff2_offset + cff2_length])
                .read::<CFF2<'_>>()
                .unwrap();
            let char_string = table
                .char_strings_index
                .read_object(usize::from(glyph_id))
                .unwrap();
            (
                char_string.as_ptr() as usize - buffer.as_ptr() as usize,
                char_string.len(),
            )
        };

        let mut char_string = vec![0x8b, 0x8b, 0x15]; // 0 0 rmoveto
        char_string.extend(std::iter::repeat(0x8c).take(52)); // 52 x 1
        char_string.push(op);
        assert!(char_string.len() + 2 <= char_string_length);
        while char_string.len() < char_string_length {
            match char_string_length - char_string.len() {
                2 | 4 => char_string.extend_from_slice(&[0x8b, 0x16]), // 0 hmoveto
                _ => char_string.extend_from_slice(&[0x8b, 0x8b, 0x15]), // 0 0 rmoveto
            }
        }
        assert_eq!(char_string.len(), char_string_length);
        buffer[char_string_offset..char_string_offset + char_string_length]
            .copy_from_slice(&char_string);

        let table = ReadScope::new(&buffer[cff2_offset..cff2_offset + cff2_length])
            .read::<CFF2<'_>>()
            .expect("patched CFF2 table does not parse");
        let mut outlines = CFF2Outlines {
            table: &table,
            tuple: None,
        };
        let mut sink = Sink { curves: 0 };
        let res = outlines.visit(glyph_id, &mut sink);
        println!("{name}: visit -> {:?}, {} curves", res, sink.curves);
        assert!(res.is_ok());
        assert_eq!(sink.curves, 13);
    }
}
