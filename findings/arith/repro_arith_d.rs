// Reproductions for the font-reachable arithmetic overflow panics of audit group D (all fixed in /repo).
// Copy to /repo/tests/ and run `cargo test --offline --test repro_arith_d`: every site* test panicked
// ("attempt to ... with overflow") before the fixes and passes now. The #[should_panic] attributes of
// the audit version were removed.
// Reproductions for the arithmetic overflow audit, site list D.
//
// Every test drives the crate through its public API only and is expected to PANIC with an
// arithmetic overflow message when overflow checks are enabled (dev/test profile). Each test is
// marked `#[should_panic(expected = ...)]` so that `cargo test` passing means that the panic was
// observed. The `control_*` tests show that the un-mutated inputs do not panic.

use std::borrow::Cow;
use std::collections::HashMap;
use std::path::Path;

use allsorts::binary::read::ReadScope;
use allsorts::bitmap::cbdt::{CBDTTable, CBLCTable};
use allsorts::bitmap::BitDepth;
use allsorts::error::ParseError;
use allsorts::font_data::FontData;
use allsorts::tables::glyf::{GlyfTable, Point};
use allsorts::tables::loca::LocaTable;
use allsorts::tables::{Fixed, FontTableProvider, IndexToLocFormat};
use allsorts::tag;
use allsorts::variations::instance;
use allsorts::woff2::Woff2Font;

fn read_fixture<P: AsRef<Path>>(path: P) -> Vec<u8> {
    std::fs::read(Path::new(env!("CARGO_MANIFEST_DIR")).join(path)).expect("read fixture")
}

fn be16(v: &mut Vec<u8>, x: u16) {
    v.extend_from_slice(&x.to_be_bytes());
}

fn be32(v: &mut Vec<u8>, x: u32) {
    v.extend_from_slice(&x.to_be_bytes());
}

// ---------------------------------------------------------------------------------------------
// CBLC / CBDT (sites 4, 7, 8)
// ---------------------------------------------------------------------------------------------

/// Build a CBLC table with one strike covering glyph 1 and one index sub table whose body
/// (everything after the 8 byte IndexSubHeader) is `body`.
fn build_cblc(index_format: u16, image_format: u16, body: &[u8]) -> Vec<u8> {
    let mut t = Vec::new();
    be16(&mut t, 3); // majorVersion
    be16(&mut t, 0); // minorVersion
    be32(&mut t, 1); // numSizes

    // BitmapSize record (48 bytes), starts at offset 8
    let index_sub_table_array_offset = 8 + 48;
    be32(&mut t, index_sub_table_array_offset); // indexSubTableArrayOffset
    be32(&mut t, 8 + 8 + body.len() as u32); // indexTablesSize
    be32(&mut t, 1); // numberOfIndexSubTables
    be32(&mut t, 0); // colorRef
    t.extend_from_slice(&[0; 12]); // hori
    t.extend_from_slice(&[0; 12]); // vert
    be16(&mut t, 1); // startGlyphIndex
    be16(&mut t, 1); // endGlyphIndex
    t.push(16); // ppemX
    t.push(16); // ppemY
    t.push(32); // bitDepth
    t.push(1); // flags
    assert_eq!(t.len(), index_sub_table_array_offset as usize);

    // IndexSubTableArray: one record
    be16(&mut t, 1); // firstGlyphIndex
    be16(&mut t, 1); // lastGlyphIndex
    be32(&mut t, 8); // additionalOffsetToIndexSubtable (from indexSubTableArrayOffset)

    // IndexSubTable header
    be16(&mut t, index_format);
    be16(&mut t, image_format);
    be32(&mut t, 4); // imageDataOffset
    t.extend_from_slice(body);
    t
}

fn build_cbdt() -> Vec<u8> {
    let mut t = Vec::new();
    be16(&mut t, 3);
    be16(&mut t, 0);
    t.extend_from_slice(&[0; 64]);
    t
}

fn cblc_lookup(cblc_data: &[u8]) -> Result<bool, ParseError> {
    let cbdt_data = build_cbdt();
    let cblc = ReadScope::new(cblc_data).read::<CBLCTable<'_>>()?;
    let cbdt = ReadScope::new(&cbdt_data).read::<CBDTTable<'_>>()?;
    match cblc.find_strike(1, 16, BitDepth::ThirtyTwo) {
        Some(strike) => strike.bitmap(&cbdt).map(|bitmap| bitmap.is_some()),
        None => Ok(false),
    }
}

#[test]
fn control_cblc_format1_increasing_offsets() {
    // offsets[0] = 0, offsets[1] = 9: format 17 glyph: small metrics (5), data len (4)
    let mut body = Vec::new();
    be32(&mut body, 0);
    be32(&mut body, 9);
    assert_eq!(cblc_lookup(&build_cblc(1, 17, &body)).unwrap(), true);
}

// Site 4: src/bitmap/cbdt.rs:371 `let length = end - start;` (IndexSubTable format 1)
#[test]
fn site4_cblc_index_format1_decreasing_offsets() {
    let mut body = Vec::new();
    be32(&mut body, 10); // sbitOffsets[0]
    be32(&mut body, 5); // sbitOffsets[1] < sbitOffsets[0]
    let _ = cblc_lookup(&build_cblc(1, 17, &body));
}

// Site 7: src/bitmap/cbdt.rs:413 `let length = end - start;` (IndexSubTable format 3)
#[test]
fn site7_cblc_index_format3_decreasing_offsets() {
    let mut body = Vec::new();
    be16(&mut body, 10); // sbitOffsets[0]
    be16(&mut body, 5); // sbitOffsets[1] < sbitOffsets[0]
    let _ = cblc_lookup(&build_cblc(3, 17, &body));
}

// Site 8: src/bitmap/cbdt.rs:950 `num_glyphs + 1` (IndexSubTable format 4, u32)
#[test]
fn site8_cblc_index_format4_num_glyphs_max() {
    let mut body = Vec::new();
    be32(&mut body, 0xFFFF_FFFF); // numGlyphs
    let _ = cblc_lookup(&build_cblc(4, 17, &body));
}

// ---------------------------------------------------------------------------------------------
// glyf (sites 175, 176, 177, 178, 179)
// ---------------------------------------------------------------------------------------------

/// Wrap a single glyph in a `glyf` table with a long `loca` table and return the glyf table.
fn with_glyf_table<R>(glyph: &[u8], f: impl FnOnce(&mut GlyfTable<'_>) -> R) -> R {
    let mut loca_data = Vec::new();
    be32(&mut loca_data, 0);
    be32(&mut loca_data, glyph.len() as u32);
    let loca = ReadScope::new(&loca_data)
        .read_dep::<LocaTable<'_>>((1, IndexToLocFormat::Long))
        .expect("loca");
    let mut glyf = ReadScope::new(glyph)
        .read_dep::<GlyfTable<'_>>(&loca)
        .expect("glyf");
    f(&mut glyf)
}

/// A simple glyph with one contour with two points with the supplied (long) deltas.
fn simple_glyph_two_points(dx: [i16; 2], dy: [i16; 2]) -> Vec<u8> {
    let mut g = Vec::new();
    be16(&mut g, 1); // numberOfContours
    be16(&mut g, 0); // xMin
    be16(&mut g, 0); // yMin
    be16(&mut g, 0); // xMax
    be16(&mut g, 0); // yMax
    be16(&mut g, 1); // endPtsOfContours[0] => 2 points
    be16(&mut g, 0); // instructionLength
    g.push(0x01); // flags[0]: ON_CURVE, x and y are i16
    g.push(0x01); // flags[1]
    for x in dx {
        be16(&mut g, x as u16);
    }
    for y in dy {
        be16(&mut g, y as u16);
    }
    g
}

#[test]
fn control_glyf_simple_glyph() {
    let glyph = simple_glyph_two_points([100, 100], [100, 100]);
    with_glyf_table(&glyph, |glyf| {
        glyf.get_parsed_glyph(0).expect("glyph parses");
    });
}

// Site 175: src/tables/glyf.rs:528 `prev_point.0 + point.0`
#[test]
fn site175_glyf_simple_glyph_x_delta_sum() {
    let glyph = simple_glyph_two_points([32767, 1], [0, 0]);
    with_glyf_table(&glyph, |glyf| {
        let _ = glyf.get_parsed_glyph(0);
    });
}

// Site 176: src/tables/glyf.rs:528 `prev_point.1 + y`
#[test]
fn site176_glyf_simple_glyph_y_delta_sum() {
    let glyph = simple_glyph_two_points([0, 0], [-32768, -1]);
    with_glyf_table(&glyph, |glyf| {
        let _ = glyf.get_parsed_glyph(0);
    });
}

/// A composite glyph with `n` components.
fn composite_glyph(n: usize) -> Vec<u8> {
    let mut g = Vec::new();
    be16(&mut g, 0xFFFF); // numberOfContours = -1
    be16(&mut g, 0); // xMin
    be16(&mut g, 0); // yMin
    be16(&mut g, 0); // xMax
    be16(&mut g, 0); // yMax
    for i in 0..n {
        let more = if i + 1 < n { 0x0020 } else { 0 };
        be16(&mut g, 0x0002 | more); // ARGS_ARE_XY_VALUES [| MORE_COMPONENTS], byte args
        be16(&mut g, 0); // glyphIndex
        g.push(0); // argument1
        g.push(0); // argument2
    }
    g
}

#[test]
fn control_glyf_number_of_points_composite() {
    let glyph = composite_glyph(65535);
    with_glyf_table(&glyph, |glyf| {
        assert_eq!(glyf.records()[0].number_of_points().unwrap(), 65535);
    });
}

// Site 177: src/tables/glyf.rs:961 `count += 1` (u16) in GlyfRecord::number_of_points
#[test]
fn site177_glyf_number_of_points_65536_components() {
    let glyph = composite_glyph(65536);
    with_glyf_table(&glyph, |glyf| {
        let _ = glyf.records()[0].number_of_points();
    });
}

// Sites 178, 179: src/tables/glyf.rs:1120 `Point(x + x1, y + y1)` (pub `impl Add for Point`).
// There is no caller of this operator inside the crate; it can only be reached by a direct call.


// ---------------------------------------------------------------------------------------------
// WOFF2 transformed glyf table (sites 199, 200, 202, 203, 210, 218)
// ---------------------------------------------------------------------------------------------

struct TransformedGlyf {
    num_glyphs: u16,
    n_contour: Vec<u8>,
    n_points: Vec<u8>,
    flags: Vec<u8>,
    glyphs: Vec<u8>,
    composite: Vec<u8>,
    bbox: Vec<u8>,
    /// Override of the bboxStreamSize field
    bbox_stream_size: Option<u32>,
    instructions: Vec<u8>,
}

impl TransformedGlyf {
    /// One simple glyph with one contour, the points of which are given as (flag, bytes).
    fn one_simple_glyph(points: &[(u8, &[u8])]) -> Self {
        let mut n_contour = Vec::new();
        be16(&mut n_contour, 1);
        let n_points = vec![points.len() as u8];
        let flags = points.iter().map(|(flag, _)| *flag).collect();
        let mut glyphs = Vec::new();
        for (_, bytes) in points {
            glyphs.extend_from_slice(bytes);
        }
        glyphs.push(0); // instructionLength (255UInt16)
        TransformedGlyf {
            num_glyphs: 1,
            n_contour,
            n_points,
            flags,
            glyphs,
            composite: Vec::new(),
            bbox: vec![0; 4], // bboxBitmap for 1 glyph, no explicit bounding boxes
            bbox_stream_size: None,
            instructions: Vec::new(),
        }
    }

    fn build(&self) -> Vec<u8> {
        let mut t = Vec::new();
        be32(&mut t, 0); // version
        be16(&mut t, self.num_glyphs);
        be16(&mut t, 0); // indexFormat
        be32(&mut t, self.n_contour.len() as u32);
        be32(&mut t, self.n_points.len() as u32);
        be32(&mut t, self.flags.len() as u32);
        be32(&mut t, self.glyphs.len() as u32);
        be32(&mut t, self.composite.len() as u32);
        be32(
            &mut t,
            self.bbox_stream_size.unwrap_or(self.bbox.len() as u32),
        );
        be32(&mut t, self.instructions.len() as u32);
        t.extend_from_slice(&self.n_contour);
        t.extend_from_slice(&self.n_points);
        t.extend_from_slice(&self.flags);
        t.extend_from_slice(&self.glyphs);
        t.extend_from_slice(&self.composite);
        t.extend_from_slice(&self.bbox);
        t.extend_from_slice(&self.instructions);
        t
    }
}

/// Load the WOFF2 fixture, replace the content of its transformed glyf table (in the
/// decompressed table data block) with `glyf` and load all the tables of the font.
fn woff2_load_with_glyf(glyf: &[u8]) -> Result<(), String> {
    let buffer = read_fixture("tests/fonts/woff2/test-font.woff2");
    let mut woff = ReadScope::new(&buffer)
        .read::<Woff2Font<'_>>()
        .expect("woff2 fixture");
    let offset = woff.table_data_block.len();
    woff.table_data_block.extend_from_slice(glyf);
    let entry = woff
        .table_directory
        .iter_mut()
        .find(|entry| entry.tag == tag::GLYF)
        .expect("glyf entry");
    assert!(
        entry.transform_length.is_some(),
        "fixture glyf is transformed"
    );
    entry.offset = offset;
    entry.transform_length = Some(glyf.len() as u32);
    woff.table_provider(0)
        .map(|_| ())
        .map_err(|err| format!("{:?}", err))
}

#[test]
fn control_woff2_transformed_glyf() {
    // flag 127: 4 bytes, 16 bit x and 16 bit y, both positive
    let glyf = TransformedGlyf::one_simple_glyph(&[
        (127, &[0x00, 0x10, 0x00, 0x10]),
        (127, &[0x00, 0x10, 0x00, 0x10]),
    ]);
    woff2_load_with_glyf(&glyf.build()).expect("loads");
}

// Site 199: src/woff2.rs:363 `num_glyphs + 31` (u16)
#[test]
fn site199_woff2_num_glyphs_plus_31() {
    let mut glyf = TransformedGlyf::one_simple_glyph(&[(127, &[0, 1, 0, 1])]);
    glyf.num_glyphs = 0xFFE1; // 65505 + 31 = 65536
    glyf.bbox = vec![0; 8192];
    let _ = woff2_load_with_glyf(&glyf.build());
}

// Site 200: src/woff2.rs:365 `bbox_stream_size - bbox_bitmap_length`
#[test]
fn site200_woff2_bbox_stream_size_smaller_than_bitmap() {
    let mut glyf = TransformedGlyf::one_simple_glyph(&[(127, &[0, 1, 0, 1])]);
    glyf.bbox_stream_size = Some(0); // the bitmap for one glyph is 4 bytes
    let _ = woff2_load_with_glyf(&glyf.build());
}

// Site 202: src/woff2.rs:750 `prev_point.0 + point.0`
#[test]
fn site202_woff2_simple_glyph_x_delta_sum() {
    let glyf = TransformedGlyf::one_simple_glyph(&[
        (127, &[0x7F, 0xFF, 0x00, 0x00]),
        (127, &[0x7F, 0xFF, 0x00, 0x00]),
    ]);
    let _ = woff2_load_with_glyf(&glyf.build());
}

// Site 203: src/woff2.rs:750 `prev_point.1 + point.1`
#[test]
fn site203_woff2_simple_glyph_y_delta_sum() {
    let glyf = TransformedGlyf::one_simple_glyph(&[
        (127, &[0x00, 0x00, 0x7F, 0xFF]),
        (127, &[0x00, 0x00, 0x7F, 0xFF]),
    ]);
    let _ = woff2_load_with_glyf(&glyf.build());
}

// Site 210: src/woff2/lut.rs:35 `-(dx as i16)` with dx == 0x8000
#[test]
fn site210_woff2_triplet_dx_negate_min() {
    // flag 126: 4 bytes, 16 bit x (negative) and 16 bit y (positive)
    let glyf = TransformedGlyf::one_simple_glyph(&[(126, &[0x80, 0x00, 0x00, 0x00])]);
    let _ = woff2_load_with_glyf(&glyf.build());
}

// Site 218: src/woff2/lut.rs:47 `-(dy as i16)` with dy == 0x8000
#[test]
fn site218_woff2_triplet_dy_negate_min() {
    // flag 125: 4 bytes, 16 bit x (positive) and 16 bit y (negative)
    let glyf = TransformedGlyf::one_simple_glyph(&[(125, &[0x00, 0x00, 0x80, 0x00])]);
    let _ = woff2_load_with_glyf(&glyf.build());
}

// ---------------------------------------------------------------------------------------------
// Phantom points when instancing a variable font (sites 167 - 172)
// ---------------------------------------------------------------------------------------------

struct PatchedProvider {
    tables: HashMap<u32, Vec<u8>>,
}

impl FontTableProvider for PatchedProvider {
    fn table_data(&self, tag: u32) -> Result<Option<Cow<'_, [u8]>>, ParseError> {
        Ok(self
            .tables
            .get(&tag)
            .map(|data| Cow::Borrowed(data.as_slice())))
    }

    fn has_table(&self, tag: u32) -> bool {
        self.tables.contains_key(&tag)
    }

    fn table_tags(&self) -> Option<Vec<u32>> {
        Some(self.tables.keys().copied().collect())
    }
}

fn rd16(data: &[u8], offset: usize) -> u16 {
    u16::from_be_bytes([data[offset], data[offset + 1]])
}

fn rd32(data: &[u8], offset: usize) -> u32 {
    u32::from_be_bytes([
        data[offset],
        data[offset + 1],
        data[offset + 2],
        data[offset + 3],
    ])
}

fn wr16(data: &mut [u8], offset: usize, value: i16) {
    data[offset..offset + 2].copy_from_slice(&value.to_be_bytes());
}

#[derive(Default)]
struct PhantomPatch {
    /// (xMin, yMax) to set in the header of every non-empty glyph
    bbox: Option<(i16, i16)>,
    /// (advanceWidth, lsb) for every glyph
    hmtx: Option<(u16, i16)>,
    /// (sTypoAscender, sTypoDescender)
    os2: Option<(i16, i16)>,
    /// (advanceHeight, tsb) for every glyph; adds vhea and vmtx tables
    vmtx: Option<(u16, i16)>,
}

fn instance_with_patch(patch: PhantomPatch) -> Result<(), String> {
    let buffer = read_fixture("tests/fonts/variable/UnderlineTest-VF.ttf");
    let font_file = ReadScope::new(&buffer)
        .read::<FontData<'_>>()
        .expect("font data");
    let provider = font_file.table_provider(0).expect("provider");
    let mut tables = HashMap::new();
    for tag in provider.table_tags().expect("tags") {
        let data = provider.read_table_data(tag).expect("table data");
        tables.insert(tag, data.into_owned());
    }
    assert!(!tables.contains_key(&tag::VMTX));
    assert!(!tables.contains_key(&tag::VHEA));

    let num_glyphs = usize::from(rd16(&tables[&tag::MAXP], 4));

    if let Some((x_min, y_max)) = patch.bbox {
        let long = rd16(&tables[&tag::HEAD], 50) == 1;
        let loca = tables[&tag::LOCA].clone();
        let offset_of = |i: usize| -> usize {
            if long {
                rd32(&loca, i * 4) as usize
            } else {
                usize::from(rd16(&loca, i * 2)) * 2
            }
        };
        let glyf = tables.get_mut(&tag::GLYF).unwrap();
        let mut patched = 0;
        for i in 0..num_glyphs {
            let (start, end) = (offset_of(i), offset_of(i + 1));
            if end > start {
                wr16(glyf, start + 2, x_min); // xMin
                wr16(glyf, start + 8, y_max); // yMax
                patched += 1;
            }
        }
        assert!(patched > 0);
    }

    if let Some((advance_width, lsb)) = patch.hmtx {
        let mut hmtx = Vec::new();
        for _ in 0..num_glyphs {
            be16(&mut hmtx, advance_width);
            be16(&mut hmtx, lsb as u16);
        }
        tables.insert(tag::HMTX, hmtx);
        let hhea = tables.get_mut(&tag::HHEA).unwrap();
        wr16(hhea, 34, num_glyphs as i16); // numberOfHMetrics
    }

    if let Some((ascender, descender)) = patch.os2 {
        let os2 = tables.get_mut(&tag::OS_2).unwrap();
        assert!(os2.len() >= 78);
        wr16(os2, 68, ascender); // sTypoAscender
        wr16(os2, 70, descender); // sTypoDescender
    }

    if let Some((advance_height, tsb)) = patch.vmtx {
        let mut vhea = vec![0u8; 36];
        wr16(&mut vhea, 0, 1); // major version
        wr16(&mut vhea, 34, num_glyphs as i16); // numOfLongVerMetrics
        tables.insert(tag::VHEA, vhea);
        let mut vmtx = Vec::new();
        for _ in 0..num_glyphs {
            be16(&mut vmtx, advance_height);
            be16(&mut vmtx, tsb as u16);
        }
        tables.insert(tag::VMTX, vmtx);
    }

    let provider = PatchedProvider { tables };
    let user_tuple = [Fixed::from(500), Fixed::from(500)];
    instance(&provider, &user_tuple)
        .map(|_| ())
        .map_err(|err| format!("{:?}", err))
}

#[test]
fn control_instance_unpatched() {
    instance_with_patch(PhantomPatch::default()).expect("instance");
}

#[test]
fn control_instance_benign_patches() {
    instance_with_patch(PhantomPatch {
        bbox: Some((10, 700)),
        hmtx: Some((600, 10)),
        os2: Some((800, -200)),
        vmtx: Some((1000, 100)),
    })
    .expect("instance");
}

// Site 167: src/tables/glyf.rs:381 `x_min - horizonal_metrics.lsb`
#[test]
fn site167_phantom_points_x_min_minus_lsb() {
    let _ = instance_with_patch(PhantomPatch {
        hmtx: Some((600, i16::MIN)), // 0 - (-32768) for an empty glyph, worse for others
        bbox: Some((0, 0)),
        ..Default::default()
    });
}

// Site 168: src/tables/glyf.rs:382 `pp1.0 + advance_width`
#[test]
fn site168_phantom_points_pp1_plus_advance_width() {
    let _ = instance_with_patch(PhantomPatch {
        hmtx: Some((32767, -1)), // pp1 = 0 - -1 = 1; 1 + 32767
        bbox: Some((0, 0)),
        ..Default::default()
    });
}

// Site 169: src/tables/glyf.rs:397 `default_ascender - default_descender`
#[test]
fn site169_phantom_points_ascender_minus_descender() {
    let _ = instance_with_patch(PhantomPatch {
        hmtx: Some((600, 0)),
        bbox: Some((0, 0)),
        os2: Some((32767, -1)),
        ..Default::default()
    });
}

// Site 170: src/tables/glyf.rs:398 `default_ascender - y_max`
#[test]
fn site170_phantom_points_ascender_minus_y_max() {
    let _ = instance_with_patch(PhantomPatch {
        hmtx: Some((600, 0)),
        bbox: Some((0, -1)),
        os2: Some((32767, 0)),
        ..Default::default()
    });
}

// Site 171: src/tables/glyf.rs:404 `y_max + tsb` (tsb from vmtx)
#[test]
fn site171_phantom_points_y_max_plus_tsb() {
    let _ = instance_with_patch(PhantomPatch {
        hmtx: Some((600, 0)),
        bbox: Some((0, 1)),
        vmtx: Some((0, 32767)),
        ..Default::default()
    });
}

// Site 172: src/tables/glyf.rs:405 `pp3.1 - advance_height` (from vmtx)
#[test]
fn site172_phantom_points_pp3_minus_advance_height() {
    let _ = instance_with_patch(PhantomPatch {
        hmtx: Some((600, 0)),
        bbox: Some((0, 0)),
        vmtx: Some((1, i16::MIN)), // pp3.1 = 0 + -32768; -32768 - 1
        ..Default::default()
    });
}
