#!/usr/bin/env python3
"""Re-run the demonstrations of kept seeds on the current /repo HEAD (in a scratch worktree): the demo must pass without
the patch and fail with it. Cheaper than tools/confirm_seed.py (no full suite); used after repairs to /repo to find
seeds whose patch or demo went stale.   usage: recheck_demos.py <scratch worktree> <seed dir> [...]   -> JSON lines"""
import json
import os
import re
import subprocess
import sys


def sh(cmd, cwd, timeout=1500):
    env = dict(os.environ, CARGO_NET_OFFLINE="true")
    try:
        r = subprocess.run(cmd, cwd=cwd, env=env, stdout=subprocess.PIPE, stderr=subprocess.STDOUT, text=True, timeout=timeout)
        return r.returncode, r.stdout
    except subprocess.TimeoutExpired as e:
        return 124, (e.stdout or "") + "\nTIMEOUT"


def main():
    wt = os.path.abspath(sys.argv[1])
    for sd in sys.argv[2:]:
        sd = sd.rstrip("/")
        demo = os.path.join(sd, "demo.rs")
        patch = os.path.join(sd, "patch.diff")
        res = {"seed": os.path.basename(sd)}
        if not os.path.isfile(demo) or not os.path.isfile(patch):
            res["skipped"] = "no demo or patch"
            print(json.dumps(res), flush=True)
            continue
        sh(["git", "reset", "-q", "--hard"], wt)
        for f in os.listdir(os.path.join(wt, "tests")):
            if f.startswith("demo_"):
                os.remove(os.path.join(wt, "tests", f))
        name = "demo_" + re.sub(r"\W", "_", os.path.basename(sd))
        src = open(demo).read()
        feats = ["--features", "prince"] if ("feature = \"prince\"" in src or "prince" in (open(os.path.join(sd, "README.md")).read() if os.path.isfile(os.path.join(sd, "README.md")) else "") and "--features prince" in open(os.path.join(sd, "README.md")).read()) else []
        open(os.path.join(wt, "tests", name + ".rs"), "w").write(src)
        rc, out = sh(["cargo", "test", "--offline", "--test", name] + feats, wt)
        res["clean"] = "pass" if rc == 0 and "test result: ok" in out else "FAIL"
        if res["clean"] == "FAIL":
            res["clean_tail"] = out[-600:]
        rc, out = sh(["git", "apply", patch], wt)
        if rc != 0:
            res["apply"] = "FAIL"
        else:
            rc, out = sh(["cargo", "test", "--offline", "--test", name] + feats, wt)
            compiled = "error: could not compile" not in out
            res["patched"] = "fails" if (rc != 0 and compiled) else ("DOES NOT COMPILE" if not compiled else "PASSES")
        res["ok"] = res.get("clean") == "pass" and res.get("patched") == "fails"
        print(json.dumps(res), flush=True)
        sh(["git", "reset", "-q", "--hard"], wt)
        os.remove(os.path.join(wt, "tests", name + ".rs"))


if __name__ == "__main__":
    main()
