"""Rule "zip alignment": Iterator::zip pairs two sequences position by position. When exactly one side has passed through an
adaptor that changes which positions survive (filter, filter_map, flatten, flat_map, skip, skip_while, take_while, step_by),
the pairs no longer line up with the parallel tables they come from (deltas with regions, components with deltas, scalars
with deltas). A zip whose two sides differ in such adaptors is a violation; both sides filtered alike, or none, is fine."""
import sym
from facts import op_local

# calls that change the order of a collection in place, through a mutable reference (calls that add or remove elements are how
# collections are built and are not counted)
REORDERING = ("::sort", "::sort_by", "::sort_by_key", "::sort_unstable", "::sort_unstable_by", "::sort_unstable_by_key", "::sort_by_cached_key",
              "::reverse", "::rotate_left", "::rotate_right", "::swap", "::rev")


def _defs(b, l):
    out = []
    for bi in range(len(b.blocks)):
        if not b.reachable(bi):
            continue
        for st in b.stmts(bi):
            if st["k"] == "assign" and st["p"]["l"] == l and not st["p"]["p"]:
                out.append(("s", st))
        t = b.term(bi)
        if t["k"] == "call" and t.get("dest") and t["dest"]["l"] == l and not t["dest"]["p"]:
            out.append(("c", t))
    return out


def _chain_locals(b, op, through_calls=True, depth=0, seen=None):
    """locals the operand's value passed through: its own local and, transitively over every definition of each local, the source of a
    move / copy / cast / borrow / projection and (with through_calls) the first argument of a defining call - the receiver of an adaptor,
    the collection an iterator was made from, the Result a `?` unwrapped"""
    seen = set() if seen is None else seen
    # the base local of the operand's place: a projection (`(_7 as Continue).0`, `(*_3).records`) still comes from that local
    l = op["p"]["l"] if op and op.get("k") in ("copy", "move") else None
    if l is None or l in seen or depth > 40:
        return seen
    seen.add(l)
    if l <= b.arg_count:
        return seen
    for kind, d in _defs(b, l):
        if kind == "c":
            reborrow = str(d["callee"].get("path") or "").endswith(("Deref::deref", "DerefMut::deref_mut", "::as_mut_slice", "::as_mut", "::as_slice",
                                                                    "IndexMut::index_mut", "Index::index", "BorrowMut::borrow_mut"))
            if through_calls or reborrow:
                for a in d["args"][:1]:
                    _chain_locals(b, a, through_calls, depth + 1, seen)
        else:
            rv = d["rv"]
            if rv["k"] in ("use", "cast"):
                _chain_locals(b, rv["op"], through_calls, depth + 1, seen)
            elif rv["k"] in ("ref", "rawptr"):
                _chain_locals(b, {"k": "copy", "p": {"l": rv["p"]["l"], "p": []}}, through_calls, depth + 1, seen)
    return seen


def chain_calls(b, op):
    """(locals on the provenance chain of the operand, callee paths of the calls that define them)"""
    chain = _chain_locals(b, op)
    names = set()
    for l in chain:
        for kind, d in _defs(b, l):
            if kind == "c":
                names.add(str(d["callee"].get("path") or ""))
    return chain, names


def reordered(b, op):
    """names of the in-place reordering calls applied, anywhere in the body, to a collection that the operand's value was made from:
    the call's receiver borrows (directly, through re-borrows only) a local on the operand's provenance chain. A sort of a copy does not
    reorder the collection the copy was taken from, so the receiver is not followed through calls"""
    chain = _chain_locals(b, op)
    out = set()
    for bi, t in b.calls():
        p = t["callee"].get("path") or ""
        if not p.endswith(REORDERING) or not t["args"]:
            continue
        recv = {l for l in _chain_locals(b, t["args"][0], through_calls=False) if l > b.arg_count}
        if recv & chain:
            out.add(p.split("::")[-1])
    return sorted(out)


SHIFTING = ("Iterator::filter", "Iterator::flatten", "Iterator::filter_map", "Iterator::skip_while", "Iterator::take_while",
            "Iterator::step_by", "Iterator::flat_map", "Iterator::skip")


def rule_zip(run, fx, rule, select=None, floors=True, floor_n=1):
    run.rule(rule, "every Iterator::zip pairs sequences that were shortened or filtered alike: an adaptor that drops or skips elements "
                   "(filter, filter_map, flatten, flat_map, skip, skip_while, take_while, step_by) on one side only shifts the pairing of "
                   "parallel tables (regions and scalars, components and deltas, points and deltas)")
    n = 0
    for b in fx.bodies:
        if b.exp or (select and not select(b)):
            continue
        prov = None
        for bi, t in b.calls():
            p = t["callee"].get("path") or ""
            if not p.endswith("Iterator::zip") or len(t["args"]) != 2:
                continue
            n += 1
            prov = prov or sym.Prov(b)
            sides = []
            for a in t["args"]:
                tm = prov.op(a)
                sides.append(sorted({(x[4] or x[1] or "").split("::")[-1] for x in sym.walk(tm) if x[0] == "call" and (x[4] or x[1] or "").endswith(SHIFTING)}))
            orders = [reordered(b, a) for a in t["args"]]
            if orders[0] != orders[1]:
                run.fail(rule, "zip-order:%s" % b.root, "%s zips a sequence whose collection was reordered in place (%s) with one that was not (%s): element k of one side no "
                         "longer belongs to element k of the other" % (b.path, orders[0] or "nothing", orders[1] or "nothing"), b.loc(t))
                continue
            if sides[0] != sides[1]:
                run.fail(rule, "zip:%s" % b.root, "%s zips a sequence that went through %s with one that went through %s: the pairs are shifted against each other "
                         "whenever an element is dropped" % (b.path, sides[0] or "no dropping adaptor", sides[1] or "no dropping adaptor"), b.loc(t))
            else:
                run.ok(rule, "%s: zip of equally shaped sequences" % b.path)
    if floors:
        run.floor(rule, "zip calls examined", n, floor_n)
    return n
