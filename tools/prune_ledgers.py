#!/usr/bin/env python3
"""Tighten the audited ledgers to what the rules use on the current /repo tree.

A ledger key carries a count (how many sites of that function the audit covered). When a site is repaired,
or a rule learns to discharge it itself, the count is left too high and a NEW site in that function would
be absorbed silently. This tool runs every rules module on all three feature configurations, records for
every ledger key the largest number of uses in any one (check, configuration), and rewrites the ledgers with
count = that maximum (entries never used are dropped).

  tools/prune_ledgers.py            report only
  tools/prune_ledgers.py --write    rewrite ledger/*.jsonl"""
import collections
import importlib
import json
import os
import sys

HERE = os.path.dirname(os.path.dirname(os.path.abspath(__file__)))
sys.path.insert(0, os.path.join(HERE, "engine", "rules"))


def main():
    import core
    import extract
    import facts as F
    props = sorted(f[len("rules_"):-3] for f in os.listdir(os.path.join(HERE, "engine", "rules")) if f.startswith("rules_C"))
    mods = {p: importlib.import_module("rules_" + p) for p in props}
    usage = collections.defaultdict(collections.Counter)    # ledger -> key -> max uses
    for cfg in ("prince", "default", "nooutline"):
        fx = F.Facts(extract.repo_facts(cfg))
        for p in props:
            run = core.Run(p, "thorough")
            run.set_config(cfg)
            mods[p].check(run, fx, "thorough")
            if run.violations:
                print("NOTE %s [%s]: %d violation(s) - fix those first" % (p, cfg, len(run.violations)))
            for name, led in run.ledgers.items():
                for k, v in led.used.items():
                    usage[name][k] = max(usage[name][k], v)
    changed = 0
    for name in sorted(os.listdir(os.path.join(HERE, "ledger"))):
        if not name.endswith(".jsonl"):
            continue
        lname = name[:-6]
        path = os.path.join(HERE, "ledger", name)
        rows = [json.loads(l) for l in open(path) if l.strip()]
        if lname not in usage:
            print("%s: not loaded by any rule, left alone (%d entries)" % (lname, len(rows)))
            continue
        out = []
        for e in rows:
            used = usage[lname].get(e["key"], 0)
            cnt = e.get("count", 1)
            if used == 0:
                print("%s: DROP  %s (count %d, never used)" % (lname, e["key"], cnt))
                changed += 1
                continue
            if used < cnt:
                print("%s: LOWER %s %d -> %d" % (lname, e["key"], cnt, used))
                e["count"] = used
                changed += 1
            out.append(e)
        if "--write" in sys.argv:
            with open(path, "w") as f:
                for e in out:
                    f.write(json.dumps(e) + "\n")
    print("%d change(s)%s" % (changed, "" if "--write" in sys.argv else " (dry run)"))


if __name__ == "__main__":
    main()
