// Reproduction: the 2x2 transform and the SCALED_COMPONENT_OFFSET flag of composite glyph components.
//
// A. WE_HAVE_A_TWO_BY_TWO stores xscale, scale01, scale10, yscale (in that order). The TrueType
//    reference manual assigns them to a, b, c, d with
//
//        x' = a*x + c*y + e        y' = b*x + d*y + f
//
//    (FreeType reads them as xx, yx, xy, yy; ttf-parser and fontTools agree), so the second value
//    (scale01) is the contribution of x to y'.
//
// B. With SCALED_COMPONENT_OFFSET (0x0800) the offset is in the component's coordinate system and
//    the scale is applied to it too: p -> M * (p + offset). `CompositeGlyph::calculate_bounding_box`
//    implements that; the outline has to agree with it.
//
// The glyf and loca tables below are assembled by hand and only the public API is used.

use allsorts::binary::read::ReadScope;
use allsorts::outline::{OutlineBuilder, OutlineSink};
use allsorts::pathfinder_geometry::line_segment::LineSegment2F;
use allsorts::pathfinder_geometry::vector::Vector2F;
use allsorts::tables::glyf::GlyfTable;
use allsorts::tables::loca::LocaTable;
use allsorts::tables::IndexToLocFormat;

#[derive(Default)]
struct Recorder {
    commands: Vec<String>,
}

impl OutlineSink for Recorder {
    fn move_to(&mut self, to: Vector2F) {
        self.commands.push(format!("M {} {}", to.x(), to.y()));
    }

    fn line_to(&mut self, to: Vector2F) {
        self.commands.push(format!("L {} {}", to.x(), to.y()));
    }

    fn quadratic_curve_to(&mut self, ctrl: Vector2F, to: Vector2F) {
        self.commands
            .push(format!("Q {} {} {} {}", ctrl.x(), ctrl.y(), to.x(), to.y()));
    }

    fn cubic_curve_to(&mut self, ctrl: LineSegment2F, to: Vector2F) {
        self.commands.push(format!(
            "C {} {} {} {} {} {}",
            ctrl.from_x(),
            ctrl.from_y(),
            ctrl.to_x(),
            ctrl.to_y(),
            to.x(),
            to.y()
        ));
    }

    fn close(&mut self) {
        self.commands.push("Z".to_string());
    }
}

// Simple glyph: one contour, three on-curve points (0,0) (100,0) (50,100).
#[rustfmt::skip]
const TRIANGLE: &[u8] = &[
    0x00, 0x01,             // numberOfContours
    0x00, 0x00, 0x00, 0x00, // xMin, yMin
    0x00, 0x64, 0x00, 0x64, // xMax, yMax
    0x00, 0x02,             // endPtsOfContours
    0x00, 0x00,             // instructionLength
    0x31,                   // pt 0: on curve | x same | y same
    0x33,                   // pt 1: on curve | x short, positive | y same
    0x27,                   // pt 2: on curve | x short, negative | y short, positive
    0x64, 0x32,             // x deltas: +100, -50
    0x64,                   // y deltas: +100
];


const ARG_1_AND_2_ARE_WORDS: u16 = 0x0001;
const ARGS_ARE_XY_VALUES: u16 = 0x0002;
const WE_HAVE_A_SCALE: u16 = 0x0008;
const WE_HAVE_A_TWO_BY_TWO: u16 = 0x0080;
const SCALED_COMPONENT_OFFSET: u16 = 0x0800;
const UNSCALED_COMPONENT_OFFSET: u16 = 0x1000;

const ONE: i16 = 0x4000; // 1.0 as F2Dot14
const HALF: i16 = 0x2000; // 0.5 as F2Dot14

// Composite glyph with one component. The bounding box is not used when visiting the outline.
fn composite(extra_flags: u16, glyph_index: u16, dx: i16, dy: i16, transform: &[i16]) -> Vec<u8> {
    let mut data = Vec::new();
    data.extend_from_slice(&(-1i16).to_be_bytes()); // numberOfContours
    data.extend_from_slice(&[0; 8]); // xMin, yMin, xMax, yMax
    let flags = ARG_1_AND_2_ARE_WORDS | ARGS_ARE_XY_VALUES | extra_flags;
    data.extend_from_slice(&flags.to_be_bytes());
    data.extend_from_slice(&glyph_index.to_be_bytes());
    data.extend_from_slice(&dx.to_be_bytes());
    data.extend_from_slice(&dy.to_be_bytes());
    for value in transform {
        data.extend_from_slice(&value.to_be_bytes());
    }
    data
}

/// Returns (glyf, loca) with a long format loca.
fn build_tables() -> (Vec<u8>, Vec<u8>) {
    let glyphs: Vec<Vec<u8>> = vec![
        // 0: .notdef, empty
        Vec::new(),
        // 1: the triangle (0,0) (100,0) (50,100)
        TRIANGLE.to_vec(),
        // 2: xscale 1, scale01 0.5, scale10 0, yscale 1: x' = x, y' = 0.5x + y
        composite(WE_HAVE_A_TWO_BY_TWO, 1, 0, 0, &[ONE, HALF, 0, ONE]),
        // 3: xscale 1, scale01 0, scale10 0.5, yscale 1: x' = x + 0.5y, y' = y
        composite(WE_HAVE_A_TWO_BY_TWO, 1, 0, 0, &[ONE, 0, HALF, ONE]),
        // 4: control, diagonal matrix: x' = 0.5x, y' = y
        composite(WE_HAVE_A_TWO_BY_TWO, 1, 0, 0, &[HALF, 0, 0, ONE]),
        // 5: scale 0.5, offset (100, 40) in the component's coordinate system
        composite(WE_HAVE_A_SCALE | SCALED_COMPONENT_OFFSET, 1, 100, 40, &[HALF]),
        // 6: control, scale 0.5, offset (100, 40) explicitly unscaled
        composite(WE_HAVE_A_SCALE | UNSCALED_COMPONENT_OFFSET, 1, 100, 40, &[HALF]),
        // 7: control, scale 0.5, offset (100, 40), neither flag: default is unscaled
        composite(WE_HAVE_A_SCALE, 1, 100, 40, &[HALF]),
        // 8: control, both flags (invalid): default is unscaled
        composite(
            WE_HAVE_A_SCALE | SCALED_COMPONENT_OFFSET | UNSCALED_COMPONENT_OFFSET,
            1,
            100,
            40,
            &[HALF],
        ),
        // 9: control, scaled offset without a scale: just translated
        composite(SCALED_COMPONENT_OFFSET, 1, 100, 40, &[]),
    ];

    let mut glyf = Vec::new();
    let mut loca = Vec::new();
    for glyph in &glyphs {
        loca.extend_from_slice(&(glyf.len() as u32).to_be_bytes());
        glyf.extend_from_slice(glyph);
        while glyf.len() % 4 != 0 {
            glyf.push(0);
        }
    }
    loca.extend_from_slice(&(glyf.len() as u32).to_be_bytes());
    (glyf, loca)
}

const NUM_GLYPHS: usize = 10;

fn outline(glyph_index: u16) -> Vec<String> {
    let (glyf_data, loca_data) = build_tables();
    let loca = ReadScope::new(&loca_data)
        .read_dep::<LocaTable<'_>>((NUM_GLYPHS, IndexToLocFormat::Long))
        .expect("unable to read loca");
    let mut glyf = ReadScope::new(&glyf_data)
        .read_dep::<GlyfTable<'_>>(&loca)
        .expect("unable to read glyf");
    assert_eq!(usize::from(glyf.num_glyphs()), NUM_GLYPHS);
    let mut recorder = Recorder::default();
    glyf.visit(glyph_index, &mut recorder)
        .expect("unable to visit glyph");
    recorder.commands
}

#[test]
fn control_simple_glyph() {
    assert_eq!(outline(1), vec!["M 0 0", "L 100 0", "L 50 100", "Z"]);
}

#[test]
fn two_by_two_scale01_moves_y_by_x() {
    // x' = x, y' = 0.5x + y
    assert_eq!(outline(2), vec!["M 0 0", "L 100 50", "L 50 125", "Z"]);
}

#[test]
fn two_by_two_scale10_moves_x_by_y() {
    // x' = x + 0.5y, y' = y
    assert_eq!(outline(3), vec!["M 0 0", "L 100 0", "L 100 100", "Z"]);
}

#[test]
fn control_two_by_two_diagonal() {
    assert_eq!(outline(4), vec!["M 0 0", "L 50 0", "L 25 100", "Z"]);
}

#[test]
fn scaled_component_offset_is_scaled() {
    // 0.5 * (p + (100, 40))
    assert_eq!(outline(5), vec!["M 50 20", "L 100 20", "L 75 70", "Z"]);
}

#[test]
fn control_unscaled_component_offset() {
    // 0.5 * p + (100, 40)
    assert_eq!(outline(6), vec!["M 100 40", "L 150 40", "L 125 90", "Z"]);
}

#[test]
fn control_default_component_offset_is_unscaled() {
    assert_eq!(outline(7), vec!["M 100 40", "L 150 40", "L 125 90", "Z"]);
}

#[test]
fn control_both_offset_flags_is_unscaled() {
    assert_eq!(outline(8), vec!["M 100 40", "L 150 40", "L 125 90", "Z"]);
}

#[test]
fn control_scaled_offset_without_scale() {
    assert_eq!(outline(9), vec!["M 100 40", "L 200 40", "L 150 140", "Z"]);
}
