//! Minimal JSON value + writer (no dependencies).
use std::fmt::Write;

#[derive(Clone, Debug)]
pub enum J {
    Null,
    Bool(bool),
    Int(i128),
    Str(String),
    Arr(Vec<J>),
    Obj(Vec<(&'static str, J)>),
}

impl J {
    pub fn s<S: Into<String>>(s: S) -> J {
        J::Str(s.into())
    }
    pub fn opt_s(s: Option<String>) -> J {
        match s {
            Some(s) => J::Str(s),
            None => J::Null,
        }
    }
    pub fn u(n: usize) -> J {
        J::Int(n as i128)
    }
    pub fn write(&self, out: &mut String) {
        match self {
            J::Null => out.push_str("null"),
            J::Bool(b) => out.push_str(if *b { "true" } else { "false" }),
            J::Int(i) => {
                // JSON numbers beyond 2^63 are kept as strings to be safe for readers.
                if *i > i64::MAX as i128 || *i < i64::MIN as i128 {
                    let _ = write!(out, "\"{}\"", i);
                } else {
                    let _ = write!(out, "{}", i);
                }
            }
            J::Str(s) => write_str(s, out),
            J::Arr(v) => {
                out.push('[');
                for (i, x) in v.iter().enumerate() {
                    if i > 0 {
                        out.push(',');
                    }
                    x.write(out);
                }
                out.push(']');
            }
            J::Obj(v) => {
                out.push('{');
                for (i, (k, x)) in v.iter().enumerate() {
                    if i > 0 {
                        out.push(',');
                    }
                    write_str(k, out);
                    out.push(':');
                    x.write(out);
                }
                out.push('}');
            }
        }
    }
}

fn write_str(s: &str, out: &mut String) {
    out.push('"');
    for c in s.chars() {
        match c {
            '"' => out.push_str("\\\""),
            '\\' => out.push_str("\\\\"),
            '\n' => out.push_str("\\n"),
            '\r' => out.push_str("\\r"),
            '\t' => out.push_str("\\t"),
            c if (c as u32) < 0x20 => {
                let _ = write!(out, "\\u{:04x}", c as u32);
            }
            c => out.push(c),
        }
    }
    out.push('"');
}
