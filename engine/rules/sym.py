"""Symbolic terms over MIR: provenance of operands (backward, single-definition) and a
straight-line symbolic executor (forward, order sensitive) for small kernels."""
from facts import place_str, op_local

WRAPPERS_IDENTITY = (
    "std::convert::From::from", "std::convert::Into::into", "std::clone::Clone::clone",
    "std::borrow::Borrow::borrow", "std::convert::AsRef::as_ref", "std::ops::Deref::deref",
)


def const_term(op):
    if "fn" in op:
        return ("fn", op["fn"])
    if op.get("uneval"):
        if op.get("promoted") is not None:
            # a promoted constant: identified by the statements of its promoted body
            return ("promoted", tuple(op.get("pstmts") or ()), op.get("ty"))
        return ("uneval", op["uneval"], tuple(op.get("uneval_args") or ()))
    return ("c", op.get("val"), op.get("ty"), op.get("s"))


class Prov:
    """backward provenance inside one body: follows locals that have exactly one definition"""

    def __init__(self, body, max_depth=40):
        self.b = body
        self.max_depth = max_depth
        self.cache = {}

    def op(self, op, depth=0):
        if op is None:
            return ("?",)
        if op["k"] == "const":
            return const_term(op)
        if op["k"] in ("copy", "move"):
            return self.place(op["p"], depth)
        return ("?",)

    def place(self, p, depth=0):
        base = self.local(p["l"], depth)
        for e in p["p"]:
            if e == "*":
                if base[0] == "ref":
                    base = base[1]
                else:
                    base = ("deref", base)
            elif "f" in e:
                # field of an overflow-checked arithmetic pair: .0 is the value
                if base[0] == "bin" and base[1].endswith("WithOverflow"):
                    if e["f"] == 0:
                        base = ("bin", base[1][:-len("WithOverflow")], base[2], base[3])
                    else:
                        base = ("ovf", base)
                elif base[0] == "agg" and e["f"] < len(base[3]) and base[1] in ("tuple",):
                    base = base[3][e["f"]]
                else:
                    base = ("field", base, e.get("n") if e.get("n") is not None else e["f"])
            elif "d" in e:
                base = ("variant", base, e.get("n") or e["d"])
            elif "i" in e:
                base = ("index", base, self.local(e["i"], depth + 1))
            elif "ci" in e:
                base = ("cindex", base, e["ci"], e.get("fe", False))
            else:
                base = ("proj?", base)
        return base

    def local(self, l, depth=0):
        if l in self.cache:
            return self.cache[l]
        b = self.b
        if depth > self.max_depth:
            return ("local", l)
        if 1 <= l <= b.arg_count:
            ds = b.defs().get(l, [])
            if not ds:
                t = ("arg", l, b.local_name(l))
                self.cache[l] = t
                return t
            # a parameter that is also assigned in the body has (at least) two definitions: its value on
            # entry and the assignment. Never look through it: reads are told apart by their SSA version.
            if any(d[2] in ("assign", "call") for d in ds):
                t = ("local", l, b.local_name(l))
                self.cache[l] = t
                return t
        d = b.single_def(l)
        if d is None:
            t = ("local", l, b.local_name(l))
            self.cache[l] = t
            return t
        self.cache[l] = ("local", l, b.local_name(l))  # cycle guard
        bb, idx, kind, item = d
        if kind == "assign":
            t = self.rvalue(item["rv"], depth + 1)
            # a single-definition copy of a multi-definition local m is a *snapshot* of m at the copy.
            # When exactly one definition of m reaches the copy, the snapshot is named by that
            # SSA version (two snapshots with the same version, one dominating the other, are the same value);
            # otherwise it stays distinct from every other read.
            if t[0] == "local" and item["rv"]["k"] == "use" and len(t) <= 3:
                m = t[1]
                v = b.ssa_version(m, bb, idx)
                if v is not None and v[0] in ("d", "phi", "entry"):
                    t = ("local", m, b.local_name(m), v)
                else:
                    t = ("local", l, b.local_name(l) or (t[2] if len(t) > 2 else None))
        else:
            c = item["callee"]
            name = c.get("rpath") or c.get("path") or "<indirect>"
            t = ("call", name, tuple(self.op(a, depth + 1) for a in item["args"]), bb, c.get("path"), item["dest"].get("ty"))
        self.cache[l] = t
        return t

    def rvalue(self, rv, depth=0):
        k = rv["k"]
        if k == "use":
            return self.op(rv["op"], depth)
        if k == "ref" or k == "rawptr":
            return ("ref", self.place(rv["p"], depth))
        if k == "cast":
            return ("cast", rv["kind"], rv["from"], rv["to"], self.op(rv["op"], depth))
        if k == "bin":
            return ("bin", rv["bop"], self.op(rv["a"], depth), self.op(rv["b"], depth))
        if k == "un":
            return ("un", rv["bop"], self.op(rv["a"], depth))
        if k == "discr":
            return ("discr", self.place(rv["p"], depth))
        if k == "agg":
            if rv["agg"] == "adt":
                return ("agg", rv["adt"], rv["vname"], tuple(self.op(f, depth) for f in rv["fields"]), tuple(rv["fnames"]))
            return ("agg", rv["agg"], rv.get("closure"), tuple(self.op(f, depth) for f in rv["fields"]), ())
        if k == "repeat":
            return ("repeat", self.op(rv["op"], depth), rv["n"])
        return ("?", rv.get("s"))


def strip(t):
    """remove value-preserving wrappers: refs/derefs pairs, From/Into/Clone, Use"""
    while True:
        if t[0] == "call" and t[1] and any(t[4] == w or (t[4] or "").endswith(w) for w in WRAPPERS_IDENTITY) and len(t[2]) == 1:
            t = t[2][0]
            continue
        if t[0] == "ref" and t[1][0] == "deref":
            t = t[1][1]
            continue
        if t[0] == "deref" and t[1][0] == "ref":
            t = t[1][1]
            continue
        return t


def walk(t):
    """all sub-terms (pre-order)"""
    yield t
    for x in t[1:]:
        if isinstance(x, tuple):
            if x and isinstance(x[0], str):
                yield from walk(x)
            else:
                for y in x:
                    if isinstance(y, tuple) and y and isinstance(y[0], str):
                        yield from walk(y)


def show(t, depth=0):
    if depth > 8:
        return "…"
    k = t[0]
    if k == "c":
        return str(t[3] if t[1] is None else t[1])
    if k == "arg":
        return "arg:%s" % (t[2] or t[1])
    if k == "local":
        return "_%s%s" % (t[1], ":" + t[2] if len(t) > 2 and t[2] else "")
    if k == "field":
        return "%s.%s" % (show(t[1], depth + 1), t[2])
    if k == "deref":
        return "*%s" % show(t[1], depth + 1)
    if k == "ref":
        return "&%s" % show(t[1], depth + 1)
    if k == "bin":
        return "%s(%s, %s)" % (t[1], show(t[2], depth + 1), show(t[3], depth + 1))
    if k == "un":
        return "%s(%s)" % (t[1], show(t[2], depth + 1))
    if k == "cast":
        return "(%s as %s)" % (show(t[4], depth + 1), t[3])
    if k == "call":
        return "%s(%s)" % (t[1], ", ".join(show(a, depth + 1) for a in t[2]))
    if k == "uneval":
        return "%s%s" % (t[1], "<%s>" % ",".join(t[2]) if t[2] else "")
    if k == "variant":
        return "(%s as %s)" % (show(t[1], depth + 1), t[2])
    if k == "agg":
        return "%s%s{%s}" % (t[1], "::" + t[2] if t[2] else "", ", ".join(show(a, depth + 1) for a in t[3]))
    if k == "init":
        return t[1]
    if k == "fn":
        return "fn " + t[1]
    return "%s(…)" % k


class StraightLine:
    """forward symbolic execution of a body without branches (asserts and calls continue to their
    normal target). Raises Shape if a switch is met. Memory model: a store maps place strings to
    terms; reads of unknown places yield ('init', place)."""

    class Shape(Exception):
        pass

    def __init__(self, body, call_hook=None):
        self.b = body
        self.env = {}
        self.calls = []     # (bb, callee path, arg terms, result term)
        self.writes = []    # (place string, term)
        self.call_hook = call_hook
        self.ret = None
        self.run()

    def read_place(self, p):
        b = self.b
        # longest known prefix
        key = place_str(b, p)
        if key in self.env:
            return self.env[key]
        if not p["p"]:
            return ("init", key)
        # project from a known prefix
        for cut in range(len(p["p"]) - 1, -1, -1):
            pre = {"l": p["l"], "p": p["p"][:cut]}
            k2 = place_str(b, pre)
            if k2 in self.env or cut == 0:
                base = self.env.get(k2, ("init", k2))
                for e in p["p"][cut:]:
                    if e == "*":
                        base = base[1] if base[0] == "ref" else ("deref", base)
                    elif "f" in e:
                        if base[0] == "bin" and base[1].endswith("WithOverflow"):
                            base = ("bin", base[1][:-len("WithOverflow")], base[2], base[3]) if e["f"] == 0 else ("ovf", base)
                        elif base[0] == "agg" and base[1] == "tuple" and e["f"] < len(base[3]):
                            base = base[3][e["f"]]
                        else:
                            base = ("field", base, e.get("n") if e.get("n") is not None else e["f"])
                    elif "d" in e:
                        base = ("variant", base, e.get("n") or e["d"])
                    else:
                        base = ("proj?", base)
                # a read through a reference to an initial place is the initial place's field
                return normalize_init(base)
        return ("init", key)

    def op(self, op):
        if op["k"] == "const":
            return const_term(op)
        return self.read_place(op["p"])

    def rvalue(self, rv):
        k = rv["k"]
        if k == "use":
            return self.op(rv["op"])
        if k in ("ref", "rawptr"):
            return ("ref", self.read_place(rv["p"]))
        if k == "cast":
            return ("cast", rv["kind"], rv["from"], rv["to"], self.op(rv["op"]))
        if k == "bin":
            return ("bin", rv["bop"], self.op(rv["a"]), self.op(rv["b"]))
        if k == "un":
            return ("un", rv["bop"], self.op(rv["a"]))
        if k == "discr":
            return ("discr", self.read_place(rv["p"]))
        if k == "agg":
            if rv["agg"] == "adt":
                return ("agg", rv["adt"], rv["vname"], tuple(self.op(f) for f in rv["fields"]), tuple(rv["fnames"]))
            return ("agg", rv["agg"], rv.get("closure"), tuple(self.op(f) for f in rv["fields"]), ())
        return ("?", rv.get("s"))

    def write(self, p, t):
        key = place_str(self.b, p)
        # writes through (*self).f are keyed on the normalised initial place
        self.env[key] = t
        self.writes.append((key, t))

    def run(self):
        b = self.b
        bb = 0
        seen = set()
        while True:
            if bb in seen:
                raise self.Shape("loop at bb%d" % bb)
            seen.add(bb)
            for s in b.stmts(bb):
                if s["k"] == "assign":
                    self.write(s["p"], self.rvalue(s["rv"]))
            t = b.term(bb)
            k = t["k"]
            if k == "return":
                self.ret = self.env.get("_0", ("init", "_0"))
                return
            if k == "goto":
                bb = t["target"]
            elif k == "assert":
                bb = t["target"]
            elif k == "drop":
                bb = t["target"]
            elif k == "call":
                c = t["callee"]
                name = c.get("rpath") or c.get("path") or "<indirect>"
                args = tuple(self.op(a) for a in t["args"])
                res = ("call", name, args, bb, c.get("path"))
                if self.call_hook:
                    r2 = self.call_hook(self, t, name, args)
                    if r2 is not None:
                        res = r2
                self.calls.append((bb, name, args, res, c.get("path")))
                self.write(t["dest"], res)
                if t.get("target") is None:
                    raise self.Shape("diverging call at bb%d" % bb)
                bb = t["target"]
            else:
                raise self.Shape("branch (%s) at bb%d" % (k, bb))


def normalize_init(t):
    """deref(init('self')).f  ->  init('(*self).f') so that initial-place reads compare equal"""
    k = t[0]
    if k == "field":
        inner = normalize_init(t[1])
        if inner[0] == "init":
            return ("init", "%s.%s" % (inner[1], t[2]))
        return ("field", inner, t[2])
    if k == "deref":
        inner = normalize_init(t[1])
        if inner[0] == "init":
            return ("init", "(*%s)" % inner[1])
        return ("deref", inner)
    return t


PURE_SUFFIX = ("From::from", "Into::into", "TryFrom::try_from", "TryInto::try_into", "SafeFrom::safe_from", "Try::branch",
               "::len", "::unwrap", "::ok", "::ok_or", "::copied", "::cloned", "FromResidual::from_residual")


def norm(t):
    """term with the call-site block dropped for pure (argument-determined) calls, for structural comparison"""
    if not isinstance(t, tuple) or not t or not isinstance(t[0], str):
        return t
    if t[0] == "call":
        decl = t[4] or ""
        pure = decl.endswith(PURE_SUFFIX)
        return ("call", t[1], tuple(norm(a) for a in t[2]), None if pure else t[3], t[4])
    return tuple(norm(x) if isinstance(x, tuple) and x and isinstance(x[0], str) else
                 (tuple(norm(y) for y in x) if isinstance(x, tuple) else x) for x in t)


def same(a, b):
    return norm(strip(a)) == norm(strip(b))


def alternatives(body, prov, term, limit=8, _seen=None):
    """A read of a local with several whole-local definitions (the merge of `match`/`if` arms into one
    variable) stands for any of the values assigned to it. Returns [(def_block | None, term)]: the term itself
    when it is not such a merge (def_block None), else one entry per definition, expanded recursively. A local that
    is also written partially (field store, &mut handed out) is not expanded."""
    t = strip(term)
    if t[0] != "local":
        return [(None, term)]
    m = t[1]
    seen = _seen or set()
    if m in seen or len(seen) >= limit:
        return [(None, term)]
    ds = body.defs().get(m, [])
    if not ds or any(d[2] not in ("assign", "call") for d in ds) or (1 <= m <= body.arg_count):
        return [(None, term)]
    out = []
    for bb, idx, kind, item in ds:
        if not body.reachable(bb):
            continue
        if kind == "assign":
            v = prov.rvalue(item["rv"])
        else:
            c = item["callee"]
            v = ("call", c.get("rpath") or c.get("path") or "<indirect>", tuple(prov.op(a) for a in item["args"]), bb, c.get("path"), item["dest"].get("ty"))
        for db, vv in alternatives(body, prov, v, limit, seen | {m}):
            out.append((bb if db is None else db, vv))
    return out or [(None, term)]
