"""Read a small decision function (scalar parameters, comparisons, rational arithmetic, no loops) as a decision list
and compare it with a specification function on a grid of parameter values.

The function is not run: every path of its MIR is walked forward (`pathwalk.Walk`), which yields per path the list of
branch conditions and the result term. Both are terms over the parameters; they are evaluated here, in exact rational
arithmetic, for every assignment of a finite grid. Two piecewise fractional-linear functions whose breakpoints are
parameters (not constants other than 0 and +-1) that agree on a grid containing all orderings of the parameters, ties included,
and 0 / +-1, agree wherever the orderings are the same, so the grid decides the decision structure (which comparison, which
strictness, which operands in which formula); it does not decide floating point rounding.

A term that the evaluator does not know (a call into other code, a bit operation) makes the function *undecided*: counted
against the floor, never reported."""
import re
from fractions import Fraction

import pathwalk as pw


class Undecided(Exception):
    """the function cannot be read or evaluated. `helper` is set when the obstacle is a call of a function of the crate itself: part of
    the decision was moved into a helper, which the reader does not follow"""
    helper = False


_CONV = ("::from", "::into", "::clone", "::borrow", "::as_ref", "::deref", "::to_owned")
UNITS = {"F2Dot14": 1 << 14, "Fixed": 1 << 16}      # raw representation = value * unit


def _unit_of(text):
    for k, u in UNITS.items():
        if k in (text or ""):
            return u
    return 1
_CMP = {"::eq": lambda a, b: a == b, "::ne": lambda a, b: a != b, "::lt": lambda a, b: a < b, "::le": lambda a, b: a <= b,
        "::gt": lambda a, b: a > b, "::ge": lambda a, b: a >= b}
_BIN = {"Eq": lambda a, b: a == b, "Ne": lambda a, b: a != b, "Lt": lambda a, b: a < b, "Le": lambda a, b: a <= b,
        "Gt": lambda a, b: a > b, "Ge": lambda a, b: a >= b}


class DivZero(Exception):
    pass


class Panic(Exception):
    pass


class GridEval:
    """values are Fractions, bools, ('range', lo, hi, inclusive)"""

    def __init__(self, assign, types=None, resolve=None):
        self.a = assign
        self.types = types or {}        # parameter name -> type string (fixed-point newtypes are valued in their own units)
        self.resolve = resolve          # name of a local that was assigned before the walked region -> its defining term, or None

    def atom(self, t):
        """hook: a value for a term the rule gives a meaning to (None: evaluate structurally)"""
        return None

    def ev(self, t):
        a = self.atom(t)
        if a is not None:
            return a
        k = t[0]
        if k == "init":
            if t[1] in self.a:
                return self.a[t[1]]
            m = re.match(r"^(?:\(\*)?([A-Za-z_][A-Za-z0-9_]*)\)?\.0$", str(t[1]))
            if m and m.group(1) in self.a:
                return self.a[m.group(1)] * _unit_of(self.types.get(m.group(1)))
            if self.resolve is not None:
                r = self.resolve(t[1])
                if r is not None:
                    return self.ev(r)
            raise Undecided("read of %s" % (t[1],))
        if k == "promoted":
            # a promoted constant such as &F2Dot14(0): one constructor over one integer constant
            consts = re.findall(r"const (-?[0-9]+)_[iu][0-9]+", " ".join(t[1]))
            if len(consts) == 1 and not re.search(r"\b(Add|Sub|Mul|Div|Shl|Shr)\b", " ".join(t[1])):
                return Fraction(int(consts[0]), _unit_of(" ".join(t[1])))
            raise Undecided("promoted constant %r" % (t[1],))
        if k in ("ref", "deref"):
            return self.ev(t[1])
        if k == "c":
            if isinstance(t[1], bool):
                return t[1]
            if isinstance(t[1], int):
                return Fraction(t[1])
            m = re.match(r"^(-?[0-9.]+(?:[eE][-+]?[0-9]+)?)_?f(?:32|64)$", str(t[3]))
            if m:
                return Fraction(m.group(1))
            raise Undecided("constant %r" % (t[3],))
        if k == "cast":
            return self.ev(t[4])
        if k == "discr":
            inner = t[1]
            while inner[0] in ("ref", "deref"):
                inner = inner[1]
            if inner[0] == "call" and str(inner[1] or "").endswith("::cmp") and len(inner[2]) == 2:
                a, b_ = self.ev(inner[2][0]), self.ev(inner[2][1])
                # std::cmp::Ordering is repr(i8): Less = -1 (255 as the switch value), Equal = 0, Greater = 1
                return Fraction(255 if a < b_ else (1 if a > b_ else 0))
            raise Undecided("discriminant of %s" % (inner[0],))
        if k == "un":
            v = self.ev(t[2])
            if t[1] == "Neg":
                return -v
            if t[1] == "Not" and isinstance(v, bool):
                return not v
            raise Undecided("unary %s" % t[1])
        if k == "bin":
            op = t[1]
            if op.endswith("WithOverflow"):
                op = op[:-len("WithOverflow")]
            a, b = self.ev(t[2]), self.ev(t[3])
            if op in _BIN:
                return _BIN[op](a, b)
            if op == "Add":
                return a + b
            if op == "Sub":
                return a - b
            if op == "Mul":
                return a * b
            if op == "Div":
                if b == 0:
                    raise DivZero()
                return a / b
            if op in ("BitAnd", "BitOr") and isinstance(a, bool) and isinstance(b, bool):
                return (a and b) if op == "BitAnd" else (a or b)
            raise Undecided("binary %s" % op)
        if k == "call":
            name = t[1] or ""
            args = t[2]
            base = name.split("<")[0] if name.startswith("std::ops::Range") else name
            if name.endswith("::contains") and len(args) == 2:
                r = self.ev(args[0])
                x = self.ev(args[1])
                if isinstance(r, tuple) and r[0] == "range":
                    lo_ok = r[1] is None or r[1] <= x
                    hi_ok = r[2] is None or (x <= r[2] if r[3] else x < r[2])
                    return lo_ok and hi_ok
                raise Undecided("contains on %r" % (r,))
            if "RangeInclusive" in name and name.endswith("::new") and len(args) == 2:
                return ("range", self.ev(args[0]), self.ev(args[1]), True)
            generic = t[4] if len(t) > 4 and t[4] else name
            if generic.startswith("std::ops::") and generic.split("::")[-1] in ("add", "sub", "mul", "div", "neg"):
                # operator impls of the crate's fixed-point newtypes (and of the primitive types): exact arithmetic on the values
                opn = generic.split("::")[-1]
                vals = [self.ev(x) for x in args]
                if opn == "neg" and len(vals) == 1:
                    return -vals[0]
                if len(vals) == 2:
                    a, b = vals
                    if opn == "add":
                        return a + b
                    if opn == "sub":
                        return a - b
                    if opn == "mul":
                        return a * b
                    if b == 0:
                        raise DivZero()
                    return a / b
            for suf, f in _CMP.items():
                if name.endswith(suf) and len(args) == 2:
                    return f(self.ev(args[0]), self.ev(args[1]))
            if name.endswith("::signum") and len(args) == 1:
                v = self.ev(args[0])
                return Fraction((v > 0) - (v < 0))
            if name.endswith("::abs") and len(args) == 1:
                return abs(self.ev(args[0]))
            if name.endswith("::min") and len(args) == 2:
                return min(self.ev(args[0]), self.ev(args[1]))
            if name.endswith("::max") and len(args) == 2:
                return max(self.ev(args[0]), self.ev(args[1]))
            if name.endswith("::clamp") and len(args) == 3:
                v, lo, hi = (self.ev(x) for x in args)
                if lo > hi:
                    raise Panic()
                return min(max(v, lo), hi)
            if any(name.endswith(s) for s in _CONV) and len(args) == 1:
                return self.ev(args[0])
            if name.endswith("::raw_value") and len(args) == 1:
                return self.ev(args[0]) * _unit_of(name)
            if name.endswith("::from_raw") and len(args) == 1:
                return self.ev(args[0]) / _unit_of(name)
            e = Undecided("call %s" % name)
            e.helper = bool(name) and not name.lstrip("<&").startswith(("std::", "core::", "alloc::"))
            raise e
        if k == "agg":
            nm = str(t[1])
            if nm.endswith("ops::Range") and len(t[3]) == 2:
                return ("range", self.ev(t[3][0]), self.ev(t[3][1]), False)
            if nm.endswith("ops::RangeInclusive") and len(t[3]) >= 2:
                return ("range", self.ev(t[3][0]), self.ev(t[3][1]), True)
            if _unit_of(nm) != 1 and len(t[3]) == 1:
                # F2Dot14(raw) / Fixed(raw)
                return self.ev(t[3][0]) / _unit_of(nm)
            raise Undecided("aggregate %s" % nm)
        if k == "field":
            # newtype field of a parameter: the raw representation (F2Dot14(i16), Fixed(i32))
            if t[1][0] == "init" and t[1][1] in self.a and t[2] in (0, "0"):
                return self.a[t[1][1]] * _unit_of(self.types.get(t[1][1]))
            raise Undecided("field %r" % (t[2],))
        raise Undecided("term %s" % k)

    def holds(self, cond):
        d, v = cond
        x = self.ev(d)
        if isinstance(x, bool):
            x = int(x)
        if isinstance(v, tuple) and v and v[0] == "not":
            return all(x != Fraction(u) for u in v[1])
        return x == Fraction(v)


def read_paths(body, max_paths=256):
    w = pw.Walk(body, None, [], start=0, max_paths=max_paths)
    if w.dropped:
        raise Undecided("; ".join(w.dropped))
    paths = [(c, env.get("_0", ("init", "_0"))) for c, env, _bb, kind in w.paths if kind == "return"]
    if not paths:
        raise Undecided("no path to a return")
    return paths


def value_at(paths, assign, types=None):
    """the function's value for one assignment: the result of the unique path whose conditions hold;
    'div0' when that path divides by zero"""
    ev = GridEval(assign, types)
    hit = []
    for conds, ret in paths:
        try:
            if all(ev.holds(c) for c in conds):
                hit.append(ret)
        except DivZero:
            hit.append("div0")
        except Panic:
            hit.append("panic")
    if len(hit) != 1:
        raise Undecided("%d paths apply for %r" % (len(hit), assign))
    if hit[0] in ("div0", "panic"):
        return hit[0]
    try:
        return ev.ev(hit[0])
    except DivZero:
        return "div0"
    except Panic:
        return "panic"


def compare(body, params, grid, spec, valid=None, limit=3, places=None, outcome=None):
    """-> (number of assignments compared, [(assignment, got, want)]). `places` maps a parameter name of the specification to the
    place string the body reads it from (default: a local of that name)"""
    import itertools
    paths = read_paths(body)
    types = {body.local_name(i): body.local_ty(i) for i in range(1, body.arg_count + 1)}
    places = places or {}
    n = 0
    bad = []
    for vals in itertools.product(grid, repeat=len(params)):
        a = dict(zip(params, vals))
        if valid is not None and not valid(**a):
            continue
        n += 1
        got = value_at(paths, {places.get(k, k): v for k, v in a.items()}, types)
        if outcome is not None:
            got = outcome(got)
        want = spec(**a)
        if got != want:
            if len(bad) < limit:
                bad.append((a, got, want))
    return n, bad


def _atoms(t, acc):
    if not isinstance(t, tuple) or not t:
        return
    if t[0] == "init":
        acc.add(re.sub(r"\.0$", "", str(t[1])))
        return
    for x in t[1:]:
        if isinstance(x, tuple):
            if x and isinstance(x[0], str):
                _atoms(x, acc)
            else:
                for y in x:
                    _atoms(y, acc)


def never_panics(body, max_atoms=5):
    """(n assignments, atoms) when the function, read as a decision list over the scalar places it reads, reaches no argument panic
    (clamp with lower > upper) for any assignment of a grid that contains every ordering and tie of those places; raises Undecided when
    the function cannot be read, ("panic", assignment) is returned as (None, assignment) when one does"""
    import itertools
    paths = read_paths(body)
    atoms = set()
    for conds, ret in paths:
        for c, _v in conds:
            _atoms(c, atoms)
        _atoms(ret, atoms)
    atoms = sorted(atoms)
    if not atoms or len(atoms) > max_atoms:
        raise Undecided("%d scalar inputs" % len(atoms))
    types = {body.local_name(i): body.local_ty(i) for i in range(1, body.arg_count + 1)}
    grid = [Fraction(k) for k in range(-(len(atoms) // 2) - 1, len(atoms) // 2 + 2)]
    n = 0
    for vals in itertools.product(grid, repeat=len(atoms)):
        a = dict(zip(atoms, vals))
        n += 1
        if value_at(paths, a, types) == "panic":
            return None, a
    return n, atoms
