"""C16 — TrueType outlines: bounded nesting depth of composite traversal, explicit panic discipline of the outline module,
the glyf flag tables, and indexing/arithmetic discipline of the outline code."""
import re

import indexing
import overflow
import recursion
import rules_C01
import sym

LEVEL = "other"
EXPLANATION = (
    "Decides the clause 'to a bounded nesting depth': every recursive cycle through the glyf outline visitor "
    "(visit_outline <-> visit_composite_glyph_outline) threads a depth counter monotonically, has a strict step on the cycle and a "
    "bound test (depth > COMPOSITE_GLYPH_RECURSION_LIMIT => Err) dominating a call site on the cycle (rule C01-a over the "
    "per-instance call graph, all instantiations of the OutlineSink parameter). Applies the explicit-panic rule (C01-b), the element "
    "indexing rule and the overflow-arithmetic rule to src/tables/glyf.rs, src/tables/glyf/outline.rs and src/outline.rs. Reads the "
    "two flag tables of the glyf format from the compiled constants and compares them with the OpenType specification (T16-FLAGS: "
    "simple glyph flags 0x01..0x20, composite glyph flags 0x0001..0x1000) and checks that every flag predicate tests its own constant "
    "(T16-PRED: `self & X == X` with X the constant the method is named after): a wrong bit or a swapped predicate mis-decodes flags, "
    "coordinates, component arguments or transforms of some well-formed glyph. Composite semantics: the accumulated transform reaches nested "
    "components (T16-COMP), the 2x2 transform entries reach the matrix in the specification's positions (T16-MAT), outline and bounding box both "
    "honour SCALED_COMPONENT_OFFSET (T16-OFFS). Contour semantics: the start point and the walked index range of a contour follow the decision table "
    "on-curve/off-curve first and last point, the closing-edge look-ahead wraps modulo the contour length (T16-ORIGIN), every contour is one "
    "move_to .. close sub-path and every delivered point is transformed exactly once (T16-SUB)."
)
NOT_DECIDED = ("coordinate decoding arithmetic (short/same deltas, repeat counts), the implied mid-point insertion inside Points::next beyond its wrap "
               "modulus, and the numeric values of offsets and scales are value properties and are not decided.")

FILES = ("src/tables/glyf.rs", "src/tables/glyf/outline.rs", "src/outline.rs")

SIMPLE = {"ON_CURVE_POINT": 0x01, "X_SHORT_VECTOR": 0x02, "Y_SHORT_VECTOR": 0x04, "REPEAT_FLAG": 0x08,
          "X_IS_SAME_OR_POSITIVE_X_SHORT_VECTOR": 0x10, "Y_IS_SAME_OR_POSITIVE_Y_SHORT_VECTOR": 0x20}
COMPOSITE = {"ARG_1_AND_2_ARE_WORDS": 0x0001, "ARGS_ARE_XY_VALUES": 0x0002, "ROUND_XY_TO_GRID": 0x0004, "WE_HAVE_A_SCALE": 0x0008,
             "MORE_COMPONENTS": 0x0020, "WE_HAVE_AN_X_AND_Y_SCALE": 0x0040, "WE_HAVE_A_TWO_BY_TWO": 0x0080, "WE_HAVE_INSTRUCTIONS": 0x0100,
             "USE_MY_METRICS": 0x0200, "OVERLAP_COMPOUND": 0x0400, "SCALED_COMPONENT_OFFSET": 0x0800, "UNSCALED_COMPONENT_OFFSET": 0x1000}
PREDICATES = {
    "tables::glyf::SimpleGlyphFlag": {"is_on_curve": "ON_CURVE_POINT", "x_is_short": "X_SHORT_VECTOR", "y_is_short": "Y_SHORT_VECTOR",
                                      "is_repeated": "REPEAT_FLAG", "x_is_same_or_positive": "X_IS_SAME_OR_POSITIVE_X_SHORT_VECTOR",
                                      "y_is_same_or_positive": "Y_IS_SAME_OR_POSITIVE_Y_SHORT_VECTOR"},
    "tables::glyf::CompositeGlyphFlag": {"arg_1_and_2_are_words": "ARG_1_AND_2_ARE_WORDS", "args_are_xy_values": "ARGS_ARE_XY_VALUES",
                                         "we_have_a_scale": "WE_HAVE_A_SCALE", "more_components": "MORE_COMPONENTS",
                                         "we_have_an_x_and_y_scale": "WE_HAVE_AN_X_AND_Y_SCALE", "we_have_a_two_by_two": "WE_HAVE_A_TWO_BY_TWO",
                                         "we_have_instructions": "WE_HAVE_INSTRUCTIONS"},
}


def t16_flags(run, fx):
    rule = "T16-FLAGS"
    run.rule(rule, "the glyf flag constants equal the OpenType specification: simple glyph flags ON_CURVE_POINT 0x01, X_SHORT_VECTOR 0x02, "
                   "Y_SHORT_VECTOR 0x04, REPEAT_FLAG 0x08, X_IS_SAME_OR_POSITIVE 0x10, Y_IS_SAME_OR_POSITIVE 0x20; composite glyph flags "
                   "0x0001, 0x0002, 0x0004, 0x0008, 0x0020, 0x0040, 0x0080, 0x0100, 0x0200, 0x0400, 0x0800, 0x1000")
    for ty, table in (("tables::glyf::SimpleGlyphFlag", SIMPLE), ("tables::glyf::CompositeGlyphFlag", COMPOSITE)):
        for name, want in sorted(table.items()):
            c = fx.const("%s::%s" % (ty, name))
            if c is None:
                run.anchor_missing(rule, "%s::%s" % (ty, name))
                continue
            if c.get("val") == want:
                run.ok(rule, "%s::%s = %#x" % (ty.split("::")[-1], name, want))
            else:
                run.fail(rule, "flag:%s::%s" % (ty.split("::")[-1], name), "%s::%s is %s, the specification says %#x" % (ty, name, c.get("val"), want),
                         "%s:%s" % (c.get("file"), c.get("line")))


def t16_pred(run, fx):
    rule = "T16-PRED"
    run.rule(rule, "every predicate of SimpleGlyphFlag / CompositeGlyphFlag is `self & X == X` with X the constant it is named after")
    for ty, preds in PREDICATES.items():
        for fn, cname in sorted(preds.items()):
            b = fx.body("%s::%s" % (ty, fn))
            if b is None:
                run.anchor_missing(rule, "%s::%s" % (ty, fn))
                continue
            ret = sym.strip(sym.Prov(b).local(0))
            consts = [x[1] for x in sym.walk(ret) if x[0] == "uneval"]
            for x in sym.walk(ret):
                if x[0] == "promoted":
                    for st in x[1]:
                        consts += re.findall(r"const ([\w:<>' ,]+::[A-Z_0-9]+)\b", st)
            is_eq = ret[0] == "call" and (ret[1] or "").endswith("PartialEq>::eq")
            has_and = any(x[0] == "call" and (x[1] or "").endswith("BitAnd>::bitand") for x in sym.walk(ret))
            want = "%s::%s" % (ty, cname)
            if is_eq and has_and and consts and all(c == want for c in consts) and len(consts) >= 2:
                run.ok(rule, "%s::%s tests %s" % (ty.split("::")[-1], fn, cname))
            else:
                run.fail(rule, "pred:%s::%s" % (ty.split("::")[-1], fn), "%s::%s is not `self & %s == %s` (it mentions %s)" % (
                    ty, fn, cname, cname, sorted({c.split("::")[-1] for c in consts}) or sym.show(ret)[:60]), "%s:%s" % (b.file, b.line))


def t16_comp(run, fx):
    rule = "T16-COMP"
    run.rule(rule, "nested composite glyphs: the transform accumulated so far is not dropped on the way down - in visit_outline the call that "
                   "descends into a composite's components receives a value derived from visit_outline's transform parameter(s), and in "
                   "visit_composite_glyph_outline the recursive visit_outline call receives a transform that depends on that inherited value as well "
                   "as on the component's own arguments (a point of an inner component ends up at T_outer(T_inner(p)))")
    vo = [b for b in fx.bodies if b.kind != "Closure" and b.root.endswith("::visit_outline") and "glyf::outline" in b.root]
    vc = [b for b in fx.bodies if b.kind != "Closure" and b.root.endswith("::visit_composite_glyph_outline")]
    if not vo or not vc:
        return run.anchor_missing(rule, "visit_outline / visit_composite_glyph_outline")
    b = vo[0]
    prov = sym.Prov(b)
    down = [(bi, t) for bi, t in b.calls() if (t["callee"].get("path") or "").endswith("visit_composite_glyph_outline")]
    if not down:
        run.anchor_missing(rule, "call of visit_composite_glyph_outline in visit_outline")
    for bi, t in down:
        inherited = any(any(x[0] == "arg" and x[2] not in (None, "self", "glyph_index", "sink", "depth") for x in sym.walk(prov.op(a))) for a in t["args"])
        if inherited:
            run.ok(rule, "visit_outline hands the accumulated transform to the traversal of the components")
        else:
            run.fail(rule, "nested-transform:down", "visit_outline descends into the components of a composite glyph without the transform it was given: the placement of a "
                     "composite inside another composite is lost (nested components are drawn as if their parent sat at the origin, unscaled)", b.loc(t))
    c = vc[0]
    cprov = sym.Prov(c)
    passive = {"self", "sink", "glyphs", "depth"}
    rec = [(bi, t) for bi, t in c.calls() if (t["callee"].get("path") or "").endswith("::visit_outline")]
    if not rec:
        run.anchor_missing(rule, "recursive visit_outline call in visit_composite_glyph_outline")
    for bi, t in rec:
        names = set()
        for a in t["args"]:
            for _db, v0 in sym.alternatives(c, cprov, cprov.op(a)):
                for x in sym.walk(v0):
                    if x[0] == "arg" and x[2]:
                        names.add(x[2])
        extra = names - passive
        # the composition is T_outer after T_inner: the argument is `inherited * component`, the inherited transform on the left of a
        # Transform2F product whose right factor does not depend on it (translate()/scale() on the inherited transform apply on the other side)
        MULTT = "<pathfinder_geometry::transform2d::Transform2F as std::ops::Mul>::mul"
        order_ok = True
        shape = None
        if extra:
            targ = None
            for a in t["args"]:
                if "Transform2F" in (c.local_ty(a["p"]["l"]) if a["k"] in ("copy", "move") else ""):
                    targ = a
            if targ is not None:
                for db, v in sym.alternatives(c, cprov, cprov.op(targ)):
                    v = sym.strip(v)
                    left_ok = v[0] == "call" and (v[1] or "").startswith("<pathfinder_geometry::transform2d::Transform2F as std::ops::Mul") and len(v[2]) == 2 \
                        and any(x[0] == "arg" and x[2] in extra for x in sym.walk(v[2][0])) \
                        and not any(x[0] == "arg" and x[2] in extra for x in sym.walk(v[2][1]))
                    if not left_ok:
                        order_ok = False
                        shape = sym.show(v)[:80]
        if extra and not order_ok:
            run.fail(rule, "nested-transform:order", "visit_composite_glyph_outline hands down %s, which is not `inherited * component transform`: the component's "
                     "placement is applied on the wrong side of the enclosing transform (offsets are no longer scaled by an enclosing scale)" % shape, c.loc(t))
        elif extra:
            run.ok(rule, "visit_composite_glyph_outline composes the inherited %s with each component's transform" % sorted(extra))
        else:
            run.fail(rule, "nested-transform:compose", "visit_composite_glyph_outline calls visit_outline with the component's own offset and scale only: nothing inherited "
                     "from the enclosing composite takes part", c.loc(t))


def _leaf_call_block(term, suffix):
    for x in sym.walk(term):
        if x[0] == "call" and suffix in (x[1] or ""):
            return x[3]
    return None


def floors_like(fx):
    """the superset configuration of the real crate (the planted fixture has no XY arm)"""
    return fx.body("tables::glyf::CompositeGlyphFlag::we_have_an_x_and_y_scale") is not None


def t16_mat(run, fx):
    rule = "T16-MAT"
    run.rule(rule, "the 2x2 transform of a component: WE_HAVE_A_TWO_BY_TWO stores xscale, scale01, scale10, yscale in that order and the specification "
                   "transforms a point to (xscale*x + scale10*y, scale01*x + yscale*y). The reader's array positions are mapped to file order (order of the "
                   "ReadCtxt::read calls by dominance) and the four arguments of Matrix2x2F::row_major(m00, m01, m10, m11) in the conversion must be the "
                   "file items 0, 2, 1, 3")
    rd = fx.body("<tables::glyf::CompositeGlyphComponent as binary::read::ReadBinaryDep>::read_dep")
    cv = [b for b in fx.bodies if b.kind != "Closure" and "From<tables::glyf::CompositeGlyphScale> for pathfinder_geometry::transform2d::Matrix2x2F" in b.root]
    if rd is None or not cv:
        return run.anchor_missing(rule, "CompositeGlyphComponent::read_dep / From<CompositeGlyphScale> for Matrix2x2F")
    # reader: (i, j) -> file item
    prov = sym.Prov(rd)
    pos = {}
    for bi in range(len(rd.blocks)):
        for st in rd.stmts(bi):
            rv = st.get("rv") or {}
            if st.get("k") == "assign" and rv.get("k") == "agg" and rv.get("adt") == "tables::glyf::CompositeGlyphScale" and rv.get("vname") == "Matrix":
                t = sym.strip(prov.op(rv["fields"][0]))
                if t[0] == "agg" and t[1] == "array" and len(t[3]) == 2:
                    for i, row in enumerate(t[3]):
                        row = sym.strip(row)
                        if row[0] == "agg" and row[1] == "array" and len(row[3]) == 2:
                            for j, leaf in enumerate(row[3]):
                                pos[(i, j)] = _leaf_call_block(leaf, "ReadCtxt::<'a>::read")
    if len(pos) != 4 or any(v is None for v in pos.values()) or len(set(pos.values())) != 4:
        return run.anchor_missing(rule, "CompositeGlyphScale::Matrix built from four distinct ReadCtxt::read results in read_dep")
    blocks = sorted(pos.values(), key=lambda k: sum(1 for o in pos.values() if o != k and rd.dominates(o, k)))
    for a, c in zip(blocks, blocks[1:]):
        if not rd.dominates(a, c):
            return run.anchor_missing(rule, "the four reads of the 2x2 transform are not totally ordered by dominance")
    item = {ij: blocks.index(k) for ij, k in pos.items()}
    run.ok(rule, "reader: matrix[i][j] holds file item %s" % sorted((ij, n) for ij, n in item.items()))
    # conversion: row_major argument k <- matrix[i][j]
    b = cv[0]
    cprov = sym.Prov(b)
    rm = [(bi, t) for bi, t in b.calls() if (t["callee"].get("path") or "").endswith("Matrix2x2F::row_major")]
    if len(rm) != 1:
        return run.anchor_missing(rule, "exactly one Matrix2x2F::row_major call in the conversion of CompositeGlyphScale::Matrix")
    bi, t = rm[0]
    got = []
    for a in t["args"]:
        ij = None

        def const_index(x):
            """(base, k) of `base[k]` written as an index expression or as an array pattern (`[[a, b], [c, d]]`)"""
            if x[0] == "index" and x[2][0] == "c":
                return sym.strip(x[1]), x[2][1]
            if x[0] == "cindex" and not x[3]:
                return sym.strip(x[1]), x[2]
            return None
        for x in sym.walk(cprov.op(a)):
            outer = const_index(x)
            inner = const_index(outer[0]) if outer else None
            if outer and inner and any(y[0] == "variant" and y[2] == "Matrix" for y in sym.walk(inner[0])):
                ij = (inner[1], outer[1])
                break
        got.append(item.get(ij))
    # WE_HAVE_AN_X_AND_Y_SCALE: xscale is read first and scales x, yscale second and scales y
    xy_pos = {}
    for bi2 in range(len(rd.blocks)):
        for st in rd.stmts(bi2):
            rv = st.get("rv") or {}
            if st.get("k") == "assign" and rv.get("k") == "agg" and rv.get("adt") == "tables::glyf::CompositeGlyphScale" and rv.get("vname") == "XY":
                for fname, fop in zip(rv["fnames"], rv["fields"]):
                    xy_pos[fname] = _leaf_call_block(prov.op(fop), "ReadCtxt::<'a>::read")
    vec_calls = [(bi2, t2) for bi2, t2 in b.calls() if (t2["callee"].get("path") or "").endswith("Vector2F::new") and len(t2["args"]) == 2]
    if set(xy_pos) == {"x_scale", "y_scale"} and None not in xy_pos.values() and vec_calls:
        first = "x_scale" if rd.dominates(xy_pos["x_scale"], xy_pos["y_scale"]) else "y_scale"
        bi2, t2 = vec_calls[0]

        def scale_field(op):
            fs = [x[2] for x in sym.walk(cprov.op(op)) if x[0] == "field" and x[2] in ("x_scale", "y_scale")]
            return fs[0] if fs else None
        got_xy = [scale_field(a) for a in t2["args"]]
        if first == "x_scale" and got_xy == ["x_scale", "y_scale"]:
            run.ok(rule, "XY scale: the value read first scales x, the second scales y")
        else:
            run.fail(rule, "xy-scale", "WE_HAVE_AN_X_AND_Y_SCALE: the reader stores the first value as %s and the conversion builds the scale vector (x, y) from %s: "
                     "x and y scale are swapped" % (first, got_xy), b.loc(t2))
    elif floors_like(fx):
        run.anchor_missing(rule, "CompositeGlyphScale::XY in the reader and Vector2F::new(x_scale, y_scale) in the conversion")
    want = [0, 2, 1, 3]
    names = ["xscale", "scale01", "scale10", "yscale"]
    if got == want:
        run.ok(rule, "row_major(m00, m01, m10, m11) receives xscale, scale10, scale01, yscale: x' = xscale*x + scale10*y, y' = scale01*x + yscale*y")
    else:
        run.fail(rule, "two-by-two:row_major", "Matrix2x2F::row_major(m00, m01, m10, m11) receives the file items %s, the specification's matrix is (xscale, scale10, scale01, "
                 "yscale): a sheared or rotated component is transformed by a different matrix" % [names[g] if g is not None else "?" for g in got], b.loc(t))


def t16_argxy(run, fx, floors=True):
    rule = "T16-ARGXY"
    run.rule(rule, "component arguments: argument1 / argument2 of a composite glyph component are an x/y offset only when ARGS_ARE_XY_VALUES is set; "
                   "otherwise they are point numbers (OpenType glyf, composite glyph description), which this library does not support and treats as "
                   "no offset. Every conversion of a component argument into a number (From<CompositeGlyphArgument> for i32) outside the reader and "
                   "the writer is control dependent on args_are_xy_values() being true - in the function itself, or at every call site of the private "
                   "helper it sits in (sibling agreement of the outline visitor and the calculated bounding box)")
    import guards
    sites = 0
    for b in fx.bodies:
        if b.exp or not b.file.startswith("src/tables/glyf"):
            continue
        convs = [bi for bi, t in b.calls() if "From<tables::glyf::CompositeGlyphArgument> for i32" in str(t["callee"].get("rpath") or "")]
        if not convs:
            continue
        if "binary::read::Read" in b.root or "binary::write::Write" in b.root:
            continue
        for bi in convs:
            sites += 1
            if _under_args_are_xy(b, bi):
                run.ok(rule, "%s: argument used as an offset under args_are_xy_values()" % b.root)
                continue
            # a private helper: every call site of it must be under the test
            callers = [(cb, cbi) for cb in fx.bodies if not cb.exp for cbi, ct in cb.calls() if (ct["callee"].get("path") or "") == b.path]
            if callers and b.kind != "Closure" and all(_under_args_are_xy(cb, cbi) for cb, cbi in callers):
                run.ok(rule, "%s: helper whose %d call site(s) are under args_are_xy_values()" % (b.root, len(callers)))
                continue
            run.fail(rule, "argxy:%s" % b.root, "%s turns a component argument into a number without args_are_xy_values() having been tested: when the flag is clear the "
                     "argument is a point number, which is then applied as an offset" % b.path, b.loc(b.term(bi)))
    if floors:
        run.floor(rule, "conversions of component arguments", sites, 2)


def _under_args_are_xy(b, bi):
    """block bi is dominated by the true edge of a switch on the result of CompositeGlyphFlag::args_are_xy_values()"""
    prov = sym.Prov(b)
    for sj in range(len(b.blocks)):
        t = b.term(sj)
        if not (b.reachable(sj) and t["k"] == "switch"):
            continue
        d = sym.strip(prov.op(t["discr"]))
        negated = False
        while d[0] == "un" and d[1] == "Not":          # `let point_numbers = !flags.args_are_xy_values(); if point_numbers {..} else {..}`
            negated = not negated
            d = sym.strip(d[2])
        if not (d[0] == "call" and str(d[1] or "").endswith("::args_are_xy_values")):
            continue
        true_tgts = [tg for v, tg in t["arms"] if v != 0]
        if t.get("otherwise") is not None and all(v == 0 for v, _ in t["arms"]):
            true_tgts.append(t["otherwise"])
        false_tgts = [tg for v, tg in t["arms"] if v == 0]
        if negated:
            true_tgts, false_tgts = false_tgts, true_tgts
        for tg in true_tgts:
            if tg not in false_tgts and b.dominates(tg, bi):
                return True
    return False


def t16_offs(run, fx, floors):
    rule = "T16-OFFS"
    run.rule(rule, "sibling agreement on SCALED_COMPONENT_OFFSET: every function that places a component from its `scale` and its `argument1`/`argument2` "
                   "offset into a Transform2F consults CompositeGlyphFlag::component_offsets() and branches on the result (outline visitor and calculated "
                   "bounding box must place a component identically)")
    sites = []
    for b in fx.bodies:
        if b.kind == "Closure" or not any("Transform2F" in (l.get("ty") or "") for l in b.locals):
            continue
        fields = set()
        # the function and the private helpers of the glyf module it hands the component to are read as one group: the offset may be
        # computed in a helper (`component_offset(&component)`)
        for hb in fx.with_helpers(b, "tables::glyf::"):
            if hb is not b and any("Transform2F" in (l.get("ty") or "") for l in hb.locals):
                continue        # a helper that places components itself is a site of its own
            for bi in range(len(hb.blocks)):
                for st in hb.stmts(bi):
                    txt = str(st)
                    if "CompositeGlyphComponent" in txt:
                        for f in ("scale", "argument1", "argument2"):
                            if "'%s'" % f in txt:
                                fields.add(f)
        if "scale" in fields and ("argument1" in fields or "argument2" in fields):
            sites.append(b)
    want = 2 if run.config in (None, "prince", "default") else 1
    if floors and len(sites) < want:
        run.anchor_missing(rule, "%d functions that place a component (found %d)" % (want, len(sites)))
    for b in sites:
        calls = [(bi, t) for bi, t in b.calls() if (t["callee"].get("path") or "").endswith("CompositeGlyphFlag::component_offsets")]
        switched = False
        for bi, t in calls:
            dest = (t.get("dest") or {}).get("l")
            for bj in range(len(b.blocks)):
                for st in b.stmts(bj):
                    rv = st.get("rv") or {}
                    if rv.get("k") == "discr" and (rv.get("p") or {}).get("l") == dest:
                        switched = True
        if calls and switched:
            run.ok(rule, "%s branches on component_offsets()" % b.root)
        else:
            run.fail(rule, "component-offsets:%s" % b.root.split("::")[-1], "%s builds a component's transform from its scale and offset without consulting "
                     "CompositeGlyphFlag::component_offsets(): with SCALED_COMPONENT_OFFSET the offset must be scaled too, as its sibling does" % b.root,
                     "%s:%s" % (b.file, b.line))


MUL_TV = "<pathfinder_geometry::transform2d::Transform2F as std::ops::Mul<pathfinder_geometry::vector::Vector2F>>::mul"


def _has_call(term, suffix):
    return any(x[0] == "call" and (x[1] or "").endswith(suffix) for x in sym.walk(term))


def t16_origin(run, fx):
    rule = "T16-ORIGIN"
    run.rule(rule, "where a contour starts (decision table of Contour::calculate_origin, read from the returned tuples): first point on curve -> start at it, "
                   "walk points 1..len; first off and last on curve -> start at the last point, walk 0..len-1; both off curve -> start at their mid-point "
                   "lerp(first, last, 0.5), walk 0..len. In Points::next the look-ahead past the last point wraps modulo the contour length")
    co = [b for b in fx.bodies if b.kind != "Closure" and b.root.endswith("Contour::<'points>::calculate_origin")]
    nx = [b for b in fx.bodies if b.kind != "Closure" and "contour::Points<" in b.root and b.root.endswith("::next")]
    if not co or not nx:
        return run.anchor_missing(rule, "Contour::calculate_origin / Points::next")
    b = co[0]
    prov = sym.Prov(b)
    rows = {}
    for bi in range(len(b.blocks)):
        if not b.reachable(bi):
            continue
        for st in b.stmts(bi):
            rv = st.get("rv") or {}
            if st.get("k") == "assign" and st["p"]["l"] == 0 and not st["p"]["p"] and rv.get("k") == "agg" and len(rv.get("fields", [])) == 3:
                pt, start, until = (sym.strip(prov.op(f)) for f in rv["fields"])
                if pt[0] == "field" and pt[1][0] == "variant" and pt[1][2] == "OnCurve" and _has_call(pt, "::first") and not _has_call(pt, "::last"):
                    kind = "first-on"
                elif pt[0] == "field" and pt[1][0] == "variant" and pt[1][2] == "OnCurve" and _has_call(pt, "::last") and not _has_call(pt, "::first"):
                    kind = "last-on"
                elif pt[0] == "call" and (pt[1] or "").endswith("Vector2F::lerp") and len(pt[2]) == 3:
                    a0, a1, a2 = (sym.strip(x) for x in pt[2])
                    ok = (_has_call(a0, "::first") != _has_call(a1, "::first")) and (_has_call(a0, "::last") != _has_call(a1, "::last")) \
                        and all(x[0] == "field" and x[1][0] == "variant" and x[1][2] == "Control" for x in (a0, a1)) and a2[0] == "c" and a2[3] == "0.5f32"
                    kind = "mid" if ok else "other:" + sym.show(pt)[:60]
                else:
                    kind = "other:" + sym.show(pt)[:60]
                sv = start[1] if start[0] == "c" else None
                if until[0] == "call" and (until[1] or "").endswith("Contour::<'points>::len"):
                    uv = "len"
                elif until[0] == "bin" and until[1] == "Sub" and sym.strip(until[2])[0] == "call" and (sym.strip(until[2])[1] or "").endswith("Contour::<'points>::len") \
                        and sym.strip(until[3])[0] == "c" and sym.strip(until[3])[1] == 1:
                    uv = "len-1"
                else:
                    uv = sym.show(until)[:40]
                rows.setdefault(kind, []).append((sv, uv, b.loc(st)))
    want = {"first-on": (1, "len"), "last-on": (0, "len-1"), "mid": (0, "len")}
    for kind, (sv, uv) in want.items():
        got = rows.pop(kind, [])
        if len(got) != 1:
            run.fail(rule, "origin:%s" % kind, "calculate_origin has %d rows for the case '%s' (expected one)" % (len(got), kind), "%s:%s" % (b.file, b.line))
        elif got[0][:2] != (sv, uv):
            run.fail(rule, "origin:%s" % kind, "calculate_origin, case '%s': walks from %s until %s; the contour semantics need from %s until %s (a point is lost or "
                     "visited twice)" % (kind, got[0][0], got[0][1], sv, uv), got[0][2])
        else:
            run.ok(rule, "case %s: start %d, until %s" % (kind, sv, uv))
    for kind, got in rows.items():
        run.fail(rule, "origin:extra", "calculate_origin returns a start point that is neither the first/last on-curve point nor lerp(first, last, 0.5): %s" % kind, got[0][2])
    # wrap modulus
    n = nx[0]
    nprov = sym.Prov(n)
    rems = []
    for bi in range(len(n.blocks)):
        if not n.reachable(bi):
            continue
        for st in n.stmts(bi):
            rv = st.get("rv") or {}
            if st.get("k") == "assign" and rv.get("k") == "bin" and rv.get("bop") == "Rem":
                rems.append((bi, st, sym.strip(nprov.op(rv["b"]))))
    if not rems:
        run.anchor_missing(rule, "wrap-around `%` in Points::next")
    for bi, st, d in rems:
        uses_until = any(x[0] == "field" and x[2] == "until" for x in sym.walk(d))
        is_len = _has_call(d, "Contour::<'points>::len") or any(x[0] == "field" and x[2] == "points_and_flags" for x in sym.walk(d))
        if is_len and not uses_until:
            run.ok(rule, "Points::next wraps modulo the contour length")
        else:
            run.fail(rule, "origin:wrap", "Points::next wraps its look-ahead modulo %s, not the contour length: the implied mid-point across the closing edge is "
                     "taken with the wrong neighbour" % sym.show(d)[:60], n.loc(st))


def t16_sub(run, fx):
    rule = "T16-SUB"
    run.rule(rule, "visit_simple_glyph_outline: every iteration of the contour loop passes through move_to and through close (each contour is one closed "
                   "sub-path), and every point handed to the sink is `transform * p` with the transform applied exactly once")
    vs = [b for b in fx.bodies if b.kind != "Closure" and b.root.endswith("::visit_simple_glyph_outline")]
    if not vs:
        return run.anchor_missing(rule, "visit_simple_glyph_outline")
    for b in vs[:1]:
        prov = sym.Prov(b)
        sink = {}
        for bi, t in b.calls():
            p = t["callee"].get("path") or ""
            for m in ("move_to", "line_to", "quadratic_curve_to", "close"):
                if p.endswith("OutlineSink::" + m):
                    sink.setdefault(m, []).append((bi, t))
        if not sink.get("move_to") or not sink.get("close"):
            return run.anchor_missing(rule, "move_to and close calls in visit_simple_glyph_outline")
        mv = sink["move_to"][0][0]
        # the contour loop: the innermost loop header around the move_to block (a dominator with a back edge into it)
        hdr = None
        d = mv
        idom = b.idom()
        while d != 0:
            d = idom[d]
            if any(b.dominates(d, p) for p in b.preds(d)):
                hdr = d
                break
        if hdr is None:
            return run.anchor_missing(rule, "loop around the move_to call")
        for m in ("move_to", "close"):
            avoid = frozenset(bi for bi, _ in sink[m])
            skipping = any(hdr in b.reach_from(s0, avoid) for s0 in b.succs(hdr) if s0 not in avoid)
            if skipping:
                run.fail(rule, "subpath:%s" % m, "visit_simple_glyph_outline: some iteration of the contour loop does not call %s - a contour is dropped or left open" % m,
                         "%s:%s" % (b.file, b.line))
            else:
                run.ok(rule, "every contour iteration calls %s" % m)
        # inside a contour every point taken from the point iterator produces a segment: each trip round the inner loop passes line_to or
        # quadratic_curve_to
        if sink.get("line_to"):
            lt = sink["line_to"][0][0]
            ih = None
            d2 = lt
            while d2 != 0:
                d2 = idom[d2]
                if any(b.dominates(d2, p) for p in b.preds(d2)):
                    ih = d2
                    break
            if ih is not None and ih != hdr:
                seg = frozenset(bi for m in ("line_to", "quadratic_curve_to") for bi, _ in sink.get(m, []))
                # natural loop of ih: blocks that reach a back edge into ih without leaving through ih
                body_ = {ih}
                stack_ = [p for p in b.preds(ih) if b.dominates(ih, p)]
                while stack_:
                    x = stack_.pop()
                    if x in body_:
                        continue
                    body_.add(x)
                    stack_.extend(p for p in b.preds(x) if b.reachable(p))
                outside = frozenset(x for x in range(len(b.blocks)) if x not in body_)
                skipping = any(ih in b.reach_from(s0, seg | outside) for s0 in b.succs(ih) if s0 in body_ and s0 not in seg)
                if skipping:
                    run.fail(rule, "subpath:segment", "visit_simple_glyph_outline: a point taken from the contour can be passed over without a line_to / "
                             "quadratic_curve_to - the sub-path no longer visits the contour's points in order", "%s:%s" % (b.file, b.line))
                else:
                    run.ok(rule, "every point of a contour produces a segment")
            else:
                run.anchor_missing(rule, "loop over the points of a contour")
        for m in ("move_to", "line_to", "quadratic_curve_to"):
            for bi, t in sink.get(m, []):
                for k, a in enumerate(t["args"][1:]):
                    term = sym.strip(prov.op(a))
                    ok = term[0] == "call" and term[1] == MUL_TV and len(term[2]) == 2 \
                        and any(x[0] == "arg" and x[2] == "transform" for x in sym.walk(term[2][0])) \
                        and not any((x[0] == "arg" and x[2] == "transform") or (x[0] == "call" and x[1] == MUL_TV) for x in sym.walk(term[2][1]))
                    if ok:
                        run.ok(rule, "%s argument %d is transform * p" % (m, k))
                    else:
                        run.fail(rule, "subpath:transform:%s" % m, "visit_simple_glyph_outline hands %s a point that is not `transform * p` with the transform applied "
                                 "exactly once: %s" % (m, sym.show(term)[:90]), b.loc(t))


def t16_pair(run, fx):
    rule = "T16-PAIR"
    run.rule(rule, "a glyph taken out of a borrowed glyf table is put back on every exit: in a function that reaches the table through a reference "
                   "parameter, every path from GlyfTable::take to a return (the error exits of `?` included) passes GlyfTable::replace - otherwise a failed "
                   "visit leaves an empty glyph behind and later outlines of the same font object differ (a table the function owns and drops on error "
                   "is exempt)")
    n = 0
    for b in fx.bodies:
        takes = [(bi, t) for bi, t in b.calls() if (t["callee"].get("path") or "").endswith("glyf::GlyfTable::<'a>::take")]
        if not takes:
            continue
        prov = sym.Prov(b)
        reps = frozenset(bi for bi, t in b.calls() if (t["callee"].get("path") or "").endswith("glyf::GlyfTable::<'a>::replace"))
        for bi, t in takes:
            recv = sym.strip(prov.op(t["args"][0]))
            roots = [x for x in sym.walk(recv) if x[0] == "arg"]
            borrowed = any((b.local_ty(x[1]) or "").startswith("&") for x in roots)
            if not borrowed:
                run.ok(rule, "%s: takes from a table it owns" % b.path)
                continue
            n += 1
            # from where the take is known to have handed out a glyph (take returns None for an index out of range: nothing to put back)
            import guards
            starts = guards.success_blocks(b, t["dest"]["l"]) if not t["dest"]["p"] else []
            if not starts and t.get("target") is not None:
                starts = [t["target"]]
            leak = any(r in b.reach_from(s0, avoid=reps) for s0 in starts for r in b.return_blocks())
            if leak:
                run.fail(rule, "take-without-replace:%s" % b.root, "%s takes a glyph out of a table it only borrows and can return without putting it back" % b.path, b.loc(t))
            else:
                run.ok(rule, "%s: every exit after take passes replace" % b.path)
    run.ok(rule, "%d take site(s) on borrowed tables examined" % n)


def t16_args(run, fx):
    rule = "T16-ARGS"
    run.rule(rule, "component arguments: ARG_1_AND_2_ARE_WORDS selects 16-bit over 8-bit values and ARGS_ARE_XY_VALUES selects signed offsets over "
                   "unsigned point numbers - in CompositeGlyphArgument::read_dep the reads of i16 / u16 / i8 / u8 sit under (words, xy) = "
                   "(true, true) / (true, false) / (false, true) / (false, false)")
    b = fx.body("<tables::glyf::CompositeGlyphArgument as binary::read::ReadBinaryDep>::read_dep")
    if b is None:
        return run.anchor_missing(rule, "CompositeGlyphArgument::read_dep")
    import guards
    prov = sym.Prov(b)
    conds = guards.bool_call_conditions(b, prov)
    want = {"read_i16be": (True, True), "read_u16be": (True, False), "read_i8": (False, True), "read_u8": (False, False)}
    seen = 0
    for bi, t in b.calls():
        name = (t["callee"].get("path") or "").split("::")[-1]
        if name not in want:
            continue
        seen += 1
        got = {}
        for tb, fb, call, sw in conds:
            nm = (call[4] or call[1] or "").split("::")[-1]
            key = "words" if nm == "arg_1_and_2_are_words" else ("xy" if nm == "args_are_xy_values" else None)
            if key is None:
                continue
            if tb is not None and b.dominates(tb, bi):
                got[key] = True
            if fb is not None and b.dominates(fb, bi):
                got[key] = False
        exp = want[name]
        if got.get("words") == exp[0] and got.get("xy") == exp[1]:
            run.ok(rule, "%s under words=%s, xy=%s" % (name, exp[0], exp[1]))
        else:
            run.fail(rule, "args:%s" % name, "CompositeGlyphArgument::read_dep reads %s under words=%s, xy=%s; the specification has it under words=%s, xy=%s "
                     "(offsets are signed, point numbers unsigned)" % (name, got.get("words"), got.get("xy"), exp[0], exp[1]), b.loc(t))
    if seen < 4:
        run.anchor_missing(rule, "four primitive reads in CompositeGlyphArgument::read_dep (found %d)" % seen)


def check(run, fx, tier, floors=True):
    recursion.run_rule(run, fx, "C01-a", lambda f: any("tables::glyf::outline" in p for p in f.local_paths), floors_n=1 if floors else None)
    rules_C01.rule_panics(run, fx, "C01-b", lambda b: b.file in FILES, floors, floor_n=5)
    if floors or fx.const("tables::glyf::SimpleGlyphFlag::ON_CURVE_POINT") is not None:
        t16_flags(run, fx)
        t16_pred(run, fx)
        t16_mat(run, fx)
        t16_offs(run, fx, floors)
        t16_argxy(run, fx, floors)
        if floors or fx.body("<tables::glyf::CompositeGlyphArgument as binary::read::ReadBinaryDep>::read_dep") is not None:
            t16_args(run, fx)
    # the glyf outline visitor only exists with the `outline` feature: fail closed on the superset configuration, skip where it is compiled out
    if (floors and run.config in (None, "prince", "default")) or any(b.root.endswith("::visit_composite_glyph_outline") for b in fx.bodies):
        t16_comp(run, fx)
        t16_origin(run, fx)
        t16_sub(run, fx)
    t16_pair(run, fx)
    indexing.rule_index(run, fx, "C16-i", floors, select=lambda b: b.file in FILES, floor_n=10)
    overflow.rule_overflow(run, fx, "C16-o", floors, select=lambda b: b.file in FILES, floor_n=10)
