"""C16 — TrueType outlines: bounded nesting depth of composite traversal, explicit panic discipline of the outline module,
the glyf flag tables, and indexing/arithmetic discipline of the outline code."""
import re

import indexing
import overflow
import recursion
import rules_C01
import sym

LEVEL = "other"
EXPLANATION = (
    "Decides the clause 'to a bounded nesting depth': every recursive cycle through the glyf outline visitor "
    "(visit_outline <-> visit_composite_glyph_outline) threads a depth counter monotonically, has a strict step on the cycle and a "
    "bound test (depth > COMPOSITE_GLYPH_RECURSION_LIMIT => Err) dominating a call site on the cycle (rule C01-a over the "
    "per-instance call graph, all instantiations of the OutlineSink parameter). Applies the explicit-panic rule (C01-b), the element "
    "indexing rule and the overflow-arithmetic rule to src/tables/glyf.rs, src/tables/glyf/outline.rs and src/outline.rs. Reads the "
    "two flag tables of the glyf format from the compiled constants and compares them with the OpenType specification (T16-FLAGS: "
    "simple glyph flags 0x01..0x20, composite glyph flags 0x0001..0x1000) and checks that every flag predicate tests its own constant "
    "(T16-PRED: `self & X == X` with X the constant the method is named after): a wrong bit or a swapped predicate mis-decodes flags, "
    "coordinates, component arguments or transforms of some well-formed glyph."
)
NOT_DECIDED = ("contour walking (origin selection, implied on-curve points, closing edge), coordinate decoding arithmetic, component offset "
               "scaling and transform composition are value properties and are not decided; all seeded changes against C16 (DESIGN 11.5) are of that kind.")

FILES = ("src/tables/glyf.rs", "src/tables/glyf/outline.rs", "src/outline.rs")

SIMPLE = {"ON_CURVE_POINT": 0x01, "X_SHORT_VECTOR": 0x02, "Y_SHORT_VECTOR": 0x04, "REPEAT_FLAG": 0x08,
          "X_IS_SAME_OR_POSITIVE_X_SHORT_VECTOR": 0x10, "Y_IS_SAME_OR_POSITIVE_Y_SHORT_VECTOR": 0x20}
COMPOSITE = {"ARG_1_AND_2_ARE_WORDS": 0x0001, "ARGS_ARE_XY_VALUES": 0x0002, "ROUND_XY_TO_GRID": 0x0004, "WE_HAVE_A_SCALE": 0x0008,
             "MORE_COMPONENTS": 0x0020, "WE_HAVE_AN_X_AND_Y_SCALE": 0x0040, "WE_HAVE_A_TWO_BY_TWO": 0x0080, "WE_HAVE_INSTRUCTIONS": 0x0100,
             "USE_MY_METRICS": 0x0200, "OVERLAP_COMPOUND": 0x0400, "SCALED_COMPONENT_OFFSET": 0x0800, "UNSCALED_COMPONENT_OFFSET": 0x1000}
PREDICATES = {
    "tables::glyf::SimpleGlyphFlag": {"is_on_curve": "ON_CURVE_POINT", "x_is_short": "X_SHORT_VECTOR", "y_is_short": "Y_SHORT_VECTOR",
                                      "is_repeated": "REPEAT_FLAG", "x_is_same_or_positive": "X_IS_SAME_OR_POSITIVE_X_SHORT_VECTOR",
                                      "y_is_same_or_positive": "Y_IS_SAME_OR_POSITIVE_Y_SHORT_VECTOR"},
    "tables::glyf::CompositeGlyphFlag": {"arg_1_and_2_are_words": "ARG_1_AND_2_ARE_WORDS", "args_are_xy_values": "ARGS_ARE_XY_VALUES",
                                         "we_have_a_scale": "WE_HAVE_A_SCALE", "more_components": "MORE_COMPONENTS",
                                         "we_have_an_x_and_y_scale": "WE_HAVE_AN_X_AND_Y_SCALE", "we_have_a_two_by_two": "WE_HAVE_A_TWO_BY_TWO",
                                         "we_have_instructions": "WE_HAVE_INSTRUCTIONS"},
}


def t16_flags(run, fx):
    rule = "T16-FLAGS"
    run.rule(rule, "the glyf flag constants equal the OpenType specification: simple glyph flags ON_CURVE_POINT 0x01, X_SHORT_VECTOR 0x02, "
                   "Y_SHORT_VECTOR 0x04, REPEAT_FLAG 0x08, X_IS_SAME_OR_POSITIVE 0x10, Y_IS_SAME_OR_POSITIVE 0x20; composite glyph flags "
                   "0x0001, 0x0002, 0x0004, 0x0008, 0x0020, 0x0040, 0x0080, 0x0100, 0x0200, 0x0400, 0x0800, 0x1000")
    for ty, table in (("tables::glyf::SimpleGlyphFlag", SIMPLE), ("tables::glyf::CompositeGlyphFlag", COMPOSITE)):
        for name, want in sorted(table.items()):
            c = fx.const("%s::%s" % (ty, name))
            if c is None:
                run.anchor_missing(rule, "%s::%s" % (ty, name))
                continue
            if c.get("val") == want:
                run.ok(rule, "%s::%s = %#x" % (ty.split("::")[-1], name, want))
            else:
                run.fail(rule, "flag:%s::%s" % (ty.split("::")[-1], name), "%s::%s is %s, the specification says %#x" % (ty, name, c.get("val"), want),
                         "%s:%s" % (c.get("file"), c.get("line")))


def t16_pred(run, fx):
    rule = "T16-PRED"
    run.rule(rule, "every predicate of SimpleGlyphFlag / CompositeGlyphFlag is `self & X == X` with X the constant it is named after")
    for ty, preds in PREDICATES.items():
        for fn, cname in sorted(preds.items()):
            b = fx.body("%s::%s" % (ty, fn))
            if b is None:
                run.anchor_missing(rule, "%s::%s" % (ty, fn))
                continue
            ret = sym.strip(sym.Prov(b).local(0))
            consts = [x[1] for x in sym.walk(ret) if x[0] == "uneval"]
            for x in sym.walk(ret):
                if x[0] == "promoted":
                    for st in x[1]:
                        consts += re.findall(r"const ([\w:<>' ,]+::[A-Z_0-9]+)\b", st)
            is_eq = ret[0] == "call" and (ret[1] or "").endswith("PartialEq>::eq")
            has_and = any(x[0] == "call" and (x[1] or "").endswith("BitAnd>::bitand") for x in sym.walk(ret))
            want = "%s::%s" % (ty, cname)
            if is_eq and has_and and consts and all(c == want for c in consts) and len(consts) >= 2:
                run.ok(rule, "%s::%s tests %s" % (ty.split("::")[-1], fn, cname))
            else:
                run.fail(rule, "pred:%s::%s" % (ty.split("::")[-1], fn), "%s::%s is not `self & %s == %s` (it mentions %s)" % (
                    ty, fn, cname, cname, sorted({c.split("::")[-1] for c in consts}) or sym.show(ret)[:60]), "%s:%s" % (b.file, b.line))


def t16_comp(run, fx):
    rule = "T16-COMP"
    run.rule(rule, "nested composite glyphs: the transform accumulated so far is not dropped on the way down - in visit_outline the call that "
                   "descends into a composite's components receives a value derived from visit_outline's transform parameter(s), and in "
                   "visit_composite_glyph_outline the recursive visit_outline call receives a transform that depends on that inherited value as well "
                   "as on the component's own arguments (a point of an inner component ends up at T_outer(T_inner(p)))")
    vo = [b for b in fx.bodies if b.kind != "Closure" and b.root.endswith("::visit_outline") and "glyf::outline" in b.root]
    vc = [b for b in fx.bodies if b.kind != "Closure" and b.root.endswith("::visit_composite_glyph_outline")]
    if not vo or not vc:
        return run.anchor_missing(rule, "visit_outline / visit_composite_glyph_outline")
    b = vo[0]
    prov = sym.Prov(b)
    down = [(bi, t) for bi, t in b.calls() if (t["callee"].get("path") or "").endswith("visit_composite_glyph_outline")]
    if not down:
        run.anchor_missing(rule, "call of visit_composite_glyph_outline in visit_outline")
    for bi, t in down:
        inherited = any(any(x[0] == "arg" and x[2] not in (None, "self", "glyph_index", "sink", "depth") for x in sym.walk(prov.op(a))) for a in t["args"])
        if inherited:
            run.ok(rule, "visit_outline hands the accumulated transform to the traversal of the components")
        else:
            run.fail(rule, "nested-transform:down", "visit_outline descends into the components of a composite glyph without the transform it was given: the placement of a "
                     "composite inside another composite is lost (nested components are drawn as if their parent sat at the origin, unscaled)", b.loc(t))
    c = vc[0]
    cprov = sym.Prov(c)
    passive = {"self", "sink", "glyphs", "depth"}
    rec = [(bi, t) for bi, t in c.calls() if (t["callee"].get("path") or "").endswith("::visit_outline")]
    if not rec:
        run.anchor_missing(rule, "recursive visit_outline call in visit_composite_glyph_outline")
    for bi, t in rec:
        names = set()
        for a in t["args"]:
            for x in sym.walk(cprov.op(a)):
                if x[0] == "arg" and x[2]:
                    names.add(x[2])
        extra = names - passive
        if extra:
            run.ok(rule, "visit_composite_glyph_outline composes the inherited %s with each component's transform" % sorted(extra))
        else:
            run.fail(rule, "nested-transform:compose", "visit_composite_glyph_outline calls visit_outline with the component's own offset and scale only: nothing inherited "
                     "from the enclosing composite takes part", c.loc(t))


def check(run, fx, tier, floors=True):
    recursion.run_rule(run, fx, "C01-a", lambda f: any("tables::glyf::outline" in p for p in f.local_paths), floors_n=1 if floors else None)
    rules_C01.rule_panics(run, fx, "C01-b", lambda b: b.file in FILES, floors, floor_n=5)
    if floors or fx.const("tables::glyf::SimpleGlyphFlag::ON_CURVE_POINT") is not None:
        t16_flags(run, fx)
        t16_pred(run, fx)
    # the glyf outline visitor only exists with the `outline` feature: fail closed on the superset configuration, skip where it is compiled out
    if (floors and run.config in (None, "prince", "default")) or any(b.root.endswith("::visit_composite_glyph_outline") for b in fx.bodies):
        t16_comp(run, fx)
    indexing.rule_index(run, fx, "C16-i", floors, select=lambda b: b.file in FILES, floor_n=10)
    overflow.rule_overflow(run, fx, "C16-o", floors, select=lambda b: b.file in FILES, floor_n=10)
