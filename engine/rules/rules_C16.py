"""C16 — TrueType outlines: bounded nesting depth of composite traversal, explicit panic discipline of the outline module."""
import recursion
import rules_C01

LEVEL = "other"
EXPLANATION = (
    "Decides the clause 'to a bounded nesting depth': every recursive cycle through the glyf outline visitor "
    "(visit_outline <-> visit_composite_glyph_outline) threads a depth counter monotonically, has a strict step on the cycle and a "
    "bound test (depth > COMPOSITE_GLYPH_RECURSION_LIMIT => Err) dominating a call site on the cycle (rule C01-a over the "
    "per-instance call graph, all instantiations of the OutlineSink parameter). Also applies the explicit-panic rule (C01-b) to "
    "src/tables/glyf.rs, src/tables/glyf/outline.rs and src/outline.rs: any new unwrap/unreachable!/assert!/range slice on glyph "
    "data in the outline code is a violation."
)
NOT_DECIDED = "contour walking, implied on-curve points, flag/coordinate decoding arithmetic and composite transforms (value properties)."

FILES = ("src/tables/glyf.rs", "src/tables/glyf/outline.rs", "src/outline.rs")


def check(run, fx, tier, floors=True):
    recursion.run_rule(run, fx, "C01-a", lambda f: any("tables::glyf::outline" in p for p in f.local_paths), floors_n=1 if floors else None)
    rules_C01.rule_panics(run, fx, "C01-b", lambda b: b.file in FILES, floors, floor_n=5)
