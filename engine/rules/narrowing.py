"""Rule C15-c / C08-c / C09-e: no silent truncation. Every integer cast that can lose information
(fewer bits, or a sign change at the same width) in code reachable from the given roots must be
provably in range from the provenance of its operand, guarded by a dominating comparison with a
constant that fits, or audited in ledger/narrowing.jsonl."""
import re

import arith
import origins
import sym

BITS = {"u8": (0, 8), "u16": (0, 16), "u32": (0, 32), "u64": (0, 64), "usize": (0, 64), "u128": (0, 128),
        "i8": (1, 8), "i16": (1, 16), "i32": (1, 32), "i64": (1, 64), "isize": (1, 64), "i128": (1, 128)}


def lossy(frm, to):
    """fewer bits: a value may not fit. Same-width sign changes keep every bit (the bytes written are the same) and widening
    never loses bits; neither is a truncation."""
    if frm not in BITS or to not in BITS:
        return False
    return BITS[to][1] < BITS[frm][1]


def capacity(to):
    s, b = BITS[to]
    return b - 1 if s else b


def writer_roots(fx):
    """instance nodes of every writer entry point: WriteBinary/WriteBinaryDep impl methods and the
    public producers of font bytes"""
    roots = []
    rx = re.compile(r"( as binary::write::WriteBinary(Dep)?<.*>>::write(_dep)?$)|^subset::|^variations::instance|^tables::glyf::subset|^cff::subset|^tables::cmap::subset|^tables::cmap::owned|^tables::owned")
    for n in fx.nodes:
        if n.get("local") and rx.search(n["path"]):
            roots.append(n["id"])
    return roots


READER_RX = re.compile(r" as binary::read::Read(Binary|BinaryDep|From|Unchecked)>::|^binary::read::|^<.* as tables::FontTableProvider>::|^font::|^gsub::|^gpos::|^layout::|^scripts::|^woff2?::|^outline::|::outline::|^bitmap::|^unicode::|^macroman::|^big5::|^glyph_info::")


def reachable_local_bodies(fx, roots):
    # parsing and shaping code reachable from the producers is not writer code: stop there
    seen = fx.reachable_nodes(roots, stop=lambda v: bool(READER_RX.search(fx.nodes[v]["path"])))
    seen = {v for v in seen if not READER_RX.search(fx.nodes[v]["path"])}
    dps = set()
    for nid in seen:
        n = fx.nodes[nid]
        if n.get("local"):
            dps.add(n["dp"])
    out = []
    for b in fx.bodies:
        if b.dp in dps or (b.kind == "Closure" and b.root_dp in dps):
            out.append(b)
    return out


def sites(fx, bodies):
    for b in bodies:
        if b.exp and ("ouroboros_impl_" in b.path or "::from_bits" in b.path):
            continue
        for bi, blk in enumerate(b.blocks):
            if not b.reachable(bi):
                continue
            for s in blk["s"]:
                if s["k"] == "assign" and s["rv"]["k"] == "cast" and s["rv"]["kind"] == "IntToInt" and lossy(s["rv"]["from"], s["rv"]["to"]):
                    if s.get("exp") and any(m in ("bitflags", "__impl_bitflags", "Debug", "Hash", "PartialEq", "PartialOrd", "Ord") for m in (s.get("macros") or [])):
                        continue
                    yield b, bi, s


def tuple_index(t):
    """the last tuple-field index a term projects (x.N), through refs/derefs/variants"""
    t = sym.strip(t)
    while t[0] in ("ref", "deref", "variant", "cast"):
        t = sym.strip(t[4] if t[0] == "cast" else t[1])
    if t[0] == "field" and (isinstance(t[2], int) or (isinstance(t[2], str) and t[2].isdigit())):
        return int(t[2])
    return None


def forall_guard(fx, b, prov, bi, s, frm, to):
    """`x as T` where x is an element of a collection and the cast is dominated by the true branch of
    `coll.iter().all(|e| T::try_from(e.N).is_ok())` over the same collection (shared reference: it cannot change in between)"""
    import guards
    op_t = prov.op(s["rv"]["op"])
    idx = tuple_index(op_t)
    def siteless(t):
        """a call term without its program point: two iter() calls over the same shared-reference parameter see the same elements"""
        if not isinstance(t, tuple):
            return t
        if t and t[0] == "call":
            return ("call", t[1], tuple(siteless(a) for a in t[2]), 0) + tuple(t[4:])
        return tuple(siteless(x) for x in t)

    def shared_param_only(t):
        roots = [x for x in sym.walk(t) if x[0] in ("arg", "local")]
        return bool(roots) and all(x[0] == "arg" and (b.local_ty(x[1]) or "").startswith("&") and not (b.local_ty(x[1]) or "").startswith("&mut") for x in roots)
    srcs = [siteless(sym.norm(x)) for x in sym.walk(op_t) if x[0] == "call" and (x[4] or x[1] or "").endswith("::iter") and shared_param_only(x)]
    if not srcs:
        return None
    for tb, fb, call, sw in guards.bool_call_conditions(b, prov):
        if tb is None or not b.dominates(tb, bi) or not (call[4] or call[1] or "").endswith("Iterator::all") or len(call[2]) < 2:
            continue
        it = sym.strip(call[2][0])
        while it[0] in ("ref", "deref"):
            it = sym.strip(it[1])
        if siteless(sym.norm(it)) not in srcs:
            continue
        cl = None
        for x in sym.walk(call[2][1]):
            if x[0] == "agg" and x[1] == "closure" and x[2]:
                cl = fx.body(x[2])
        if cl is None:
            continue
        cprov = sym.Prov(cl)
        ret = sym.strip(cprov.local(0))
        if not (ret[0] == "call" and (ret[1] or "").endswith("::is_ok") and ret[2]):
            continue
        inner = sym.strip(ret[2][0])
        while inner[0] in ("ref", "deref"):
            inner = sym.strip(inner[1])
        if not (inner[0] == "call" and re.search(r"TryFrom<%s> for %s>::try_from$" % (re.escape(frm), re.escape(to)), inner[1] or "")):
            continue
        if len(cl.blocks) > 4 or any(blk["t"]["k"] == "switch" for blk in cl.blocks):
            continue
        if tuple_index(inner[2][0]) == idx:
            return "every element passed %s::try_from(..).is_ok() in an all() over the same collection that dominates the cast" % to
    return None


def low_part_of_split(b, prov, s, to):
    """`x as u8` next to `(x >> 8 ..) as u8` of the same value in the same function: the cast takes the low part of a value that is
    written in pieces, the discarded bits are emitted by the sibling cast (big-endian byte splitting). Truncation is the point."""
    width = {"u8": 8, "i8": 8, "u16": 16, "i16": 16, "u32": 32, "i32": 32}.get(to)
    if not width:
        return None
    me = sym.norm(sym.strip(prov.op(s["rv"]["op"])))
    for bj in range(len(b.blocks)):
        if not b.reachable(bj):
            continue
        for st in b.stmts(bj):
            rv = st.get("rv") or {}
            if st is s or st.get("k") != "assign" or rv.get("k") != "cast" or rv.get("to") != to:
                continue
            for x in sym.walk(prov.op(rv["op"])):
                if x[0] == "bin" and x[1] == "Shr":
                    k = sym.strip(x[3])
                    if k[0] == "c" and k[1] == width and sym.norm(sym.strip(x[2])) == me:
                        return "low %d bits of a value whose upper part (value >> %d) is written by a sibling cast in the same function" % (width, width)
    return None


def rule_narrowing(run, fx, rule, floors=True, roots=None, select=None, floor_n=40):
    run.rule(rule, "every lossy integer cast reachable from the writers (fewer bits or a sign change) has an operand that provably fits the target "
                   "(constant, masked, shifted, widened from a narrower type, bounded arithmetic), is dominated by a comparison with a fitting "
                   "constant, or is audited in ledger/narrowing.jsonl; checked conversions (try_from) are not casts and need nothing")
    bodies = reachable_local_bodies(fx, roots) if roots is not None else list(fx.bodies)
    O = origins.Origins(fx)
    n = 0
    for b, bi, s in sites(fx, bodies):
        if select and not select(b):
            continue
        n += 1
        frm, to = s["rv"]["from"], s["rv"]["to"]
        cap = capacity(to)
        cl = O.classify_op(b, s["rv"]["op"])
        key = "narrow|%s|%s->%s" % (b.root, frm, to)
        if cl[0] == "const":
            run.ok(rule)
            continue
        if cl[0] == "bounded" and cl[1] <= cap and BITS[frm][0] == 0:
            run.ok(rule, "%s: %s as %s — operand bounded to %d bits (%s)" % (b.path, frm, to, cl[1], cl[2]))
            continue
        why = arith.local_bound(b, O.prov(b), bi, s["rv"]["op"])
        if why and "constant" in why:
            m = re.search(r"constant (\d+)", why)
            if m and int(m.group(1)).bit_length() <= cap:
                run.ok(rule, "%s: %s as %s — %s" % (b.path, frm, to, why))
                continue
        # modulo / remainder by a constant that fits
        t = sym.strip(O.prov(b).op(s["rv"]["op"]))
        if t[0] == "bin" and t[1] == "Rem":
            k = sym.strip(t[3])
            if k[0] == "c" and isinstance(k[1], int) and (k[1] - 1).bit_length() <= cap:
                run.ok(rule, "%s: %s as %s — operand is a remainder modulo %d" % (b.path, frm, to, k[1]))
                continue
        why = forall_guard(fx, b, O.prov(b), bi, s, frm, to) or low_part_of_split(b, O.prov(b), s, to)
        if why:
            run.ok(rule, "%s: %s as %s — %s" % (b.path, frm, to, why))
            continue
        import overflow
        import guards
        iv = overflow.Intervals(fx, b, O.prov(b)).at(guards.branch_conditions(b, O.prov(b)), bi).op(s["rv"]["op"])
        rng = overflow.INT.get(to)
        if iv is not None and rng is not None and rng[0] <= iv[0] and iv[1] <= rng[1]:
            run.ok(rule, "%s: %s as %s — operand in [%d, %d] by interval arithmetic" % (b.path, frm, to, iv[0], iv[1]))
            continue
        run.fail(rule, key, "lossy cast %s as %s in %s: the operand (%s) is not shown to fit; a value that does not fit is silently truncated" % (
            frm, to, b.path, cl[1] if len(cl) > 1 else cl[0]), b.loc(s), ledger="narrowing", alt_keys=fx.alt_keys(b, key))
    if floors:
        run.floor(rule, "lossy integer casts examined", n, floor_n)
    return n
