"""C01 — untrusted font data is rejected with an error, never a crash (clauses a-h)."""
import arith
import indexing
import overflow
import loops
import panics
import recursion

LEVEL = "other"
EXPLANATION = (
    "C01 is split into clauses that are visible in the shape of the code and decided over the whole crate: (C01-a) every "
    "recursive cycle of the per-instance call graph passes a depth guard with a monotone counter — bounded stack for every font; "
    "(C01-b) every documented panic site (unwrap/expect, panic!/unreachable!/assert!/todo!, range slicing, std calls that panic on "
    "an argument relation) is locally discharged by a dominating check, or is an audited exception with a written reason in "
    "ledger/explicit_panic.jsonl, or a known finding — a new site or a site whose guard is removed is a violation; (C01-c) every "
    "allocation size originates from a constant, an in-memory length, a type-bounded value or an API argument; (C01-d) every "
    "division by a non-constant is guarded against zero; (C01-f) every hand-written loop has a progress witness; (C01-g) every element "
    "indexing site x[i] is discharged by a constant/type-bounded index into a fixed-size array or a dominating i < x.len() on the same "
    "receiver and value, or is an audited site with a written in-range argument (ledger/index.jsonl, 257 sites read by four independent "
    "reviewers) — a new indexing site or a removed bound check is a violation; (C01-e) every overflow-checked integer operation in scope "
    "(MIR Overflow asserts: every subtraction in any integer type; add/mul/neg/shift/div/rem narrower than 64 bits) is discharged by interval "
    "arithmetic over the provenance of its operands (type ranges through widening casts and From, constants, masks, shifts, min/max/clamp, "
    "len()), by a dominating comparison or constant bound on the same SSA values, by !is_empty() for len() - 1, or as the difference of two "
    "readings of one write counter, or is an audited site (ledger/arith.jsonl: 218 residual sites read by four independent reviewers; the "
    "verdict 'panics' became a fix: commit, never a ledger entry); (C01-h) String operations that panic inside a multi-byte character are "
    "applied only to strings that are ASCII by construction."
)
NOT_DECIDED = (
    "add/mul overflow in 64-bit integer types (on a 64-bit target the operands derive from <=32-bit font fields, lengths of data in memory and "
    "counters; 32-bit targets are not decided); allocation failure; running time of terminating loops (e.g. cmap format 12 group iteration); "
    "decompression output size in WOFF/WOFF2. Audited ledger entries state why a site is safe; when the supporting invariant lives in another "
    "function, an edit to that function is not seen by the rule that owns the entry."
)
ASSUMPTIONS = ["std/core functions panic only as documented", "third-party crates (brotli, flate2, encoding_rs) do not panic on any input"]


def check(run, fx, tier, floors=True):
    if floors or any(b.path.endswith("argstack::ArgumentsStack::<'a, T>::push") for b in fx.bodies):
        import rules_C18
        rules_C18.t18_stack(run, fx, floors)
    recursion.run_rule(run, fx, "C01-a", lambda f: True, floors_n=6 if floors else None)
    rule_panics(run, fx, "C01-b", None, floors)
    arith.rule_alloc(run, fx, "C01-c", floors)
    arith.rule_div(run, fx, "C01-d", floors)
    loops.rule_loops(run, fx, "C01-f", floors)
    indexing.rule_index(run, fx, "C01-g", floors)
    overflow.rule_overflow(run, fx, "C01-e", floors)
    import relies
    relies.rule_relies(run, fx, "C01-r", floors)
    rule_char_boundary(run, fx, "C01-h", floors)


CHAR_BOUNDARY_FNS = ("String::truncate", "String::insert", "String::insert_str", "String::remove", "String::drain", "String::replace_range",
                     "String::split_off", "str::<impl str>::split_at", "str::<impl str>::split_at_mut")
ASCII_PREDICATES = ("is_ascii_alphanumeric", "is_ascii_alphabetic", "is_ascii_digit", "is_ascii_hexdigit", "is_ascii_graphic",
                    "is_ascii_punctuation", "is_ascii_lowercase", "is_ascii_uppercase", "is_ascii")


def rule_char_boundary(run, fx, rule, floors=True):
    run.rule(rule, "std String/str operations that panic on a byte index that is not a char boundary (truncate, insert, remove, drain, "
                   "replace_range, split_off, split_at) are applied only to strings that are ASCII by construction: the receiver is the "
                   "collect() of a chars() chain through a filter whose closure is an is_ascii_* predicate (every byte index of an ASCII "
                   "string is a char boundary), or the index is a constant 0 / the string's own len()")
    import sym
    n = 0
    for b in fx.bodies:
        for bi, t in b.calls():
            p = t["callee"].get("rpath") or t["callee"].get("path") or ""
            if not p.endswith(CHAR_BOUNDARY_FNS):
                continue
            n += 1
            prov = sym.Prov(b)
            recv = sym.strip(prov.op(t["args"][0]))
            while recv[0] in ("ref", "deref"):
                recv = sym.strip(recv[1])
            why = None
            if len(t["args"]) > 1:
                ix = sym.strip(prov.op(t["args"][1]))
                if ix[0] == "c" and ix[1] == 0:
                    why = "index 0"
            if why is None:
                # receiver: a single-definition local assigned from collect(filter(chars(..), closure))
                chain = [x for x in sym.walk(recv) if x[0] == "call"]
                names = [(x[4] or x[1] or "") for x in chain]
                if any(nm.endswith("Iterator::collect") for nm in names) and any(nm.endswith("Iterator::filter") for nm in names):
                    ok = False
                    for x in chain:
                        if (x[4] or x[1] or "").endswith("Iterator::filter"):
                            for a in x[2]:
                                cl = closure_of(fx, b, a)
                                if cl is not None and cl.calls() and all(
                                        (tt["callee"].get("path") or "").split("::")[-1] in ASCII_PREDICATES for _, tt in cl.calls()):
                                    ok = True
                    if ok:
                        why = "the string is collected from chars() filtered by an is_ascii_* predicate: ASCII only"
            if why:
                run.ok(rule, "%s in %s: %s" % (p.split("::")[-1], b.path, why))
            else:
                run.fail(rule, "charboundary|%s|%s" % (b.root, p.split("::")[-1]),
                         "%s in %s may be called with a byte index inside a multi-byte character: the string is not shown to be ASCII" % (p, b.path),
                         b.loc(t), ledger="explicit_panic")
    if floors:
        run.floor(rule, "char-boundary sensitive String operations", n, 1)


def closure_of(fx, b, term):
    """the closure body passed as this argument term (an aggregate of kind closure), if local"""
    import sym
    for x in sym.walk(term):
        if x[0] == "agg" and x[1] == "closure":
            # the driver names closure bodies <parent>::{closure#N}; the aggregate carries the def path in x[2] when known
            name = x[2] if len(x) > 2 and isinstance(x[2], str) else None
            if name:
                cb = fx.body(name)
                if cb is not None:
                    return cb
    return None


def rule_panics(run, fx, rule, select, floors, floor_n=200):
    run.rule(rule, "every documented panic site is discharged by a dominating check, audited in ledger/explicit_panic.jsonl (key = kind|function|callee|payload, "
                   "with a count), or a known finding; new sites, higher counts and removed guards are violations")
    sites = panics.enumerate_sites(fx)
    n = 0
    for s in sites:
        if select and not select(s.body):
            continue
        n += 1
        why = panics.discharge(fx, s)
        if why:
            run.ok(rule, "%s in %s: %s" % (s.what, s.body.path, why))
            continue
        msg = "explicit panic site (%s %s %s) is neither discharged by a dominating check nor audited" % (s.cls, s.what, s.payload)
        if s.debug_only:
            msg += " [debug builds only]"
        run.fail(rule, s.key(), msg, s.loc(), ledger="explicit_panic", alt_keys=fx.alt_keys(s.body, s.key()))
    if floors:
        run.floor(rule, "explicit panic sites", n, floor_n)
    return n
