//! STAT: `name_for_axis_value` picks the axis value nearest to the requested one by comparing |candidate - value|. The
//! difference is a wrapping 16.16 subtraction and can be 0x8000_0000, whose absolute value does not exist in i32:
//! `Fixed::abs` panicked ("attempt to negate with overflow"). Instancing a variable font reaches this through
//! `typographic_subfamily_name` with the values of the font's STAT table.
use allsorts::binary::read::ReadScope;
use allsorts::tables::variable_fonts::stat::{ElidableName, StatTable};
use allsorts::tables::Fixed;

/// STAT 1.1 with one design axis and two format 1 axis values for it
fn stat(values: [i32; 2]) -> Vec<u8> {
    let mut t = Vec::new();
    t.extend_from_slice(&[0, 1, 0, 1]); // version 1.1
    t.extend_from_slice(&8u16.to_be_bytes()); // designAxisSize
    t.extend_from_slice(&1u16.to_be_bytes()); // designAxisCount
    t.extend_from_slice(&20u32.to_be_bytes()); // designAxesOffset
    t.extend_from_slice(&2u16.to_be_bytes()); // axisValueCount
    t.extend_from_slice(&28u32.to_be_bytes()); // offsetToAxisValueOffsets
    t.extend_from_slice(&2u16.to_be_bytes()); // elidedFallbackNameID
    assert_eq!(t.len(), 20);
    t.extend_from_slice(b"wght"); // axisTag
    t.extend_from_slice(&256u16.to_be_bytes()); // axisNameID
    t.extend_from_slice(&0u16.to_be_bytes()); // axisOrdering
    assert_eq!(t.len(), 28);
    t.extend_from_slice(&4u16.to_be_bytes()); // axisValueOffsets[0], from the start of this array
    t.extend_from_slice(&16u16.to_be_bytes()); // axisValueOffsets[1]
    for (i, value) in values.iter().enumerate() {
        t.extend_from_slice(&1u16.to_be_bytes()); // format
        t.extend_from_slice(&0u16.to_be_bytes()); // axisIndex
        t.extend_from_slice(&0u16.to_be_bytes()); // flags
        t.extend_from_slice(&(257 + i as u16).to_be_bytes()); // valueNameID
        t.extend_from_slice(&value.to_be_bytes()); // value
    }
    t
}

#[test]
fn nearest_axis_value_with_extreme_distance() {
    let data = stat([400 << 16, i32::MIN]);
    let table = ReadScope::new(&data).read::<StatTable<'_>>().expect("STAT");
    // the second candidate is 0x8000_0000 away from the requested value 0
    let name = table.name_for_axis_value(0, Fixed::from_raw(0), ElidableName::Include);
    assert_eq!(name, Some(257));
}

#[test]
fn nearest_axis_value_ordinary() {
    let data = stat([400 << 16, 700 << 16]);
    let table = ReadScope::new(&data).read::<StatTable<'_>>().expect("STAT");
    assert_eq!(table.name_for_axis_value(0, Fixed::from(650.0), ElidableName::Include), Some(258));
    assert_eq!(table.name_for_axis_value(0, Fixed::from(450.0), ElidableName::Include), Some(257));
}
