"""Shape helpers: switches on enum discriminants (dispatch exhaustiveness), variant names of
aggregate terms, decision lists."""
import re

import sym


def strip_ty(ty):
    ty = re.sub(r"^&(?:'\w+ )?(?:mut )?", "", ty or "")
    out = []
    depth = 0
    for ch in ty:
        if ch == "<":
            depth += 1
        elif ch == ">":
            depth -= 1
        elif depth == 0:
            out.append(ch)
    return "".join(out)


def discr_switches(body):
    """(bb, switch terminator, type of the place whose discriminant is switched on)"""
    for bi, blk in enumerate(body.blocks):
        t = blk["t"]
        if t["k"] != "switch" or not body.reachable(bi):
            continue
        o = t["discr"]
        if o["k"] not in ("copy", "move") or o["p"]["p"]:
            continue
        d = body.single_def(o["p"]["l"])
        if d is None or d[2] != "assign" or d[3]["rv"]["k"] != "discr":
            continue
        yield bi, t, d[3]["rv"]["p"].get("ty", "")


def exhaustive_dispatch(fx, body, adt_path):
    """For every switch of `body` on the discriminant of a value of enum `adt_path`:
    list of (bb, missing variant names, wildcard?) — a variant is missing when it has no arm of its
    own; the otherwise edge may stand for exactly one unlisted variant only if it is the sole one.
    Returns (n_switches, problems)."""
    adt = fx.adt(adt_path)
    if adt is None:
        return 0, ["enum %s not found" % adt_path]
    variants = {v["discr"]: v["name"] for v in adt["variants"]}
    n = 0
    problems = []
    for bi, t, pty in discr_switches(body):
        if strip_ty(pty) != adt_path:
            continue
        n += 1
        listed = {v for v, _ in t["arms"]}
        missing = [name for d, name in sorted(variants.items()) if d not in listed]
        other_unreachable = body.term(t["otherwise"])["k"] == "unreachable"
        if missing and not (len(missing) == 1 and not other_unreachable):
            problems.append((bi, missing, t))
        elif missing and len(variants) > 2:
            # one variant compiled as the otherwise edge: only acceptable when the source listed it; rustc
            # does this for the last arm of an exhaustive match, which is indistinguishable from `_ =>`
            # when exactly one variant is left, and semantically the same.
            pass
    return n, problems


def variant_names(t):
    """names of enum variants constructed inside a term, outermost first"""
    out = []
    for x in sym.walk(t):
        if x[0] == "agg" and x[2]:
            out.append(x[2])
    return out


def arm_region(body, start, join_avoid=frozenset()):
    return body.reach_from(start, avoid=join_avoid)
