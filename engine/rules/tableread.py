"""Table reading (DESIGN 5E): evaluated statics/consts -> rows; match-tables (SwitchInt) -> maps."""
import sym
from facts import op_local


def static_rows(st):
    """st: entry of tables.statics/consts with bytes+layout of an array type -> list of rows
    (dict field->int for struct elements, int for scalar elements). None if not that shape."""
    lay = st.get("layout")
    hx = st.get("bytes")
    if not lay or hx is None or "array_of" not in lay:
        return None
    data = bytes.fromhex(hx)
    el = lay["array_of"]
    n = lay.get("len")
    size = el["size"]
    if n is None or size * n != len(data):
        return None
    rows = []
    for i in range(n):
        chunk = data[i * size:(i + 1) * size]
        if "fields" in el:
            row = {}
            for f in el["fields"]:
                row[f["name"]] = int.from_bytes(chunk[f["offset"]:f["offset"] + f["size"]], "little", signed=f["ty"].startswith("i"))
            rows.append(row)
        else:
            rows.append(int.from_bytes(chunk, "little", signed=el["ty"].startswith("i")))
    return rows


def tag_str(v):
    return bytes([(v >> 24) & 255, (v >> 16) & 255, (v >> 8) & 255, v & 255]).decode("latin-1")


def match_table(body):
    """A function whose body is one `match scalar { consts => const result, .. }`:
    returns (discriminant term, {value: result term}, otherwise result term) using the SwitchInt at
    the head and the constants assigned to the return place in each arm. Result terms are Prov
    terms of the value assigned to _0 in the arm block (followed through gotos)."""
    prov = sym.Prov(body)
    sw = None
    for bi in body.rpo():
        t = body.term(bi)
        if t["k"] == "switch":
            sw = (bi, t)
            break
    if sw is None:
        return None
    bi, t = sw

    def arm_result(bb):
        # follow straight-line blocks until _0 is assigned
        seen = set()
        while bb not in seen:
            seen.add(bb)
            for s in body.stmts(bb):
                if s["k"] == "assign" and s["p"]["l"] == 0 and not s["p"]["p"]:
                    return prov.rvalue(s["rv"])
            tt = body.term(bb)
            if tt["k"] == "goto":
                bb = tt["target"]
            elif tt["k"] == "switch":
                return ("nested", bb)
            else:
                return None
        return None
    arms = {}
    for v, tgt in t["arms"]:
        arms[v] = arm_result(tgt)
    return prov.op(t["discr"]), arms, arm_result(t["otherwise"]), bi
