"""Rule "zip alignment": Iterator::zip pairs two sequences position by position. When exactly one side has passed through an
adaptor that changes which positions survive (filter, filter_map, flatten, flat_map, skip, skip_while, take_while, step_by),
the pairs no longer line up with the parallel tables they come from (deltas with regions, components with deltas, scalars
with deltas). A zip whose two sides differ in such adaptors is a violation; both sides filtered alike, or none, is fine."""
import sym

SHIFTING = ("Iterator::filter", "Iterator::flatten", "Iterator::filter_map", "Iterator::skip_while", "Iterator::take_while",
            "Iterator::step_by", "Iterator::flat_map", "Iterator::skip")


def rule_zip(run, fx, rule, select=None, floors=True, floor_n=1):
    run.rule(rule, "every Iterator::zip pairs sequences that were shortened or filtered alike: an adaptor that drops or skips elements "
                   "(filter, filter_map, flatten, flat_map, skip, skip_while, take_while, step_by) on one side only shifts the pairing of "
                   "parallel tables (regions and scalars, components and deltas, points and deltas)")
    n = 0
    for b in fx.bodies:
        if b.exp or (select and not select(b)):
            continue
        prov = None
        for bi, t in b.calls():
            p = t["callee"].get("path") or ""
            if not p.endswith("Iterator::zip") or len(t["args"]) != 2:
                continue
            n += 1
            prov = prov or sym.Prov(b)
            sides = []
            for a in t["args"]:
                tm = prov.op(a)
                sides.append(sorted({(x[4] or x[1] or "").split("::")[-1] for x in sym.walk(tm) if x[0] == "call" and (x[4] or x[1] or "").endswith(SHIFTING)}))
            if sides[0] != sides[1]:
                run.fail(rule, "zip:%s" % b.root, "%s zips a sequence that went through %s with one that went through %s: the pairs are shifted against each other "
                         "whenever an element is dropped" % (b.path, sides[0] or "no dropping adaptor", sides[1] or "no dropping adaptor"), b.loc(t))
            else:
                run.ok(rule, "%s: zip of equally shaped sequences" % b.path)
    if floors:
        run.floor(rule, "zip calls examined", n, floor_n)
    return n
