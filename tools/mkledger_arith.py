#!/usr/bin/env python3
"""Build ledger/arith.jsonl from the independent audit results (findings/arith/arith_result_*.jsonl plus
findings/widen/widen_result.jsonl) for the overflow-checked arithmetic sites that rule C01-e / C02-o cannot
discharge on the CURRENT /repo tree. A site is matched to its audit row by (function, op, type, source
line text); only rows with verdict SAFE (or PANICS that needs a direct API call with arithmetic-typed
arguments, class "api") become ledger entries. Everything else is printed as UNMATCHED and stays a violation.

  tools/mkledger_arith.py [--write]"""
import collections
import glob
import json
import linecache
import os
import re
import sys

HERE = os.path.dirname(os.path.dirname(os.path.abspath(__file__)))
sys.path.insert(0, os.path.join(HERE, "engine", "rules"))


def norm_src(s):
    return re.sub(r"\s+", " ", s or "").strip()


def main():
    import extract
    import facts as F
    import origins
    import overflow
    fx = F.Facts(extract.repo_facts("prince"))
    O = origins.Origins(fx)
    cache = {}
    rows = {}
    sites_files = {}
    for f in sorted(glob.glob(os.path.join(HERE, "findings", "arith", "arith_sites_*.jsonl"))):
        for l in open(f):
            d = json.loads(l)
            sites_files[d["id"]] = d
    for f in sorted(glob.glob(os.path.join(HERE, "findings", "arith", "arith_result_*.jsonl"))):
        for l in open(f):
            l = l.strip()
            if not l:
                continue
            d = json.loads(l)
            s = sites_files.get(d["id"])
            if not s:
                print("result without site", d["id"])
                continue
            rows.setdefault((s["key"], norm_src(s["src"])), []).append((d, s))
    extra = os.path.join(HERE, "findings", "arith", "manual.jsonl")
    if os.path.isfile(extra):
        for l in open(extra):
            l = l.strip()
            if l:
                d = json.loads(l)
                rows[(d["key"], norm_src(d["src"]))] = [(d, d)]  # a manual review overrides the audit row
    entries = collections.OrderedDict()
    unmatched = []
    for s in overflow.sites(fx):
        if overflow.discharge(fx, O, s, cache):
            continue
        ln = s.t.get("line")
        src = norm_src(linecache.getline(os.path.join(extract.REPO, s.b.file), ln))
        got = rows.get((s.key(), src))
        if not got:
            # the same function and operator, any line with the same text after whitespace normalisation failed: try key only when unique
            cands = [v for (k, t), v in rows.items() if k == s.key()]
            unmatched.append((s.key(), s.loc(), src, len(cands)))
            continue
        d, site = got[0]
        verdict = d.get("verdict")
        cls = None
        if verdict == "SAFE":
            cls = "safe"
        elif verdict == "API":
            cls = "api"
        if cls is None:
            unmatched.append((s.key(), s.loc(), src, "verdict %s" % verdict))
            continue
        e = entries.setdefault(s.key(), {"key": s.key(), "count": 0, "class": cls, "reason": [], "audited": "2026-09-29 (independent reviewers A-D; findings/arith/arith_result_*.jsonl)"})
        e["count"] += 1
        r = "[%s:%s] %s" % (os.path.basename(s.b.file), ln, d.get("reason", ""))
        if r not in e["reason"]:
            e["reason"].append(r)
        if cls == "api":
            e["class"] = "api"
    for e in entries.values():
        e["reason"] = " | ".join(e["reason"])
    print("ledger entries: %d covering %d sites; unmatched: %d" % (len(entries), sum(e["count"] for e in entries.values()), len(unmatched)))
    for u in unmatched:
        print("UNMATCHED", u)
    if "--write" in sys.argv:
        with open(os.path.join(HERE, "ledger", "arith.jsonl"), "w") as f:
            for e in entries.values():
                f.write(json.dumps(e) + "\n")
        print("written")


if __name__ == "__main__":
    main()
