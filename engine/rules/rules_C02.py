"""C02 — shaping is total and yields well-formed glyph runs: the structural clauses.

C01-a    bounded recursion on the shaping cycles (GSUB nested contexts, cursive chains)
C02-b    RefCell typestate on the layout caches: no conflicting borrow while a guard is alive
C02-c    explicit panic discipline in the shaping modules (rule C01-b restricted to them)
C02-d    Font::shape forges ahead: no early return, every fallible step is recorded, the run is returned with the error
C02-e    glyph ids are clamped: every Ok path of gsub_apply_custom/default passes replace_missing_glyphs
C02-g    loop progress in the shaping modules (rule C01-f restricted to them)
C02-t    script tag tables agree: every tag dispatched to the Indic shaper is in the domain of its tag tables
"""
import borrows
import indexing
import overflow
import loops
import reach
import recursion
import rules_C01
import sym
import tableread
from facts import callee_is, op_local

LEVEL = "other"
EXPLANATION = (
    "Decides the clauses of C02 that are visible in the shape of the code, over the shaping modules (font.rs, gsub.rs, gpos.rs, context.rs, "
    "layout.rs, glyph_position.rs, scripts/*, layout/morx.rs, tables/kern.rs, tables/morx.rs): bounded recursion on every call-graph cycle; a "
    "RefCell typestate over the per-instance call graph (while a borrow()/borrow_mut() guard of a cache cell is alive no call can reach a "
    "conflicting borrow of the same cell, so BorrowMutError cannot occur for any call sequence); explicit panic discipline with an audited "
    "ledger; loop progress witnesses; Font::shape has no early return — every fallible step's Result flows into check_set_err and every return "
    "is dominated by Info::init_from_glyphs, so an error is always accompanied by the best-effort run; every Ok path of the two GSUB drivers "
    "passes replace_missing_glyphs, so ids are clamped to the glyph count; and the tag tables agree: every script tag that ScriptType::from "
    "sends to the Indic shaper has an arm in indic::script and indic::indic2_tag (whose fallback arms panic). Element indexing (C02-i) and "
    "overflow-checked arithmetic (C02-o) of the shaping modules are decided as in C01 (local discharge or independently audited ledger); the "
    "lookup caches keep their index discipline (C02-s: sentinel list, never shrunk, remembered index = length before the push); every "
    "attachment index stored in a gpos::Placement was bounds-checked against the glyph buffer when the placement was built, is an enumerate "
    "position, or is copied from a Placement (C02-f), and the buffer is a slice that cannot shrink afterwards."
)
NOT_DECIDED = (
    "that the characters attributed to glyphs are characters of the input, that glyph ids of well-formed fonts are below the glyph count beyond "
    "the clamp, and add/mul overflow in 64-bit types are not decided."
)
ASSUMPTIONS = ["RefCell panics exactly when a conflicting guard is alive (std contract)", "std/core functions panic only as documented"]

FILES = ("src/font.rs", "src/gsub.rs", "src/gpos.rs", "src/context.rs", "src/layout.rs", "src/glyph_position.rs", "src/scripts/indic.rs",
         "src/scripts/khmer.rs", "src/scripts/myanmar.rs", "src/scripts/arabic.rs", "src/scripts/syriac.rs", "src/scripts/thai_lao.rs",
         "src/scripts/mod.rs", "src/scripts/syllable.rs", "src/layout/morx.rs", "src/tables/kern.rs", "src/tables/morx.rs", "src/unicode/mcc.rs")
SHAPE = "font::Font::<T>::shape"


def in_scope(b):
    return b.file in FILES


def c02_d(run, fx):
    rule = "C02-d"
    run.rule(rule, "Font::shape: no `?`/early return; the Result of every fallible step is handed to check_set_err; every return is dominated by "
                   "Info::init_from_glyphs; the function ends in the single match on the recorded error")
    b = fx.body(SHAPE)
    if b is None:
        return run.anchor_missing(rule, SHAPE)
    tries = [bi for bi, t in b.calls() if callee_is(t, "std::ops::Try::branch", "std::ops::FromResidual::from_residual")]
    if tries:
        run.fail(rule, "shape:early-return", "Font::shape uses `?` (%d site(s)): an error would be returned without the glyph run" % len(tries), b.loc(b.term(tries[0])))
    else:
        run.ok(rule, "Font::shape contains no `?`")
    init = [bi for bi, t in b.calls() if callee_is(t, "Info::init_from_glyphs")]
    rets = b.return_blocks()
    if not init:
        run.anchor_missing(rule, "call to Info::init_from_glyphs in Font::shape")
    else:
        bad = [r for r in rets if not any(b.dominates(i, r) for i in init)]
        if bad or not rets:
            run.fail(rule, "shape:return-before-infos", "a return of Font::shape is not dominated by Info::init_from_glyphs", "%s:%s" % (b.file, b.line))
        else:
            run.ok(rule, "%d return(s) dominated by Info::init_from_glyphs" % len(rets))
    # every Result-typed call result of the body and its closures flows into check_set_err
    n = 0
    for fb in fx.family(b):
        for bi, t in fb.calls():
            ty = t["dest"].get("ty") or ""
            if not ty.startswith("std::result::Result<") or t["dest"]["p"]:
                continue
            if callee_is(t, "font::check_set_err"):
                continue
            n += 1
            dl = t["dest"]["l"]
            holders = {dl}
            changed = True
            while changed:
                changed = False
                for bj, blk in enumerate(fb.blocks):
                    for s in blk["s"]:
                        if s["k"] == "assign" and not s["p"]["p"] and s["rv"]["k"] == "use" and op_local(s["rv"]["op"]) in holders and s["p"]["l"] not in holders:
                            holders.add(s["p"]["l"])
                            changed = True
            sunk = False
            for bj, t2 in fb.calls():
                if callee_is(t2, "font::check_set_err") and t2["args"] and op_local(t2["args"][0]) in holders:
                    sunk = True
            name = (t["callee"].get("path") or "?").split("::")[-1]
            if sunk:
                run.ok(rule, "Result of %s is recorded by check_set_err" % name)
            else:
                run.fail(rule, "shape:unrecorded:%s" % name, "the Result of %s in Font::shape is not handed to check_set_err (dropped, unwrapped or returned early)" % name, fb.loc(t))
    if n < 6:
        run.anchor_missing(rule, "fallible steps in Font::shape (found %d)" % n)


def c02_e(run, fx):
    rule = "C02-e"
    run.rule(rule, "gsub_apply_custom / gsub_apply_default: every path from entry to a block that sets the Ok result passes through "
                   "replace_missing_glyphs, and no call that can change the glyph buffer follows it")
    for path in ("gsub::gsub_apply_custom", "gsub::gsub_apply_default"):
        b = fx.body(path)
        if b is None:
            run.anchor_missing(rule, path)
            continue
        repl = [bi for bi, t in b.calls() if callee_is(t, "gsub::replace_missing_glyphs")]
        oks = []
        for bi, blk in enumerate(b.blocks):
            if not b.reachable(bi):
                continue
            for s in blk["s"]:
                if s["k"] == "assign" and s["p"]["l"] == 0 and not s["p"]["p"] and s["rv"]["k"] == "agg" and s["rv"].get("vname") == "Ok":
                    oks.append(bi)
        if not repl:
            run.fail(rule, "clamp:%s:missing" % path, "%s no longer calls replace_missing_glyphs: substituted ids are not clamped to the glyph count" % path, "%s:%s" % (b.file, b.line))
            continue
        if not oks:
            run.anchor_missing(rule, "Ok result of %s" % path)
            continue
        if reach.must_pass(b, 0, oks, repl):
            run.ok(rule, "%s: all paths to %d Ok block(s) pass replace_missing_glyphs" % (path, len(oks)))
        else:
            run.fail(rule, "clamp:%s:bypass" % path, "a path to an Ok return of %s bypasses replace_missing_glyphs" % path, "%s:%s" % (b.file, b.line))
        # nothing that takes the glyph buffer mutably runs after the clamp
        gl = [l for l in range(1, b.arg_count + 1) if b.local_name(l) == "glyphs"]
        after = set()
        for r in repl:
            for s_ in b.succs(r):
                after |= b.reach_from(s_)
        late = []
        for bi in sorted(after):
            t = b.term(bi)
            if t["k"] == "call" and bi not in repl:
                for a in t["args"]:
                    if a["k"] in ("copy", "move") and gl and b.local_ty(a["p"]["l"]) == b.local_ty(gl[0]) and b.local_ty(gl[0]).startswith("&mut "):
                        late.append((bi, t))
        if late:
            run.fail(rule, "clamp:%s:late-mutation" % path, "%s is called on the glyph buffer after replace_missing_glyphs" % (late[0][1]["callee"].get("path")), b.loc(late[0][1]))
        else:
            run.ok(rule, "%s: no glyph-buffer mutation after the clamp" % path)


def c02_t(run, fx):
    rule = "C02-t"
    run.rule(rule, "every script tag that ScriptType::from maps to Indic has a non-panicking arm in indic::script and indic::indic2_tag "
                   "(both fall back to panic!), read from the three match tables")
    fb = fx.body("<scripts::ScriptType as std::convert::From<u32>>::from")
    if fb is None:
        bs = [b for b in fx.bodies if b.path.endswith("scripts::ScriptType>::from") or ("ScriptType" in b.path and b.path.endswith(">::from"))]
        fb = bs[0] if len(bs) == 1 else None
    if fb is None:
        return run.anchor_missing(rule, "ScriptType::from")
    mt = tableread.match_table(fb)
    if mt is None:
        return run.fail(rule, "tags:ScriptType::from:shape", "ScriptType::from is not a match table", "%s:%s" % (fb.file, fb.line))
    _, arms, other, _ = mt
    indic = set()
    for v, res in arms.items():
        names = [x[2] for x in sym.walk(res) if x[0] == "agg"] if res else []
        if names and names[0] == "Indic":
            indic.add(v)
    if len(indic) < 5:
        return run.anchor_missing(rule, "tags mapped to ScriptType::Indic (found %d)" % len(indic))
    for path in ("scripts::indic::script", "scripts::indic::indic2_tag"):
        b = fx.body(path)
        if b is None:
            run.anchor_missing(rule, path)
            continue
        mt2 = tableread.match_table(b)
        if mt2 is None:
            run.fail(rule, "tags:%s:shape" % path, "%s is not a match table" % path, "%s:%s" % (b.file, b.line))
            continue
        _, arms2, other2, _ = mt2
        dom = {v for v, res in arms2.items() if res is not None}
        missing = sorted(indic - dom)
        if missing:
            run.fail(rule, "tags:%s:%s" % (path, ",".join(tableread.tag_str(m) for m in missing)),
                     "script tag(s) %s are dispatched to the Indic shaper but fall into the panicking arm of %s" % ([tableread.tag_str(m) for m in missing], path), "%s:%s" % (b.file, b.line))
        else:
            run.ok(rule, "%s covers all %d Indic tags" % (path, len(indic)))


def c02_s(run, fx):
    rule = "C02-s"
    run.rule(rule, "lookup cache sentinel: new_layout_cache creates cached_lookups with one (empty) list, so the index 0 that "
                   "get_lookups_cache_index returns for a script/language the font lacks is a valid element; the list is only ever pushed to")
    b = fx.body("layout::new_layout_cache")
    if b is None:
        return run.anchor_missing(rule, "layout::new_layout_cache")
    prov = sym.Prov(b)
    seeded = False
    for bi, blk in enumerate(b.blocks):
        for s_ in blk["s"]:
            if s_["k"] == "assign" and s_["rv"]["k"] == "agg" and s_["rv"].get("adt") == "layout::LayoutCacheData":
                f = dict(zip(s_["rv"]["fnames"], s_["rv"]["fields"]))
                t = prov.op(f["cached_lookups"])
                for x in sym.walk(t):
                    # vec![Vec::new()]  ->  box [..; 1] into_vec   or   from_elem(_, 1)
                    if x[0] == "agg" and x[1] == "array" and len(x[3]) >= 1:
                        seeded = True
                    if x[0] == "call" and (x[1] or "").endswith("from_elem") and len(x[2]) == 2 and sym.strip(x[2][1])[0] == "c" and (sym.strip(x[2][1])[1] or 0) >= 1:
                        seeded = True
                    if x[0] == "repeat":
                        seeded = True
    if not seeded:
        # vec![x] expands to a boxed [T; 1] that is turned into a Vec: follow the definition chain of the
        # field operand and look at the types of the locals on it
        import re as _re
        for bi, blk in enumerate(b.blocks):
            for s_ in blk["s"]:
                if s_["k"] == "assign" and s_["rv"]["k"] == "agg" and s_["rv"].get("adt") == "layout::LayoutCacheData":
                    f = dict(zip(s_["rv"]["fnames"], s_["rv"]["fields"]))
                    work = [f["cached_lookups"]["p"]["l"]] if f["cached_lookups"]["k"] in ("copy", "move") else []
                    seen = set()
                    while work:
                        l = work.pop()
                        if l in seen or len(seen) > 12:
                            continue
                        seen.add(l)
                        m = _re.search(r"\[.*; (\d+)\]", b.local_ty(l))
                        if m and int(m.group(1)) >= 1:
                            seeded = True
                        for d in b.defs().get(l, []):
                            if d[2] == "assign":
                                o = d[3]["rv"].get("op")
                                if o and o["k"] in ("copy", "move"):
                                    work.append(o["p"]["l"])
                            elif d[2] == "call":
                                for a_ in d[3]["args"]:
                                    if a_["k"] in ("copy", "move"):
                                        work.append(a_["p"]["l"])
    if seeded:
        run.ok(rule, "new_layout_cache: cached_lookups starts with one element")
    else:
        run.fail(rule, "cached-lookups-sentinel", "new_layout_cache no longer seeds cached_lookups with the empty list: index 0 (script/language not in the font) is out of bounds", "%s:%s" % (b.file, b.line))
    # nothing but push/len/borrow/index touches cached_lookups
    bad = []
    for fb in fx.bodies:
        prov2 = None
        for bi, t in fb.calls():
            p = t["callee"].get("path") or ""
            if p.startswith("std::vec::Vec::<T, A>::") and p.split("::")[-1] in ("clear", "truncate", "pop", "remove", "swap_remove", "drain", "retain", "split_off", "dedup"):
                if prov2 is None:
                    prov2 = sym.Prov(fb)
                if any(x[0] == "field" and x[2] == "cached_lookups" for x in sym.walk(prov2.op(t["args"][0]))):
                    bad.append("%s in %s" % (p.split("::")[-1], fb.path))
    if bad:
        run.fail(rule, "cached-lookups-shrinks", "cached_lookups is shrunk: %s (cached indices would dangle)" % bad, "")
    else:
        run.ok(rule, "cached_lookups is never shrunk")
    # every index remembered in lookups_index is 0 (the sentinel) or the length of cached_lookups read before the push of the new list
    n = 0
    for fb in fx.bodies:
        if not fb.root.endswith("get_lookups_cache_index"):
            continue
        prov2 = sym.Prov(fb)
        pushes = [bj for bj, t2 in fb.calls() if (t2["callee"].get("path") or "").endswith("Vec::<T, A>::push")
                  and any(x[0] == "field" and x[2] == "cached_lookups" for x in sym.walk(prov2.op(t2["args"][0])))]
        for bi, t in fb.calls():
            p = t["callee"].get("path") or ""
            if not p.endswith("VacantEntry::<'a, K, V>::insert") and not p.endswith("VacantEntry::<'a, K, V, A>::insert") and not (p.endswith("::insert") and "VacantEntry" in p):
                continue
            n += 1
            where = "%s: index stored in lookups_index" % fb.path
            # the stored value may be the merge of several arms (`let i = match .. { .. => 0, .. => len }`): every value that can reach it is judged
            for db, v in sym.alternatives(fb, prov2, prov2.op(t["args"][1])):
                v = sym.strip(v)
                use_b = bi if db is None else db
                if v[0] == "c" and v[1] == 0:
                    run.ok(rule, "%s is the sentinel 0" % where)
                    continue
                is_len = v[0] == "call" and (v[4] or v[1] or "").endswith("::len") and any(x[0] == "field" and x[2] == "cached_lookups" for x in sym.walk(v))
                if is_len:
                    lb = v[3]
                    if any(fb.dominates(lb, pb) and fb.dominates(pb, use_b) for pb in pushes):
                        run.ok(rule, "%s is cached_lookups.len() read before the push of the new list" % where)
                        continue
                run.fail(rule, "lookups-index-value:%s" % fb.root, "%s is %s: not the sentinel 0 and not cached_lookups.len() taken before the push "
                         "that dominates the insert - the two collections fall out of step" % (where, sym.show(v)[:100]), fb.loc(t))
    if n == 0 and fx.body("gsub::get_lookups_cache_index") is not None:
        run.anchor_missing(rule, "VacantEntry::insert in get_lookups_cache_index")


ATTACH_VARIANTS = ("MarkAnchor", "MarkOverprint", "CursiveAnchor")


def c02_f(run, fx, floors=True):
    rule = "C02-f"
    run.rule(rule, "every attachment index stored in a gpos::Placement (MarkAnchor.0, MarkOverprint.0, CursiveAnchor.0) is, at the point of "
                   "construction, an index of the glyph buffer the placement is stored into: the same SSA value indexes that buffer under a "
                   "bounds check that dominates the construction, or it is an enumerate() position / the constant 0 of a loop over that "
                   "buffer, or it is copied from an existing Placement; the buffer is a slice and cannot shrink afterwards")
    import indexing
    n = 0
    for b in fx.bodies:
        if b.exp:
            continue
        prov = None
        for bi, blk in enumerate(b.blocks):
            if not b.reachable(bi):
                continue
            for si, s_ in enumerate(blk["s"]):
                if s_["k"] != "assign" or s_["rv"]["k"] != "agg" or s_["rv"].get("adt") != "gpos::Placement" or s_["rv"].get("vname") not in ATTACH_VARIANTS:
                    continue
                n += 1
                if prov is None:
                    prov = sym.Prov(b)
                op = s_["rv"]["fields"][0]
                term = sym.strip(prov.op(op))
                where = "%s: Placement::%s" % (b.path, s_["rv"]["vname"])
                why = attach_ok(fx, b, prov, bi, term, op)
                if why:
                    run.ok(rule, "%s: %s" % (where, why))
                else:
                    run.fail(rule, "attach:%s:%s" % (b.root, s_["rv"]["vname"]),
                             "%s stores an attachment index (%s) that is not known to be an index of the glyph buffer: no dominating bounds-checked "
                             "indexing with the same value, not an enumerate position, not copied from a Placement" % (where, sym.show(term)[:80]),
                             b.loc(s_))
    if floors:
        run.floor(rule, "Placement constructions carrying an attachment index", n, 6)


def attach_ok(fx, b, prov, bi, term, op):
    nt = sym.norm(term)
    # copied from an existing placement (combine): a field of a Placement variant
    for x in sym.walk(term):
        if x[0] == "variant" and x[2] in ATTACH_VARIANTS:
            return "copied from an existing Placement::%s" % x[2]
    # bounds-checked indexing with the same value dominating the construction
    for bj, blk in enumerate(b.blocks):
        t = blk["t"]
        if t["k"] == "assert" and t["kind"] == "BoundsCheck" and b.reachable(bj) and len(t.get("ops") or []) >= 2:
            if sym.norm(sym.strip(prov.op(t["ops"][1]))) == nt and b.dominates(t["target"], bi):
                import indexing
                recv = indexing.len_source(sym.strip(prov.op(t["ops"][0])))
                rty = b.local_ty(recv[1]) if recv is not None and recv[0] in ("arg", "local") else ""
                if "Info" in (rty or ""):
                    return "the same value indexes the glyph buffer (%s) under a bounds check that dominates the construction" % rty
    # multi-definition local: every definition is the constant 0 or an enumerate position
    if term[0] == "local":
        import reach
        ds = b.defs().get(term[1], [])
        kinds = []
        for d in ds:
            dt = sym.strip(reach.def_term(b, prov, d))
            if dt[0] == "c" and dt[1] == 0:
                kinds.append("0")
            elif is_enum_pos(dt):
                kinds.append("enumerate")
            else:
                return None
        if kinds:
            return "every definition is %s of the loop over the buffer" % " / ".join(sorted(set(kinds)))
    if is_enum_pos(term):
        return "an enumerate() position of the loop over the buffer"
    return None


def is_enum_pos(t):
    """the .0 of an item produced by an iterator chain that contains enumerate() (and no map/zip re-packing after it)"""
    if t[0] != "field" or t[2] not in (0, "0"):
        return False
    names = [(x[4] or x[1] or "") for x in sym.walk(t) if x[0] == "call"]
    if not any(n.endswith("Iterator::enumerate") for n in names):
        return False
    return not any(n.endswith(("Iterator::map", "Iterator::zip", "Iterator::filter_map", "Iterator::scan")) for n in names)


def check(run, fx, tier, floors=True):
    if floors:
        # window bookkeeping of the fraction features (shared with C04)
        import rules_C04
        rules_C04.t04_frac(run, fx)
    import ignored
    ignored.run_for(run, fx, 'C02', floors)
    if floors or fx.body("layout::new_layout_cache") is not None:
        c02_s(run, fx)
    recursion.run_rule(run, fx, "C01-a", lambda f: any(any(p.startswith(pre) for pre in ("gsub::", "gpos::", "glyph_position::", "layout::", "scripts::", "font::", "context::")) for p in f.local_paths),
                       floors_n=2 if floors else None)
    borrows.rule_borrows(run, fx, "C02-b", floors, floor_n=40)
    rules_C01.rule_panics(run, fx, "C02-c", in_scope, floors, floor_n=60)
    c02_d(run, fx)
    c02_e(run, fx)
    loops.rule_loops(run, fx, "C02-g", floors=False, select=in_scope)
    indexing.rule_index(run, fx, "C02-i", floors, select=in_scope, floor_n=150)
    overflow.rule_overflow(run, fx, "C02-o", floors, select=in_scope, floor_n=60)
    c02_t(run, fx)
    if floors or fx.const("gsub::FEATURE_MASKS") is not None:
        import rules_C04
        rules_C04.t04_fmask(run, fx)
    import rules_C04 as _c04
    if floors or any((t["callee"].get("path") or "") in _c04.RUN_SPECS for b in fx.bodies for _, t in b.calls()):
        # a run bound that is not reduced when a glyph is deleted lets `glyphs[i]` run past the end of the vector
        _c04.t04_run(run, fx, floors)
    if floors or fx.adt("gpos::Placement") is not None:
        c02_f(run, fx, floors)
