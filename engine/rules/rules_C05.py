"""C05 — GPOS semantics: the structural clauses that are visible in the shape of the code.

T05-TYPE  GPOS lookup type numbers map to the specification's lookup kinds (1..9, 9 = extension)
T05-RD    read_lookup_gpos builds, for every lookup type, the PosLookup variant and subtable reader of that type
T05-VF    ValueFormat accessors test the specification's bits
T05-VR    a ValueRecord is read field by field in the specification's order, each field under its own format bit,
          and lands in the Adjust field of the same meaning
T05-DISP  the dispatchers over PosLookup have an arm for every lookup kind
T05-SKIP  nested positioning lookups are applied at the position located with the lookup-flag-aware iterator
"""
import guards
import rules_C04
import shape
import sym
from facts import callee_is

LEVEL = "other"
EXPLANATION = (
    "Every numeric clause of C05 (advance = font advance + adjustments, mark = base anchor - mark anchor, ...) is a value property and is not "
    "decided. What is decided are necessary structural conditions read from the compiled program: GPOS lookup type numbers 1-9 select the "
    "specification's lookup kinds; read_lookup_gpos parses each kind with the subtable reader of that kind; the ValueFormat predicates test bits "
    "0x0001-0x0080 in the specification's assignment; ValueRecord::read_dep consumes xPlacement, yPlacement, xAdvance, yAdvance and the four "
    "device/variation offsets in that order, each under its own format bit, into the Adjust field of the same meaning (a swapped pair would "
    "mis-position every pair or single adjustment); gpos_apply_lookup and apply_pos list every PosLookup kind; nested lookups of contextual "
    "positioning are applied at the position found by MatchType::find_nth."
)
NOT_DECIDED = (
    "all arithmetic of positioning: accumulation of adjustments, anchor subtraction, cursive joining, RTL handling, kerning, mark attachment "
    "resolution in glyph_position.rs; class and coverage lookups; device tables."
)
ASSUMPTIONS = []

GPOS_TYPES = {1: "SinglePos", 2: "PairPos", 3: "CursivePos", 4: "MarkBasePos", 5: "MarkLigPos", 6: "MarkMarkPos", 7: "ContextPos",
              8: "ChainContextPos", 9: "Extension"}
# MarkMarkPosFormat1 is, by the specification, identical in form to MarkBasePosFormat1: the crate parses it with the same type
READERS = {"SinglePos": "layout::SinglePos", "PairPos": "layout::PairPos", "CursivePos": "layout::CursivePos", "MarkBasePos": "layout::MarkBasePos",
           "MarkLigPos": "layout::MarkLigPos", "MarkMarkPos": "layout::MarkBasePos", "ContextPos": "layout::ContextLookup<layout::GPOS>",
           "ChainContextPos": "layout::ChainContextLookup<layout::GPOS>"}
VF_BITS = {"has_x_placement": 0, "has_y_placement": 1, "has_x_advance": 2, "has_y_advance": 3, "has_x_placement_device": 4,
           "has_y_placement_device": 5, "has_x_advance_device": 6, "has_y_advance_device": 7}
VR_ORDER = [("has_x_placement", "read_i16be", "x_placement"), ("has_y_placement", "read_i16be", "y_placement"),
            ("has_x_advance", "read_i16be", "x_advance"), ("has_y_advance", "read_i16be", "y_advance"),
            ("has_x_placement_device", "read_u16be", "x_placement_variation"), ("has_y_placement_device", "read_u16be", "y_placement_variation"),
            ("has_x_advance_device", "read_u16be", "x_advance_variation"), ("has_y_advance_device", "read_u16be", "y_advance_variation")]


def t05_vf(run, fx):
    rule = "T05-VF"
    run.rule(rule, "ValueFormat::has_* test bit i of the format with ith_bit_set(flags, i) = (flags & (1 << i)) != 0 in the specification's "
                   "assignment (xPlacement 0, yPlacement 1, xAdvance 2, yAdvance 3, xPlaDevice 4, yPlaDevice 5, xAdvDevice 6, yAdvDevice 7)")
    k = fx.body("layout::ith_bit_set")
    if k is None:
        run.anchor_missing(rule, "layout::ith_bit_set")
    else:
        ret = sym.strip(sym.Prov(k).local(0))
        ok = False
        if ret[0] == "bin" and ret[1] == "Ne" and sym.strip(ret[3])[0] == "c" and sym.strip(ret[3])[1] == 0:
            a = sym.strip(ret[2])
            if a[0] == "bin" and a[1] == "BitAnd":
                sh = [x for x in (sym.strip(a[2]), sym.strip(a[3])) if x[0] == "bin" and x[1].startswith("Shl")]
                fl = [x for x in (sym.strip(a[2]), sym.strip(a[3])) if x[0] == "arg" and x[1] == 1]
                if sh and fl and sym.strip(sh[0][2])[0] == "c" and sym.strip(sh[0][2])[1] == 1:
                    amt = sym.strip(sh[0][3])
                    while amt[0] == "cast":
                        amt = sym.strip(amt[4])
                    ok = amt[0] == "arg" and amt[1] == 2
        if ok:
            run.ok(rule, "ith_bit_set(flags, i) = (flags & (1 << i)) != 0")
        else:
            run.fail(rule, "valueformat:ith_bit_set", "ith_bit_set is not (flags & (1 << i)) != 0: %s" % sym.show(ret)[:80], "%s:%s" % (k.file, k.line))
    for fn, bit in sorted(VF_BITS.items()):
        b = fx.body("layout::ValueFormat::" + fn)
        if b is None:
            run.anchor_missing(rule, "layout::ValueFormat::" + fn)
            continue
        ret = sym.strip(sym.Prov(b).local(0))
        got = None
        if ret[0] == "call" and (ret[1] or "").endswith("ith_bit_set") and len(ret[2]) == 2:
            c = sym.strip(ret[2][1])
            got = c[1] if c[0] == "c" else None
        if got == bit:
            run.ok(rule, "%s tests bit %d" % (fn, bit))
        else:
            run.fail(rule, "valueformat:%s" % fn, "%s tests bit %s, the specification says bit %d" % (fn, got, bit), "%s:%s" % (b.file, b.line))


def t05_vr(run, fx):
    rule = "T05-VR"
    run.rule(rule, "ValueRecord::read_dep tests the format predicates in the specification's field order; the read under predicate k is an i16 "
                   "(placements, advances) or a u16 offset (devices) and flows into the Adjust field of that meaning")
    bs = [b for b in fx.bodies if b.path == "layout::<impl binary::read::ReadBinaryDep for std::option::Option<layout::Adjust>>::read_dep" and b.kind != "Closure"]
    if len(bs) != 1:
        return run.anchor_missing(rule, "ValueRecord::read_dep")
    b = bs[0]
    prov = sym.Prov(b)
    # predicate tests in reverse-post-order
    seq = []
    for bi in b.rpo():
        t = b.term(bi)
        if t["k"] == "switch" and t.get("dty") == "bool":
            d = sym.strip(prov.op(t["discr"]))
            if d[0] == "call" and (d[1] or "").startswith("layout::ValueFormat::has_"):
                tb = t["otherwise"]
                seq.append(((d[1] or "").split("::")[-1], bi, tb))
    names = [x[0] for x in seq]
    want = [x[0] for x in VR_ORDER]
    if names != want:
        return run.fail(rule, "valuerecord:order", "fields are tested in the order %s; the specification's order is %s" % (names, want), "%s:%s" % (b.file, b.line))
    run.ok(rule, "format predicates tested in the specification's order")
    # the read dominated by each predicate's true edge, and the field it lands in
    field_of_read = {}
    for bi, blk in enumerate(b.blocks):
        for s in blk["s"]:
            if s["k"] == "assign" and s["rv"]["k"] == "agg" and s["rv"].get("adt") == "layout::Adjust":
                for fname, fop in zip(s["rv"]["fnames"], s["rv"]["fields"]):
                    l = fop["p"]["l"] if fop["k"] in ("copy", "move") and not fop["p"]["p"] else None
                    if l is None:
                        continue
                    # multi-definition local (if/else): every definition's reads
                    for d in b.defs().get(l, []):
                        import reach
                        dt = reach.def_term(b, prov, d)
                        for x in sym.walk(dt):
                            if x[0] == "call" and (x[1] or "").startswith("binary::read::ReadCtxt::<'a>::read_"):
                                field_of_read[x[3]] = fname
                    # single definition through copies
                    dt = prov.op(fop)
                    for x in sym.walk(dt):
                        if x[0] == "local":
                            for d in b.defs().get(x[1], []):
                                import reach
                                d2 = reach.def_term(b, prov, d)
                                for y in sym.walk(d2):
                                    if y[0] == "call" and (y[1] or "").startswith("binary::read::ReadCtxt::<'a>::read_"):
                                        field_of_read[y[3]] = fname
    for (pred, rd, field), (_, sw, tb) in zip(VR_ORDER, seq):
        reads = [bi for bi, t in b.calls() if (t["callee"].get("path") or "").startswith("binary::read::ReadCtxt::<'a>::read_") and b.dominates(tb, bi)
                 and not any(b.dominates(o[2], bi) for o in seq if o[2] != tb and b.dominates(tb, o[1]))]
        kinds = {(b.term(r)["callee"]["path"]).split("::")[-1] for r in reads}
        fields = {field_of_read.get(r) for r in reads}
        if kinds == {rd} and fields == {field}:
            run.ok(rule, "%s: %s -> Adjust.%s" % (pred, rd, field))
        else:
            run.fail(rule, "valuerecord:%s" % pred, "under %s the reader performs %s into %s; expected %s into Adjust.%s" % (pred, sorted(kinds), sorted(str(f) for f in fields), rd, field), b.loc(b.term(sw)))


def t05_disp(run, fx):
    rule = "T05-DISP"
    run.rule(rule, "gpos_apply_lookup and apply_pos switch on the PosLookup discriminant with an arm for each of the eight kinds")
    for path in ("gpos::gpos_apply_lookup", "gpos::apply_pos"):
        b = fx.body(path)
        if b is None:
            run.anchor_missing(rule, path)
            continue
        n, problems = shape.exhaustive_dispatch(fx, b, "layout::PosLookup")
        if n == 0:
            run.fail(rule, "dispatch:%s:none" % path, "%s no longer dispatches on PosLookup" % path, "%s:%s" % (b.file, b.line))
        for bi, missing, t in problems:
            run.fail(rule, "dispatch:%s:%s" % (path, ",".join(missing)), "%s: lookup kind(s) %s fall into a wildcard arm" % (path, missing), b.loc(t))
        if n and not problems:
            run.ok(rule, "%s: %d dispatch(es), all eight kinds listed" % (path, n))


def t05_skip(run, fx):
    rule = "T05-SKIP"
    run.rule(rule, "apply_pos locates the glyph of a nested positioning lookup with match_type.find_nth(infos, index, pos_index) and hands that "
                   "position to the positioning function")
    b = fx.body("gpos::apply_pos")
    if b is None:
        return run.anchor_missing(rule, "gpos::apply_pos")
    prov = sym.Prov(b)
    fn = [(bi, t) for bi, t in b.calls() if callee_is(t, "context::MatchType::find_nth")]
    good = False
    for bi, t in fn:
        names = set()
        for a in t["args"]:
            x = sym.strip(prov.op(a))
            while x[0] in ("ref", "deref"):
                x = sym.strip(x[1])
            if x[0] == "arg":
                names.add(x[2])
        if {"index", "pos_index"} <= names:
            good = True
    if good:
        run.ok(rule, "apply_pos: position = match_type.find_nth(.., index, pos_index)")
    else:
        run.fail(rule, "skip:apply_pos", "apply_pos does not locate the nested lookup position with find_nth(infos, index, pos_index)", "%s:%s" % (b.file, b.line))


def t05_base(run, fx):
    rule = "T05-BASE"
    run.rule(rule, "nested MarkToBase / MarkToLigature attachment (apply_pos): the glyph a mark attaches to is the closest preceding non-mark "
                   "glyph whatever the nested lookup's flags say - the base index handed to markbasepos / markligpos comes from "
                   "MatchType::ignore_marks().find_prev(.., i1), not from the lookup-flag match type")
    b = fx.body("gpos::apply_pos")
    if b is None:
        return run.anchor_missing(rule, "gpos::apply_pos")
    prov = sym.Prov(b)
    n = 0
    for bi, t in b.calls():
        if not (callee_is(t, "gpos::markbasepos") or callee_is(t, "gpos::markligpos")):
            continue
        n += 1
        name = (t["callee"].get("path") or "").split("::")[-1]
        # the base index is the argument that comes out of a find_prev search
        fp = []
        base = ("?",)
        for a in t["args"]:
            ta = prov.op(a)
            got = [x for x in sym.walk(ta) if x[0] == "call" and (x[4] or x[1] or "").endswith("MatchType::find_prev")]
            if got:
                fp.extend(got)
                base = ta
        ok = bool(fp)
        for x in fp:
            recv = sym.strip(x[2][0]) if x[2] else ("?",)
            while recv[0] in ("ref", "deref"):
                recv = sym.strip(recv[1])
            if not (recv[0] == "call" and (recv[4] or recv[1] or "").endswith("MatchType::ignore_marks")):
                ok = False
        if ok:
            run.ok(rule, "apply_pos: base of %s = MatchType::ignore_marks().find_prev(..)" % name)
        else:
            run.fail(rule, "base:%s" % name, "apply_pos: the base index of %s (%s) does not come from MatchType::ignore_marks().find_prev(..): a mark between the base "
                     "and the attached mark is taken for the base when the nested lookup does not ignore marks" % (name, sym.show(sym.strip(base))[:90]), b.loc(t))
    if n < 2:
        run.anchor_missing(rule, "calls of markbasepos and markligpos in apply_pos")


def t05_ord(run, fx):
    rule = "T05-ORD"
    run.rule(rule, "glyph_positions resolves relative placements in dependency order: cursive attachment offsets are applied to the bases "
                   "before marks are moved onto their bases (adjust_cursive_connections -> position_marks on every path), so a mark on a "
                   "cursively shifted glyph follows it")
    bs = [b for b in fx.bodies if b.kind != "Closure" and b.root.endswith("::glyph_positions") and "GlyphLayout" in b.root]
    if not bs:
        return run.anchor_missing(rule, "GlyphLayout::glyph_positions")
    import reach
    for b in bs[:1]:
        ok, msg = reach.ordered_calls(b, ["::adjust_cursive_connections", "::position_marks"])
        if ok:
            run.ok(rule, "glyph_positions: %s" % msg)
        else:
            run.fail(rule, "position-order", "glyph_positions: %s" % msg, "%s:%s" % (b.file, b.line))


def t05_order(run, fx):
    rule = "T05-ORDER"
    run.rule(rule, "GPOS lookups of a feature are applied in LookupList order whatever order the feature table lists them in (OpenType: 'lookups are "
                   "applied in the order of their lookup-list index'): in gpos::apply_features the list of lookup indices that drives "
                   "gpos_apply_lookup is sorted (sort / sort_unstable) on every path before the loop that applies it")
    b = fx.body("gpos::apply_features")
    if b is None:
        return run.anchor_missing(rule, "gpos::apply_features")
    sorts = [bi for bi, t in b.calls() if (t["callee"].get("path") or "").split("::")[-1] in ("sort", "sort_unstable", "sort_by_key", "sort_unstable_by_key")]
    applies = [bi for bi, t in b.calls() if callee_is(t, "gpos::gpos_apply_lookup")]
    for cb in fx.closures_of(b) if hasattr(fx, "closures_of") else []:
        applies += [None for bi, t in cb.calls() if callee_is(t, "gpos::gpos_apply_lookup")]
    if not applies:
        return run.anchor_missing(rule, "gpos_apply_lookup call in apply_features")
    real = [a for a in applies if a is not None]
    if sorts and (not real or all(any(b.dominates(sb, a) for sb in sorts) for a in real)):
        run.ok(rule, "apply_features sorts the lookup indices before applying them")
    else:
        run.fail(rule, "gpos-lookup-order", "gpos::apply_features applies the lookups of a feature in the order the feature table lists them: a feature that lists "
                 "[1, 0] applies lookup 1 before lookup 0", "%s:%s" % (b.file, b.line))


def t05_vsz(run, fx):
    """the size of a value record counts the eight fields that the reader consumes"""
    rule = "T05-VSZ"
    run.rule(rule, "ValueFormat::size is two bytes for each of the eight value-format bits 0..=7 that ValueRecord::read_dep consumes (sibling agreement: the "
                   "size positions the following records of a PairPos / SinglePos array): the bits counted are those of a range 0..8 (0..=7) handed to "
                   "ith_bit_set, or count_ones of the format masked with 0x00FF")
    b = fx.body("layout::ValueFormat::size")
    if b is None:
        return run.anchor_missing(rule, "layout::ValueFormat::size")
    bodies = [b] + [c for c in fx.bodies if c.kind == "Closure" and c.root == b.root and c is not b]
    ranges, masks, popcount = [], [], False
    for c in bodies:
        prov = sym.Prov(c)
        for bi in range(len(c.blocks)):
            if not c.reachable(bi):
                continue
            for st in c.stmts(bi):
                if st["k"] != "assign":
                    continue
                v = sym.strip(prov.rvalue(st["rv"]))
                if v[0] == "agg" and str(v[1]).endswith("ops::Range") and len(v[3]) == 2 and all(sym.strip(x)[0] == "c" for x in v[3]):
                    ranges.append((sym.strip(v[3][0])[1], sym.strip(v[3][1])[1] - 1))
                if v[0] == "bin" and v[1] == "BitAnd":
                    for x in (v[2], v[3]):
                        x = sym.strip(x)
                        if x[0] == "c" and isinstance(x[1], int):
                            masks.append(x[1])
            t = c.term(bi)
            if t["k"] == "call":
                p = t["callee"].get("path") or ""
                if p.endswith("::count_ones"):
                    popcount = True
                if p.endswith("RangeInclusive::<Idx>::new") and len(t["args"]) == 2:
                    a = [sym.strip(prov.op(x)) for x in t["args"]]
                    if all(x[0] == "c" for x in a):
                        ranges.append((a[0][1], a[1][1]))
                # promoted `0..=7`
                for x in t["args"]:
                    rb = guards_range(prov.op(x))
                    if rb:
                        ranges.append(rb)
    ranges = sorted(set(ranges))
    if ranges:
        if ranges == [(0, 7)]:
            run.ok(rule, "bits 0..=7 are counted")
        else:
            run.fail(rule, "value-record-size", "ValueFormat::size counts the bits %s, the reader consumes a field for each of the bits 0..=7: the records that follow one "
                     "with an uncounted field are read from the wrong offset" % ", ".join("%s..=%s" % r for r in ranges), "%s:%s" % (b.file, b.line))
    elif popcount:
        if masks and all(m & 0xFF == 0xFF for m in masks):
            run.ok(rule, "count_ones of the format masked with %s" % ", ".join(hex(m) for m in masks))
        elif not masks:
            run.notes.append("%s: count_ones without a mask: reserved bits would be counted (not reported: the reader rejects nothing there)" % rule)
            run.ok(rule, "count_ones of the format")
        else:
            run.fail(rule, "value-record-size", "ValueFormat::size counts the bits of the format masked with %s, which leaves out some of the bits 0..=7"
                     % ", ".join(hex(m) for m in masks), "%s:%s" % (b.file, b.line))
    else:
        run.anchor_missing(rule, "the bits counted by ValueFormat::size")


def guards_range(term):
    import guards
    rb = guards.range_bounds(term)
    if rb is None:
        return None
    lo, hi, incl = rb
    lo, hi = sym.strip(lo), sym.strip(hi)
    if lo[0] == "c" and hi[0] == "c" and isinstance(lo[1], int) and isinstance(hi[1], int):
        return (lo[1], hi[1] if incl else hi[1] - 1)
    return None


# ---- T05-ACC: value records add to what the glyph already carries ----------------------------------------------------------------------
def t05_acc(run, fx, floors=True):
    rule = "T05-ACC"
    run.rule(rule, "value records add to the advance adjustment a glyph already carries (the property's own words; a glyph is reached by a kern pair and "
                   "a SinglePos, or is second of one pair and first of the next): in the positioning code (gpos.rs) every store to Info::kerning is an "
                   "accumulation - the stored value is computed from the old value of the same field")
    n = 0
    # the legacy kern table is applied instead of GPOS pair positioning, to glyphs that carry no adjustment yet; the value it stores is the
    # result of the kern sub-tables' own override / minimum / accumulate semantics (read inside its loop), not a GPOS value record
    exempt = {"gpos::apply_kern"}
    for b in fx.bodies:
        if b.file != "src/gpos.rs" or b.exp or b.root in exempt:
            continue
        prov = None
        for bi, blk in enumerate(b.blocks):
            if not b.reachable(bi):
                continue
            for st in blk["s"]:
                if st["k"] != "assign" or not st["p"]["p"]:
                    continue
                fs = [e.get("n") for e in st["p"]["p"] if isinstance(e, dict) and "f" in e]
                if not fs or fs[-1] != "kerning":
                    continue
                prov = prov or sym.Prov(b)
                n += 1
                val = prov.rvalue(st["rv"])
                reads_old = any(x[0] == "field" and x[2] == "kerning" for x in sym.walk(val))
                if reads_old:
                    run.ok(rule, "%s: kerning accumulated" % b.root)
                else:
                    run.fail(rule, "acc:%s" % b.root, "%s stores %s into Info::kerning without reading the adjustment the glyph already carries: an earlier value record or "
                             "kern pair on the same glyph is discarded" % (b.path, sym.show(sym.strip(val))[:100]), b.loc(st))
    if floors:
        run.floor(rule, "stores to Info::kerning in gpos.rs", n, 1)


def check(run, fx, tier, floors=True):
    import bsearch
    bsearch.rule_bsearch(run, fx, "T05-BS", select=lambda b: b.file.startswith(('src/layout.rs', 'src/gpos.rs', 'src/context.rs', 'src/tables/kern.rs', 'src/glyph_position.rs')), floors=floors, floor_n=2)
    import ignored
    ignored.run_for(run, fx, 'C05', floors)
    import speclayout
    speclayout.rule_layouts(run, fx, "T05-LAYOUT", ["layout", "kern"], floors)
    speclayout.rule_records(run, fx, "T05-REC", ['layout', 'kern'], floors)
    run.rule("T05-TYPE", "GPOS::check_lookup_type is the table {1: SinglePos, 2: PairPos, 3: CursivePos, 4: MarkBasePos, 5: MarkLigPos, 6: MarkMarkPos, "
                         "7: ContextPos, 8: ChainContextPos, 9: Extension}; every other number is an error")
    rules_C04.lookup_type_table(run, fx, "T05-TYPE", "<layout::GPOS as layout::LayoutTableType>::check_lookup_type", GPOS_TYPES, "GPOS")
    run.rule("T05-RD", "read_lookup_gpos: for every PosLookupType variant the arm builds the PosLookup variant of the same name from "
                       "read_subtables::<T> with T the subtable type of that lookup kind")
    rules_C04.reader_dispatch(run, fx, "T05-RD", "::read_lookup_gpos", "layout::PosLookupType", "layout::PosLookup", READERS)
    if floors:
        # the lookup flag selects the glyphs a positioning lookup sees, exactly as for substitution (shared with C04)
        rules_C04.t04_flag(run, fx)
    t05_vf(run, fx)
    t05_vr(run, fx)
    t05_disp(run, fx)
    t05_skip(run, fx)
    t05_base(run, fx)
    if floors or any(b.file == 'src/gpos.rs' for b in fx.bodies):
        t05_acc(run, fx, floors)
    if floors or fx.body("gpos::apply_features") is not None:
        t05_order(run, fx)
    if floors or fx.adt("context::IgnoreMarks") is not None:
        rules_C04.t04_marks(run, fx)
    if floors or fx.body("layout::ClassDef::glyph_class_value") is not None:
        rules_C04.t04_cls0(run, fx, floors)
    if floors or fx.body("layout::ValueFormat::size") is not None:
        t05_vsz(run, fx)
    if floors or any(b.root.endswith("::glyph_positions") for b in fx.bodies):
        t05_ord(run, fx)
