//! Reproductions for panics on untrusted font data in glyf/gvar/WOFF2/shaping/morx code.

use std::borrow::Cow;

use allsorts::binary::read::ReadScope;
use allsorts::error::ParseError;
use allsorts::font_data::FontData;
use allsorts::outline::{OutlineBuilder, OutlineSink};
use allsorts::pathfinder_geometry::line_segment::LineSegment2F;
use allsorts::pathfinder_geometry::vector::Vector2F;
use allsorts::tables::glyf::GlyfTable;
use allsorts::tables::loca::LocaTable;
use allsorts::tables::{Fixed, FontTableProvider, IndexToLocFormat};
use allsorts::tag;

fn be16(data: &[u8], off: usize) -> usize {
    usize::from(u16::from_be_bytes([data[off], data[off + 1]]))
}

fn be32(data: &[u8], off: usize) -> usize {
    u32::from_be_bytes([data[off], data[off + 1], data[off + 2], data[off + 3]]) as usize
}

struct NullSink;

impl OutlineSink for NullSink {
    fn move_to(&mut self, _to: Vector2F) {}
    fn line_to(&mut self, _to: Vector2F) {}
    fn quadratic_curve_to(&mut self, _control: Vector2F, _to: Vector2F) {}
    fn cubic_curve_to(&mut self, _control: LineSegment2F, _to: Vector2F) {}
    fn close(&mut self) {}
}

/// A `FontTableProvider` that overrides some tables of another provider.
struct PatchedProvider<'a, P> {
    inner: &'a P,
    tables: Vec<(u32, Vec<u8>)>,
}

impl<'a, P: FontTableProvider> FontTableProvider for PatchedProvider<'a, P> {
    fn table_data(&self, tag: u32) -> Result<Option<Cow<'_, [u8]>>, ParseError> {
        match self.tables.iter().find(|(t, _)| *t == tag) {
            Some((_, data)) => Ok(Some(Cow::Borrowed(data.as_slice()))),
            None => self.inner.table_data(tag),
        }
    }

    fn has_table(&self, tag: u32) -> bool {
        self.inner.has_table(tag)
    }

    fn table_tags(&self) -> Option<Vec<u32>> {
        self.inner.table_tags()
    }
}

/// C1: a simple glyph with endPtsOfContours = [0, 0]. The second contour is empty, which trips
/// `assert!(points_and_flags.len() > 0)` in `Contour::new` when the outline is visited.
#[test]
fn repro_c1() {
    #[rustfmt::skip]
    let glyf_data: &[u8] = &[
        0x00, 0x02, // numberOfContours = 2
        0x00, 0x00, 0x00, 0x00, 0x00, 0x00, 0x00, 0x00, // bounding box
        0x00, 0x00, // endPtsOfContours[0] = 0
        0x00, 0x00, // endPtsOfContours[1] = 0 (not increasing)
        0x00, 0x00, // instructionLength = 0
        0x31, // flags: ON_CURVE | X_IS_SAME | Y_IS_SAME -> one point at (0, 0)
        0x00, // padding
    ];
    let loca_data: &[u8] = &[0x00, 0x00, 0x00, 0x09]; // short offsets: 0, 18
    let loca = ReadScope::new(loca_data)
        .read_dep::<LocaTable<'_>>((1, IndexToLocFormat::Short))
        .expect("unable to read loca");
    let mut glyf = ReadScope::new(glyf_data)
        .read_dep::<GlyfTable<'_>>(&loca)
        .expect("unable to read glyf");

    let res = glyf.visit(0, &mut NullSink);
    assert!(res.is_err(), "expected error, got {:?}", res);
}

/// Patch glyph 1 of NotoSans-VF.abc.ttf so that its endPtsOfContours are `end_pts` and replace
/// its gvar data with a single tuple that has one explicit delta for point 0. Then instance the
/// font at wght=900.
fn instance_with_end_pts(end_pts: [u16; 2]) -> Result<(), String> {
    let buffer = std::fs::read("tests/fonts/opentype/NotoSans-VF.abc.ttf").unwrap();
    let font_file = ReadScope::new(&buffer).read::<FontData<'_>>().unwrap();
    let provider = font_file.table_provider(0).unwrap();

    // glyf: glyph 1 starts at loca[1] (short format). It has two contours.
    let loca = provider.read_table_data(tag::LOCA).unwrap();
    let mut glyf = provider.read_table_data(tag::GLYF).unwrap().into_owned();
    let glyph = be16(&loca, 2) * 2;
    assert_eq!(be16(&glyf, glyph), 2, "expected two contours");
    glyf[glyph + 10..glyph + 12].copy_from_slice(&end_pts[0].to_be_bytes());
    glyf[glyph + 12..glyph + 14].copy_from_slice(&end_pts[1].to_be_bytes());

    // gvar: overwrite the GlyphVariationData of glyph 1
    let mut gvar = provider.read_table_data(tag::GVAR).unwrap().into_owned();
    let axis_count = be16(&gvar, 4);
    let flags = be16(&gvar, 14);
    let array_offset = be32(&gvar, 16);
    let (start, end) = if flags & 1 == 1 {
        (be32(&gvar, 20 + 4), be32(&gvar, 20 + 8))
    } else {
        (be16(&gvar, 20 + 2) * 2, be16(&gvar, 20 + 4) * 2)
    };
    let mut data = Vec::new();
    let data_offset = 4 + 4 + 2 * axis_count;
    data.extend_from_slice(&1u16.to_be_bytes()); // tupleVariationCount = 1, no shared points
    data.extend_from_slice(&(data_offset as u16).to_be_bytes());
    data.extend_from_slice(&6u16.to_be_bytes()); // variationDataSize
    data.extend_from_slice(&0xA000u16.to_be_bytes()); // EMBEDDED_PEAK_TUPLE | PRIVATE_POINT_NUMBERS
    for axis in 0..axis_count {
        let peak: u16 = if axis == 0 { 0x4000 } else { 0 }; // 1.0 on the first axis
        data.extend_from_slice(&peak.to_be_bytes());
    }
    data.extend_from_slice(&[0x01, 0x00, 0x00]); // packed point numbers: one point, number 0
    data.extend_from_slice(&[0x01, 0x0A, 0x0A]); // packed deltas: x = 10, y = 10
    assert!(data.len() <= end - start);
    gvar[array_offset + start..array_offset + start + data.len()].copy_from_slice(&data);

    let patched = PatchedProvider {
        inner: &provider,
        tables: vec![(tag::GLYF, glyf), (tag::GVAR, gvar)],
    };
    let mut user_tuple = vec![Fixed::from(900)];
    user_tuple.resize(axis_count, Fixed::from(100));
    allsorts::variations::instance(&patched, &user_tuple)
        .map(drop)
        .map_err(|err| err.to_string())
}

/// C2: endPtsOfContours = [9, 3] gives the glyph 4 points (8 deltas with the phantom points) but
/// a first contour of 0..=9. With exactly one explicit delta in that contour
/// `infer_unreferenced_points` fills `deltas[0..=9]`, which is out of range.
#[test]
fn repro_c2() {
    // Sanity check: the patched gvar data is accepted when the glyph is left as is
    assert_eq!(instance_with_end_pts([29, 40]), Ok(()));

    let res = instance_with_end_pts([9, 3]);
    assert!(res.is_err(), "expected error, got {:?}", res);
}

/// C2 (second variant): endPtsOfContours = [5, 3] makes the second contour the range 6..=3, which
/// `BTreeMap::range` rejects with a panic.
#[test]
fn repro_c2b() {
    let res = instance_with_end_pts([5, 3]);
    assert!(res.is_err(), "expected error, got {:?}", res);
}

// -- WOFF2 helpers --

fn base128(mut value: u32) -> Vec<u8> {
    let mut bytes = vec![(value & 0x7F) as u8];
    value >>= 7;
    while value > 0 {
        bytes.insert(0, (value & 0x7F) as u8 | 0x80);
        value >>= 7;
    }
    bytes
}

/// Wrap `data` in a brotli stream consisting of one uncompressed meta-block.
fn brotli_stored(data: &[u8]) -> Vec<u8> {
    assert!(!data.is_empty() && data.len() <= 65536);
    // WBITS = 16 (1 bit: 0), ISLAST = 0, MNIBBLES = 4 (2 bits: 00), MLEN - 1 (16 bits),
    // ISUNCOMPRESSED = 1, padding to the byte boundary
    let header: u32 = (((data.len() - 1) as u32) << 4) | (1 << 20);
    let mut out = header.to_le_bytes()[..3].to_vec();
    out.extend_from_slice(data);
    out.push(0x03); // ISLAST = 1, ISLASTEMPTY = 1
    out
}

/// A transformed WOFF2 glyf table that holds simple glyphs without instructions and without
/// explicit bounding boxes. `glyphs` is, for each glyph, the number of points of each contour.
/// All points are on-curve with dx = 0, dy = 1 (flag 0, one byte in the glyph stream).
fn transformed_glyf(glyphs: &[&[u8]]) -> Vec<u8> {
    let mut n_contour_stream = Vec::new();
    let mut n_points_stream = Vec::new();
    let mut flag_stream = Vec::new();
    let mut glyph_stream = Vec::new();
    for contours in glyphs {
        n_contour_stream.extend_from_slice(&(contours.len() as i16).to_be_bytes());
        for n_points in contours.iter() {
            assert!(*n_points < 253);
            n_points_stream.push(*n_points); // 255UInt16, single byte form
            for _ in 0..*n_points {
                flag_stream.push(0);
                glyph_stream.push(1);
            }
        }
        glyph_stream.push(0); // instructionLength = 0
    }
    let bbox_bitmap = vec![0u8; 4 * ((glyphs.len() + 31) / 32)];

    let mut table = Vec::new();
    table.extend_from_slice(&0u32.to_be_bytes()); // version
    table.extend_from_slice(&(glyphs.len() as u16).to_be_bytes()); // numGlyphs
    table.extend_from_slice(&0u16.to_be_bytes()); // indexFormat
    table.extend_from_slice(&(n_contour_stream.len() as u32).to_be_bytes());
    table.extend_from_slice(&(n_points_stream.len() as u32).to_be_bytes());
    table.extend_from_slice(&(flag_stream.len() as u32).to_be_bytes());
    table.extend_from_slice(&(glyph_stream.len() as u32).to_be_bytes());
    table.extend_from_slice(&0u32.to_be_bytes()); // compositeStreamSize
    table.extend_from_slice(&(bbox_bitmap.len() as u32).to_be_bytes()); // bboxStreamSize
    table.extend_from_slice(&0u32.to_be_bytes()); // instructionStreamSize
    table.extend_from_slice(&n_contour_stream);
    table.extend_from_slice(&n_points_stream);
    table.extend_from_slice(&flag_stream);
    table.extend_from_slice(&glyph_stream);
    table.extend_from_slice(&bbox_bitmap);
    table
}

/// Rebuild tests/fonts/woff2/test-font.woff2 with its glyf table replaced by the transformed
/// glyf table `glyf` (and a transformed, i.e. empty, loca table).
fn woff2_with_glyf(glyf: &[u8]) -> Vec<u8> {
    use allsorts::woff2::Woff2Font;

    let original = std::fs::read("tests/fonts/woff2/test-font.woff2").unwrap();
    let woff = ReadScope::new(&original).read::<Woff2Font<'_>>().unwrap();

    let mut directory = Vec::new();
    let mut block = Vec::new();
    for entry in &woff.table_directory {
        let (version, orig_length, transform_length, data): (u8, u32, Option<u32>, &[u8]) =
            match entry.tag {
                tag::GLYF => (0, entry.orig_length, Some(glyf.len() as u32), glyf),
                tag::LOCA => (0, entry.orig_length, Some(0), &[]),
                _ => {
                    let length = entry.transform_length.unwrap_or(entry.orig_length) as usize;
                    let data = &woff.table_data_block[entry.offset..entry.offset + length];
                    let version = u8::from(entry.transform_length.is_some());
                    (version, entry.orig_length, entry.transform_length, data)
                }
            };
        directory.push(63 | (version << 6)); // arbitrary tag follows
        directory.extend_from_slice(&entry.tag.to_be_bytes());
        directory.extend(base128(orig_length));
        if let Some(transform_length) = transform_length {
            directory.extend(base128(transform_length));
        }
        block.extend_from_slice(data);
    }
    let compressed = brotli_stored(&block);

    let header = &woff.woff_header;
    let mut out = Vec::new();
    out.extend_from_slice(b"wOF2");
    out.extend_from_slice(&header.flavor.to_be_bytes());
    out.extend_from_slice(&((48 + directory.len() + compressed.len()) as u32).to_be_bytes());
    out.extend_from_slice(&header.num_tables.to_be_bytes());
    out.extend_from_slice(&0u16.to_be_bytes()); // reserved
    out.extend_from_slice(&header.total_sfnt_size.to_be_bytes());
    out.extend_from_slice(&(compressed.len() as u32).to_be_bytes());
    out.extend_from_slice(&[0; 4]); // majorVersion, minorVersion
    out.extend_from_slice(&[0; 20]); // meta and private data offsets/lengths
    out.extend_from_slice(&directory);
    out.extend_from_slice(&compressed);
    out
}

fn load_woff2(data: &[u8]) -> Result<(), String> {
    let font_file = ReadScope::new(data)
        .read::<FontData<'_>>()
        .map_err(|err| err.to_string())?;
    font_file
        .table_provider(0)
        .map(drop)
        .map_err(|err| err.to_string())
}

/// C3: WOFF2 file with a transformed glyf table holding one simple glyph with one contour that
/// has zero points (nPoints stream = [0]) and no explicit bounding box.
///
/// Debug build: `n_points - 1` underflows in `compute_end_pts_of_contours`.
/// Release build: `BoundingBox::from_points` asserts on the empty list of points.
#[test]
fn repro_c3() {
    // Sanity check: the rebuilt WOFF2 file loads when the glyph has points
    assert_eq!(
        load_woff2(&woff2_with_glyf(&transformed_glyf(&[&[3]]))),
        Ok(())
    );

    let res = load_woff2(&woff2_with_glyf(&transformed_glyf(&[&[0]])));
    assert!(res.is_err(), "expected error, got {:?}", res);
}

/// C3 (second variant): nPoints stream = [1, 0]. The second contour is empty (endPtsOfContours =
/// [0, 0]) so this reaches the same assert as C1 via the WOFF2 glyf decoder, which does not go
/// through `SimpleGlyph::read_dep`.
#[test]
fn repro_c3b() {
    use allsorts::woff2::{TableDirectoryEntry, Woff2GlyfTable};

    let data = transformed_glyf(&[&[1, 0]]);
    let entry = TableDirectoryEntry {
        tag: tag::GLYF,
        offset: 0,
        orig_length: 0,
        transform_length: Some(data.len() as u32),
    };
    let loca = LocaTable::empty();
    let res = ReadScope::new(&data)
        .read_dep::<Woff2GlyfTable>((&entry, &loca))
        .and_then(|mut glyf| glyf.visit(0, &mut NullSink));
    assert!(res.is_err(), "expected error, got {:?}", res);
}

// -- Shaping helpers --

/// Build a GSUB table with one script (default language system only) that has a single `rvrn`
/// feature with one single substitution lookup mapping `glyph` to `glyph + 1`.
fn gsub_with_rvrn(script_tag: u32, glyph: u16) -> Vec<u8> {
    let mut gsub = Vec::new();
    let u16s = |gsub: &mut Vec<u8>, values: &[u16]| {
        for value in values {
            gsub.extend_from_slice(&value.to_be_bytes());
        }
    };
    // Header: version 1.0, ScriptList @ 10, FeatureList @ 30, LookupList @ 44
    u16s(&mut gsub, &[1, 0, 10, 30, 44]);
    // ScriptList: one script, Script table @ 8
    u16s(&mut gsub, &[1]);
    gsub.extend_from_slice(&script_tag.to_be_bytes());
    u16s(&mut gsub, &[8]);
    // Script: DefaultLangSys @ 4, no other LangSys
    u16s(&mut gsub, &[4, 0]);
    // LangSys: lookupOrder, requiredFeatureIndex = none, one feature: index 0
    u16s(&mut gsub, &[0, 0xFFFF, 1, 0]);
    // FeatureList: one feature, Feature table @ 8
    u16s(&mut gsub, &[1]);
    gsub.extend_from_slice(b"rvrn");
    u16s(&mut gsub, &[8]);
    // Feature: no params, one lookup: index 0
    u16s(&mut gsub, &[0, 1, 0]);
    // LookupList: one lookup @ 4
    u16s(&mut gsub, &[1, 4]);
    // Lookup: type 1 (single substitution), flags, one subtable @ 8
    u16s(&mut gsub, &[1, 0, 1, 8]);
    // SingleSubstFormat1: Coverage @ 6, deltaGlyphID = 1
    u16s(&mut gsub, &[1, 6, 1]);
    // Coverage format 1: one glyph
    u16s(&mut gsub, &[1, 1, glyph]);
    gsub
}

/// C4: shaping a complex script with a variation tuple when the font's GSUB table has an `rvrn`
/// feature that single-substitutes one of the glyphs. `rvrn` is applied before syllable matching
/// and marks the glyph `GlyphOrigin::Direct`, which made `SyllableChar::char` panic.
#[test]
fn repro_c4() {
    use allsorts::font::MatchingPresentation;
    use allsorts::gsub::{FeatureMask, Features};
    use allsorts::tables::variable_fonts::avar::AvarTable;
    use allsorts::tables::variable_fonts::fvar::FvarTable;
    use allsorts::Font;

    // A normalised variation tuple; obtained from the fvar table of a variable font
    let vf = std::fs::read("tests/fonts/opentype/NotoSans-VF.abc.ttf").unwrap();
    let vf_file = ReadScope::new(&vf).read::<FontData<'_>>().unwrap();
    let vf_provider = vf_file.table_provider(0).unwrap();
    let fvar_data = vf_provider.read_table_data(tag::FVAR).unwrap();
    let fvar = ReadScope::new(&fvar_data).read::<FvarTable<'_>>().unwrap();
    let avar_data = vf_provider.table_data(tag::AVAR).unwrap();
    let avar = avar_data
        .as_ref()
        .map(|data| ReadScope::new(data).read::<AvarTable<'_>>().unwrap());
    let user_tuple = fvar.axes().map(|axis| axis.max_value).collect::<Vec<_>>();
    let tuple = fvar
        .normalize(user_tuple.into_iter(), avar.as_ref())
        .unwrap();

    let cases = [
        (
            "tests/fonts/khmer/Battambang-Regular.ttf",
            "khmr",
            "\u{1780}\u{17B6}",
        ),
        (
            "tests/fonts/noto/NotoSansDevanagari-Regular.ttf",
            "deva",
            "\u{0915}\u{093F}",
        ),
        (
            "tests/fonts/myanmar/Padauk-Regular.ttf",
            "mymr",
            "\u{1000}\u{102C}",
        ),
    ];
    for (path, script, text) in cases {
        let script_tag = tag::from_string(script).unwrap();
        let buffer = std::fs::read(path).unwrap();
        let font_file = ReadScope::new(&buffer).read::<FontData<'_>>().unwrap();
        let provider = font_file.table_provider(0).unwrap();

        // Find the glyph of the first character so that rvrn can be made to substitute it
        let first_char = text.chars().next().unwrap();
        let unpatched = PatchedProvider {
            inner: &provider,
            tables: Vec::new(),
        };
        let (glyph, _) = Font::new(unpatched).unwrap().lookup_glyph_index(
            first_char,
            MatchingPresentation::NotRequired,
            None,
        );
        assert_ne!(glyph, 0);

        let patched = PatchedProvider {
            inner: &provider,
            tables: vec![(tag::GSUB, gsub_with_rvrn(script_tag, glyph))],
        };
        let mut font = Font::new(patched).unwrap();
        let glyphs = font.map_glyphs(text, script_tag, MatchingPresentation::NotRequired);
        assert_eq!(glyphs[0].glyph_index, glyph);
        let res = font.shape(
            glyphs,
            script_tag,
            None,
            &Features::Mask(FeatureMask::default()),
            Some(tuple.as_tuple()),
            true,
        );
        let infos = match res {
            Ok(infos) => infos,
            Err((err, _infos)) => panic!("{}: shaping failed: {}", path, err),
        };
        // rvrn was applied
        assert!(
            infos.iter().any(|info| info.glyph.glyph_index == glyph + 1),
            "{}: rvrn not applied",
            path
        );
    }
}

/// C4 (second variant): `RawGlyph` fields and `gsub::apply` are public so a glyph with
/// `GlyphOrigin::Direct` can be passed to the complex script shapers directly.
#[test]
fn repro_c4b() {
    use allsorts::font::MatchingPresentation;
    use allsorts::gsub::{FeatureMask, Features, GlyphOrigin};
    use allsorts::Font;

    let script_tag = tag::from_string("khmr").unwrap();
    let buffer = std::fs::read("tests/fonts/khmer/Battambang-Regular.ttf").unwrap();
    let font_file = ReadScope::new(&buffer).read::<FontData<'_>>().unwrap();
    let provider = font_file.table_provider(0).unwrap();
    let mut font = Font::new(provider).unwrap();
    let mut glyphs = font.map_glyphs(
        "\u{1780}\u{17B6}",
        script_tag,
        MatchingPresentation::NotRequired,
    );
    glyphs[0].glyph_origin = GlyphOrigin::Direct;
    let res = font.shape(
        glyphs,
        script_tag,
        None,
        &Features::Mask(FeatureMask::default()),
        None,
        true,
    );
    assert!(res.is_ok(), "shaping failed: {:?}", res.err().map(|e| e.0));
}

// -- morx helpers --

struct LigatureSubtableSpec {
    n_classes: u32,
    /// Class of each glyph, starting at glyph 0 (lookup table format 8)
    classes: Vec<u16>,
    /// State array: rows of `n_classes` entry indices
    states: Vec<Vec<u16>>,
    /// (nextStateIndex, entryFlags, ligActionIndex)
    entries: Vec<(u16, u16, u16)>,
    actions: Vec<u32>,
    components: Vec<u16>,
    ligatures: Vec<u16>,
}

/// Build a `morx` table with one chain holding one ligature subtable.
fn morx_with_ligature_subtable(spec: &LigatureSubtableSpec) -> Vec<u8> {
    fn u16s(out: &mut Vec<u8>, values: &[u16]) {
        for value in values {
            out.extend_from_slice(&value.to_be_bytes());
        }
    }
    fn u32s(out: &mut Vec<u8>, values: &[u32]) {
        for value in values {
            out.extend_from_slice(&value.to_be_bytes());
        }
    }

    let mut class_table = Vec::new();
    u16s(&mut class_table, &[8, 0, spec.classes.len() as u16]);
    u16s(&mut class_table, &spec.classes);
    let mut state_array = Vec::new();
    for row in &spec.states {
        assert_eq!(row.len(), spec.n_classes as usize);
        u16s(&mut state_array, row);
    }
    let mut entry_table = Vec::new();
    for (next_state, flags, action_index) in &spec.entries {
        u16s(&mut entry_table, &[*next_state, *flags, *action_index]);
    }
    let mut actions = Vec::new();
    u32s(&mut actions, &spec.actions);
    let mut components = Vec::new();
    u16s(&mut components, &spec.components);
    let mut ligatures = Vec::new();
    u16s(&mut ligatures, &spec.ligatures);

    let class_table_offset = 28;
    let state_array_offset = class_table_offset + class_table.len();
    let entry_table_offset = state_array_offset + state_array.len();
    let actions_offset = entry_table_offset + entry_table.len();
    let components_offset = actions_offset + actions.len();
    let ligatures_offset = components_offset + components.len();
    let mut body = Vec::new();
    u32s(
        &mut body,
        &[
            spec.n_classes,
            class_table_offset as u32,
            state_array_offset as u32,
            entry_table_offset as u32,
            actions_offset as u32,
            components_offset as u32,
            ligatures_offset as u32,
        ],
    );
    for part in [
        class_table,
        state_array,
        entry_table,
        actions,
        components,
        ligatures,
    ] {
        body.extend_from_slice(&part);
    }

    let subtable_length = 12 + body.len() as u32;
    let chain_length = 16 + subtable_length;
    let mut morx = Vec::new();
    u16s(&mut morx, &[2, 0]); // version, unused
    u32s(&mut morx, &[1]); // nChains
    u32s(&mut morx, &[1, chain_length, 0, 1]); // defaultFlags, chainLength, nFeatures, nSubtables
    u32s(&mut morx, &[subtable_length, 2, 1]); // length, coverage (ligature), subFeatureFlags
    morx.extend_from_slice(&body);
    morx
}

fn apply_morx(morx: &[u8], glyph_ids: &[u16]) -> Result<Vec<u16>, ParseError> {
    use allsorts::gsub::{FeatureMask, Features, GlyphOrigin, RawGlyph, RawGlyphFlags};
    use allsorts::tables::morx::MorxTable;
    use allsorts::tinyvec::tiny_vec;

    let table = ReadScope::new(morx).read_dep::<MorxTable<'_>>(64)?;
    let mut glyphs = glyph_ids
        .iter()
        .map(|&glyph_index| RawGlyph {
            unicodes: tiny_vec![[char; 1] => 'a'],
            glyph_index,
            liga_component_pos: 0,
            glyph_origin: GlyphOrigin::Char('a'),
            flags: RawGlyphFlags::empty(),
            variation: None,
            extra_data: (),
        })
        .collect::<Vec<_>>();
    allsorts::layout::morx::apply(&table, &mut glyphs, &Features::Mask(FeatureMask::default()))?;
    Ok(glyphs.iter().map(|glyph| glyph.glyph_index).collect())
}

/// C5: attempt to make the `glyphs.drain((start_pos + 1)..(end_pos + 1))` in the morx ligature
/// subtable processing panic. Runs random ligature state machines (SET_COMPONENT, DONT_ADVANCE
/// and PERFORM_ACTION in any combination; action lists with any mix of STORE and LAST) over
/// random glyph runs. No input was found that makes the drain range invalid.
#[test]
fn repro_c5() {
    const SET_COMPONENT: u16 = 0x8000;
    const DONT_ADVANCE: u16 = 0x4000;
    const PERFORM_ACTION: u16 = 0x2000;
    const LAST: u32 = 0x8000_0000;
    const STORE: u32 = 0x4000_0000;
    const N_GLYPHS: u16 = 8;
    // Large enough to be indexed by ligature glyphs that are pushed back on to the stack
    const N_COMPONENTS: u32 = 200;

    // Hand written case: two STORE actions then LAST, components pushed over several glyphs
    let spec = LigatureSubtableSpec {
        n_classes: 5,
        classes: vec![4; usize::from(N_GLYPHS)],
        states: vec![
            vec![0, 0, 0, 0, 1],
            vec![0, 0, 0, 0, 2],
            vec![0, 0, 0, 0, 3],
        ],
        entries: vec![
            (0, 0, 0),
            (1, SET_COMPONENT, 0),
            (2, SET_COMPONENT, 0),
            (1, SET_COMPONENT | PERFORM_ACTION, 0),
        ],
        actions: vec![STORE, STORE, LAST],
        components: vec![1; N_COMPONENTS as usize],
        ligatures: (100..164).collect(),
    };
    let morx = morx_with_ligature_subtable(&spec);
    assert_eq!(apply_morx(&morx, &[1, 2, 3, 4, 5, 6, 7]), Ok(vec![103]));

    // Random state machines
    let mut seed: u64 = 0x2545_F491_4F6C_DD1D;
    let mut rand = move |n: u32| -> u32 {
        seed ^= seed << 13;
        seed ^= seed >> 7;
        seed ^= seed << 17;
        ((seed >> 32) as u32) % n
    };
    let mut panics = std::collections::BTreeSet::new();
    let mut stores = 0;
    for _ in 0..20000 {
        let n_classes = 4 + rand(3);
        let n_states = 1 + rand(4);
        let n_entries = 2 + rand(6);
        let n_actions = 1 + rand(8);
        let mut actions = (0..n_actions)
            .map(|_| {
                let flags = match rand(4) {
                    0 => LAST,
                    1 => STORE,
                    2 => LAST | STORE,
                    _ => 0,
                };
                flags | rand(N_COMPONENTS - 164)
            })
            .collect::<Vec<_>>();
        // Always terminate the action list so that it can't run off the end
        *actions.last_mut().unwrap() |= LAST;
        let spec = LigatureSubtableSpec {
            n_classes,
            classes: (0..N_GLYPHS).map(|_| rand(n_classes) as u16).collect(),
            states: (0..n_states)
                .map(|_| (0..n_classes).map(|_| rand(n_entries) as u16).collect())
                .collect(),
            entries: (0..n_entries)
                .map(|_| {
                    let mut flags = 0;
                    for flag in [SET_COMPONENT, DONT_ADVANCE, PERFORM_ACTION] {
                        if rand(2) == 0 {
                            flags |= flag;
                        }
                    }
                    (rand(n_states) as u16, flags, rand(n_actions) as u16)
                })
                .collect(),
            actions,
            components: (0..N_COMPONENTS).map(|_| rand(4) as u16).collect(),
            ligatures: (100..164).collect(),
        };
        let morx = morx_with_ligature_subtable(&spec);
        let glyph_ids = (0..rand(12))
            .map(|_| rand(u32::from(N_GLYPHS) + 2) as u16)
            .collect::<Vec<_>>();
        match std::panic::catch_unwind(|| apply_morx(&morx, &glyph_ids)) {
            Ok(Ok(glyphs)) => {
                if glyphs.iter().any(|glyph| *glyph >= 100) {
                    stores += 1;
                }
            }
            Ok(Err(_)) => {}
            Err(payload) => {
                let message = payload
                    .downcast_ref::<String>()
                    .cloned()
                    .or_else(|| payload.downcast_ref::<&str>().map(|s| s.to_string()))
                    .unwrap_or_default();
                panics.insert(message);
            }
        }
    }
    // Make sure the state machines did get to substitute ligatures
    assert!(stores > 1000, "only {} runs stored a ligature", stores);
    assert!(panics.is_empty(), "panics: {:?}", panics);
}

/// Not one of C1-C5: found while auditing C5. A ligature entry whose ligActionIndex is beyond the
/// end of the ligature action table (or an action list without a LAST action) indexes
/// `actions[action_index]` out of bounds.
#[test]
fn extra_morx_action_index() {
    const SET_COMPONENT: u16 = 0x8000;
    const PERFORM_ACTION: u16 = 0x2000;
    let spec = LigatureSubtableSpec {
        n_classes: 5,
        classes: vec![4; 8],
        states: vec![vec![0, 0, 0, 0, 1]],
        entries: vec![(0, 0, 0), (0, SET_COMPONENT | PERFORM_ACTION, 0xFFFF)],
        actions: vec![0x8000_0000],
        components: vec![1; 8],
        ligatures: (100..164).collect(),
    };
    let morx = morx_with_ligature_subtable(&spec);
    let res = apply_morx(&morx, &[1]);
    assert!(res.is_err(), "expected error, got {:?}", res);
}

/// Not one of C1-C5: found while auditing C5. Component values that sum to more than u16::MAX
/// overflow `index_to_ligature` (panics when overflow checks are enabled, i.e. debug builds).
#[test]
fn extra_morx_ligature_index_overflow() {
    const SET_COMPONENT: u16 = 0x8000;
    const PERFORM_ACTION: u16 = 0x2000;
    let spec = LigatureSubtableSpec {
        n_classes: 5,
        classes: vec![4; 8],
        states: vec![vec![0, 0, 0, 0, 1], vec![0, 0, 0, 0, 2]],
        entries: vec![
            (0, 0, 0),
            (1, SET_COMPONENT, 0),
            (0, SET_COMPONENT | PERFORM_ACTION, 0),
        ],
        actions: vec![0, 0x8000_0000],
        components: vec![0xFFFF; 8],
        ligatures: (100..164).collect(),
    };
    let morx = morx_with_ligature_subtable(&spec);
    let res = apply_morx(&morx, &[1, 2]);
    assert!(res.is_err(), "expected error, got {:?}", res);
}
