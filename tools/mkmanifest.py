#!/usr/bin/env python3
"""Generates /verif/MANIFEST.json from the table below (single source of truth) and validates it."""
import json
import os
import sys

HERE = os.path.dirname(os.path.dirname(os.path.abspath(__file__)))

TB = ("trusted: rustc nightly MIR construction/type checking/const evaluation; the mirfacts fact export; the rule "
      "encodings and audited ledgers under /verif/ledger; std's documented contracts. Every run re-extracts facts from "
      "/repo's working tree (content-hashed cache) and re-validates the engine on the planted fixture.")

CHECKS = {
    "C14": dict(
        category="proof",
        technique="MIR dataflow/dominance rules + symbolic execution of straight-line kernels (rustc_private driver), const-eval of SIZE, compile_fail witnesses",
        text=("Proof by enumeration of structural obligations over the type-checked program: unsafe confinement, byte-exact "
              "primitive kernels, guard kernels, domination of every unchecked read by availability evidence of at least the "
              "callee's size, representation invariants (private fields, audited constructors, cursor writes), SIZE == bytes "
              "consumed for every instantiated type, index guards, checked length products and the two-nibble test of read_until_nibble. All obligations must be "
              "discharged; none may be audited away. This implies in-bounds, exact reads for every buffer and every operation "
              "sequence, which no finite set of tests reaches."),
        design_ref="DESIGN.md section 6, C14",
    ),
}

CHECKS["C11"] = dict(
    category="other",
    technique="table reading: rustc const-evaluated static initialisers and MIR match tables compared with a specification-derived oracle",
    text=("Static, exhaustive comparison of the WOFF2 decoder's constant tables with the W3C specification: all 128 triplet rows, "
          "63 known tags, 255UInt16 codes/offsets and UIntBase128 constants, read from the compiled program without running it. "
          "The two flag predicates of the transformed hmtx table test the specification's bits; UIntBase128 rejects a leading 0x80; the "
          "glyf reconstruction takes xMin from the decoded bounding box stream and writes loca in the format head announces; composite "
          "glyphs look for WE_HAVE_INSTRUCTIONS in the same place as the writer; the WOFF2 header and the transformed glyf table (seven "
          "sizes, eight streams) are read in the specified order; collection directory entries are UInt32/255UInt16 values. One known finding is reported on every run "
          "(KNOWN-FINDING line, exit 0): the rebuilt leftSideBearing[] array covers all glyphs instead of those past numberOfHMetrics. "
          "Decides a necessary condition of the property (a wrong row mis-decodes some conforming file); stream bookkeeping and "
          "reconstruction arithmetic are not decided. For a parsed glyph xMin is the stored bounding box: nothing that computes a box from points is reachable from x_min."),
    design_ref="DESIGN.md section 6, C11",
)

CHECKS["C18"] = dict(
    category="other",
    technique="table reading from MIR (const tables, match tables, dispatch switch) against a Type 2 oracle; call-graph SCC depth-guard rule; sibling agreement of visitor impls; forward path walk of each operator handler with comparison of linear forms against the specification's path construction",
    text=("Static decision of necessary structural clauses of Type 2 conformance: opcode constants, the three VisitOp tables "
          "(mutual inverses, spec mnemonics), dispatch exhaustiveness incl. the escape switch and the try_into().unwrap() domain, "
          "subroutine bias step function at all breakpoints, nesting/stack limits, bounded interpreter recursion on every cycle, and "
          "visitor implementations without catch-all arms; blend takes its ItemVariationData index from the charstring's vsindex, else the "
          "Private DICT's, and pairs region scalars and deltas position by position (no skip/step adaptor on either side of the zip); the hint mask is read with ceil(stems_len/8) bytes after the stems still on "
          "the stack were counted, on every path; CFF/CFF2 header layouts; an operand stack's limit never exceeds its array; the 17 path operator handlers "
          "(moveto, lineto, curveto families and the four flex operators) issue the drawing calls and leave the current point that the Type 2 specification gives, as linear "
          "forms in the current point and the operands, per segment of the handler (T18-PATH). Operand-stack depth is decided only through the audited indexing/arithmetic sites of C01; "
          "contour closing, seac composition and the blend arithmetic itself are not decided. In CFF2 instancing no write to a font's Private DICT or local subroutines reaches the interpretation of a charstring (R12-PDO); zips of reordered with unreordered sequences are rejected (T18-Z)."),
    design_ref="DESIGN.md section 6, C18",
)

CHECKS["C06"] = dict(
    category="other",
    technique="table reading: both Mac Roman match tables read from MIR (SwitchInt maps + range guards) and compared exhaustively; decision-list reading of the sub-table preference (probe constants evaluated by rustc) against the cmap specification's platform/encoding table; sibling agreement of lookup and enumeration on the format 4 kernel; dispatch exhaustiveness",
    text=("Static, exhaustive decision of 'the Mac Roman conversions are mutual inverses' (all 256 codes and every scalar value distinguished by "
          "either table); of the sub-table preference list (every probed (platform, encoding) pair means, by the specification, the Encoding it "
          "is returned as; full-repertoire before BMP; Unicode before Symbol/Mac Roman/Big5); and of the agreement between single lookups and "
          "enumeration for format 4 (one shared kernel fed with the raw segment values; the enumeration neither truncates or filters its segment iterator nor leaves "
          "its loops early) with every format listed in both dispatchers; the symbol PUA fallback tests U+F000..=U+F0FF inclusive; no unchecked "
          "lossy cast of a code or glyph id in the lookup code; cmap header layout. Format "
          "0/2/6/10/12 lookup arithmetic and Big5 (encoding_rs) are not decided. subHeaderKeys of cmap format 2 is never searched for a key (T06-SHK); binary searches only over ordered data (T06-BS)."),
    design_ref="DESIGN.md section 6, C06 and section 11",
)
CHECKS["C12"] = dict(
    category="other",
    technique="MIR dataflow/dominance rules on variations::instance (tag provenance through the filter closure, predicate reading, must-dominate), call-graph SCC depth-guard rule; decision-list reading of the region scalar function (forward path walk of MIR, exact rational evaluation of path conditions and result terms on a finite grid against the specification's function)",
    text=("Static decision of the clause 'a successful instance is a static font': no add_table of a variation tag (constant tags "
          "checked, dynamic tags must pass a filter that rejects is_var_table tags; the predicate itself is read and must match all "
          "seven variation tags), the CFF2 variation store is cleared before writing, the result comes from the single sfnt producer, "
          "the bounding-box recursion is depth-bounded, and tables that declare a record size (MVAR, fvar) are read with that size as the "
          "array stride; per-iteration scratch buffers are reset inside their loop; delta and point iterators are zipped without skip/step "
          "adaptors; the X and Y deltas of a gvar tuple are read as one packed stream of 2n deltas; the readers of HVAR, ItemVariationStore, fvar, gvar, MVAR, "
          "avar, STAT and cvar follow the specification's record layouts; each MVAR value tag varies the field the specification assigns to it; "
          "the per-axis region scalar (calculate_scalar), read from MIR as a decision list and evaluated in exact rational arithmetic on a grid that "
          "contains every ordering and tie of instance, start, peak and end, equals the specification's tent function, and the implied region of a tuple "
          "without intermediate coordinates is min(peak, 0) ..= max(peak, 0) (R12-TENT); an offset read by a reader is used to locate data or kept, not only range-checked (R-OFF). "
          "Delta accumulation, IUP interpolation, phantom points, HVAR/MVAR application and rounding are not decided."),
    design_ref="DESIGN.md section 6, C12",
)

CHECKS["C01"] = dict(
    category="other",
    technique="call-graph SCC depth-guard rule over the per-instance call graph; MIR dominance/provenance rules for every documented panic site, every element-indexing site (BoundsCheck / Index with usize) and every overflow-checked integer operation (MIR Overflow asserts, and the std operator impls and integer helpers that inherit the crate's overflow checks) with interval arithmetic over operand provenance, SSA-versioned guard matching and independently audited ledgers; origin classification of allocation sizes; guarded-divisor rule; loop progress witnesses",
    text=("Static decision of seven structural clauses of C01 over the whole crate: bounded recursion on every call-graph cycle; explicit panic "
          "discipline (every unwrap/expect/panic!/assert!/unreachable!/range slice/std argument-panic site); element indexing (constant or "
          "type-bounded index, dominating i < x.len() on the same receiver and value); overflow-checked arithmetic (every subtraction, and "
          "add/mul/neg/shift/div narrower than 64 bits: interval arithmetic, dominating comparison, non-emptiness, write-counter difference); "
          "allocation sizes bounded by the input; guarded division; loop progress. Arithmetic that is a call in MIR is a site too: std operator impls on integer "
          "references (`&u32 * u32`), abs / pow / next_power_of_two, integer sum / product, and divisions by a reference or through div_euclid / div_ceil. An audit whose "
          "reason leans on a boolean helper elsewhere can name it (relies_on); the helper is re-read on every run (C01-r). Each site is discharged by its rule, audited with a written "
          "reason from an independent review, or a violation; a new site in an audited function exceeds the key's count. Add/mul overflow in "
          "64-bit types, allocation failure, running time of terminating loops and decompression size are not decided. An audited index that leans on two collections having one length re-reads the builder of the collection on every run (one push per element on every path round the loop, or collected in one expression; C01-r parallel clause); a clamp whose bounds are computed is discharged when the function, read as a decision list, reaches no clamp with unordered bounds on a grid of all orderings of its scalar inputs."),
    design_ref="DESIGN.md sections 6 (C01) and 11.2",
)
CHECKS["C10"] = dict(
    category="other",
    technique="MIR provenance rule on the member index (copies only, total accessors only), closure-family comparison discipline of the tag finders, sibling agreement of FontTableProvider impls, kernel reading of the WOFF entry reader, panic ledger rule on the container layer",
    text=("Static decision of the selection discipline of the container layer: a member index reaches a total accessor unmodified, tables are "
          "selected by tag equality inside Iterator::find (order independent), has_table/table_data agree on their selector, the WOFF reader "
          "inflates exactly under comp_length != orig_length and reads (offset, comp_length) with no length-limiting adaptor on the inflater, "
          "member functions receive the caller's own index, every decision on the sfnt version lists 0x00010000, 'true' and 'OTTO', the offset table, WOFF/WOFF2 headers and collection records "
          "are read in the specifications' item order, the container kind follows the magic number alone, and no explicit panic is left in the layer — so an "
          "absent table or out-of-range member yields None/Err. Byte-for-byte equality of table data is not decided."),
    design_ref="DESIGN.md section 6, C10",
)
CHECKS["C13"] = dict(
    category="other",
    technique="MIR dominance rule for the length test, reaching-definitions must-pass-through of clamp(-1,1) on the pushed value, provenance of clamp bounds, guarded-divisor rule, ADT field visibility and constructor audit; decision-list reading of default_normalize (forward path walk, exact rational evaluation on a finite grid against the specification's function)",
    text=("Static decision of the structural clauses of C13: wrong-length tuples are rejected before anything is produced, every value pushed to "
          "the result is the direct result of clamp(-1, 1) on the 16.16 value, the default coordinate maps to the constant 0 and divisions happen only "
          "under a strict comparison with the default, the avar segment map compares only with table data, 16.16 products and quotients are formed in 64 bits, the font-supplied clamp bounds are ordered by construction, fixed-point division guards a "
          "zero divisor, and tuples cannot be forged; default_normalize, read from MIR as a decision list over the coordinate and the axis minimum, default and maximum and "
          "evaluated in exact rational arithmetic on a grid with every ordering and tie of the four (degenerate axes and out-of-range coordinates included), equals the "
          "specification's default normalisation (T13-NORM). One scan step of the avar segment map, read the same way, equals the specification (T13-SEG). Fixed-point rounding (one-unit accuracy) and monotonicity under rounding are not decided."),
    design_ref="DESIGN.md section 6, C13",
)
CHECKS["C16"] = dict(
    category="other",
    technique="call-graph SCC depth-guard rule on the glyf outline visitor (all OutlineSink instantiations); panic, element-indexing and overflow-arithmetic ledger rules on the outline module; table reading of the simple and composite glyph flag constants against the OpenType specification and of every flag predicate (self & X == X); decision-table reading of Contour::calculate_origin; must-pass-through and provenance rules on the simple glyph visitor; layout map from file order to matrix positions; sibling agreement of the two functions that place a component",
    text=("Static decision of the clause 'to a bounded nesting depth' (monotone depth counter, strict step and dominating bound test on every "
          "cycle through visit_outline/visit_composite_glyph_outline), of the panic/indexing/arithmetic discipline of the glyf outline code, and of "
          "two necessary table conditions of flag decoding: the six simple-glyph and twelve composite-glyph flag constants equal the specification "
          "and each predicate tests the constant it is named after; of composition: the accumulated transform reaches the components of a "
          "nested composite, the 2x2 transform entries reach the matrix in the specification's positions, outline and bounding box both honour "
          "SCALED_COMPONENT_OFFSET; and of contour walking: the start point and index range of a contour follow the on/off-curve decision table, "
          "the closing-edge look-ahead wraps modulo the contour length, every contour is one move_to..close sub-path, every point is "
          "transformed exactly once, a glyph taken out of a borrowed table is put back on every exit, every point of a contour produces a segment, component "
          "arguments are read signed/unsigned and 8/16-bit as the flags say and are used as an offset only under ARGS_ARE_XY_VALUES, in the outline visitor and in the calculated bounding box alike (T16-ARGXY). Coordinate decoding arithmetic and the numeric values of offsets and scales are not decided."),
    design_ref="DESIGN.md section 6 (C16) and 11.2",
)
CHECKS["C17"] = dict(
    category="other",
    technique="effect analysis: may-alias propagation of the character buffer's mutable capability through every callee reachable from preprocess_text, whitelist of stable permutation primitives and documented transformations, split-predicate reading from promoted constants, dispatch exhaustiveness",
    text=("Static decision of C17 as an effect discipline: every operation that can mutate the text buffer, transitively from preprocess_text, is a "
          "stable permutation primitive (for Default/Syriac/Arabic confined to a run delimited by NotReordered characters, on a &mut [char]) or "
          "one of the documented decompositions of its function fed by its named table or a constant; the dispatch lists every ScriptType; the "
          "modifier-combining-mark predicate is true exactly for the 14 marks of UTR #53; the Indic preprocessing steps run in their documented "
          "order; the NotReordered fast path ends below U+0300; the sort of a mark run is unconditional; the Bengali YA+NUKTA recomposition tests "
          "its two constants; the modified combining class table equals the documented one for every class in use; the Thai/Lao above-base "
          "mark predicate equals the documented set; the script-specific reordering functions sort on every path. That the comparator realises AMTRA and that the "
          "decomposition tables are the documented ones is not decided. Binary searches (binary_search*, partition_point) only over data ordered by the searched key: none in the preprocessing code today, a new one is reported until audited (T17-BS)."),
    design_ref="DESIGN.md section 6, C17",
)

CHECKS["C04"] = dict(
    category="other",
    technique="table reading from MIR (lookup type match table, lookup flag masks and decision order, reader dispatch agreement), container-type and who-may-touch rule on the lookup accumulators, CFG ordering rule for rvrn, enum-dispatch exhaustiveness, provenance of match positions from the flag-aware iterator, call-graph SCC depth-guard rule, forward path walk over the loop body with piecewise-linear comparison of counter updates",
    text=("Static decision of the structural clauses of C04: lookups of the enabled features are accumulated in a BTreeMap keyed by lookup index "
          "and consumed in key order (lookup-list order, each once), rvrn first; GSUB lookup type numbers, lookup flag masks and the IGNORE_MARKS "
          "precedence equal the specification; the reader builds the subtable type of each lookup kind; every dispatcher lists all seven kinds; "
          "positions inside a matched sequence come from the lookup-flag-aware iterator; nested lookups are depth bounded and receive the nested lookup's own match type; the three mark-skipping "
          "modes of match_glyph only ever reject marks; every FeatureMask flag has exactly one row, with its namesake tag, in the evaluated "
          "FEATURE_MASKS table; the readers of 23 OpenType Layout record types consume the specification's items in order, with their widths, "
          "into fields of the same meaning; feature-variation conditions test their range inclusively; after a multiple or ligature substitution "
          "the position and the bound of the run being processed move by what the substitution reports (T04-RUN, piecewise-linear comparison of the "
          "updates with the specification), in the top-level loop and in the change reported by a nested lookup. Glyph matching, "
          "context rule selection and the bookkeeping of context lookups are not decided. A feature variation record is passed over only after its condition set was evaluated (T04-FVR); the length returned by a window application of the fraction features is dropped only when no application follows (T04-FRAC); binary searches only over data the specification orders (T04-BS, audited sites)."),
    design_ref="DESIGN.md section 6, C04",
)

CHECKS["C02"] = dict(
    category="other",
    technique="RefCell typestate over the per-instance call graph (guard live ranges from MIR drops, transitive borrow summaries), call-graph SCC depth-guard rule, panic ledger and loop-progress rules on the shaping modules, MIR dominance/must-pass-through rules on Font::shape and the GSUB drivers, match-table domain agreement, element-indexing and overflow-arithmetic rules (as C01) restricted to the shaping modules, attachment-index provenance rule",
    text=("Static decision of the structural clauses of C02: bounded recursion, no conflicting RefCell borrow while a guard is alive (for every "
          "call sequence), explicit panic discipline and loop progress in the shaping modules, Font::shape never returns an error without the "
          "glyph run and records every fallible step, every Ok path of the GSUB drivers clamps glyph ids through replace_missing_glyphs, and "
          "the script tag tables of the Indic shaper agree, the lookup-cache sentinel exists, element indexing and overflow-checked arithmetic of "
          "the shaping modules are discharged or independently audited (rules C02-i, C02-o), and every attachment index stored in a Placement "
          "was bounds-checked against the glyph buffer when the placement was built (C02-f). That attributed characters belong to the input "
          "and that glyph ids are below the glyph count are not decided."),
    design_ref="DESIGN.md sections 6 (C02) and 11.2",
)

CHECKS["C03"] = dict(
    category="other",
    technique="memo-key completeness by intra-procedural provenance with closure-capture resolution (parameters used under the miss branch vs parameters in the key), narrowing-cast rule on keys, receiver-shape rule for the base-keyed ReadCache, must-dominate rule on LazyLoad slot stores, field-write audit of loader dependencies, forbidden-callee and RandomState-iteration audit over all call sites, statics table",
    text=("Static decision of history-independence as memo-key completeness for every cache of the crate (entry memos, the base-keyed ReadCache, the "
          "lookup caches, the dotted-circle GlyphCache, the LazyLoad slots of Font; a loader dependency is reset with its slot on every path; the remembered lookup-cache index is the "
          "length read before the push; no ReadScope is re-based from another scope's data() and sub-scopes carry base + offset; the dotted-circle cache is pinned to one "
          "character on both sides) and of run-to-run determinism as the absence of clock/env/"
          "thread/random callees, of unaudited iteration over RandomState-hashed containers and of mutable statics. Equality of values across "
          "histories as such, and determinism of third-party decompressors, are not decided."),
    design_ref="DESIGN.md section 6, C03",
)

CHECKS["C09"] = dict(
    category="other",
    technique="who-may-call and who-may-construct rules on the sfnt producer, MIR dominance chain for the pipeline order, provenance of the checkSumAdjustment value and of the directory record fields, container-type rule for tag order, same-origin rule for the loca format, store-after-serialise rule, narrowing rule on the assembly code",
    text=("Static decision of the writer pipeline behind C09: one producer of sfnt headers and directories; offset table, directory, padding, header "
          "checksum, checkSumAdjustment = 0xB1B0AFBA - (headers + tables), bodies — in that order on every path; each table padded before its "
          "checksum, records carrying the unpadded length and the running padded offset through checked conversions; tables kept and emitted "
          "in tag order; glyf, loca and head written with one loca format; the WOFF2 provider serialises head after its last modification; hmtx writers and hhea.numberOfHMetrics agree (the instancer sets "
          "it on every path); composite glyph reader and writer agree on where WE_HAVE_INSTRUCTIONS is looked for. "
          "Mutual consistency of table contents and the search-field values are not decided. Every table handed to the font builder is stored on every path to an Ok result (T09-ADD); the CFF header writers announce the size they write (C15-s); hhea.numberOfHMetrics of an instance is the number of long metrics of the hmtx that is written, or no source hmtx is passed through (T09-HHEA); the sfnt version of a written font is a constant or decided on both 'CFF ' and 'CFF2' (T09-MAGIC)."),
    design_ref="DESIGN.md section 6, C09",
)

CHECKS["C07"] = dict(
    category="other",
    technique="two-point (old/new id) provenance lattice over a frozen table of source-table and output sinks in the subsetter; field-use audit of the SubsetGlyphs implementations; id-space agreement between the used-subrs map and the FDSelect it is resolved through; sign dispatch of composite glyphs",
    text=("Static decision of the id-space discipline of the subsetter: every access to a source table (hmtx, glyf records, CFF/CFF2 charstrings, "
          "charset, FDSelect) is indexed by an operand whose provenance is an old id, every id stored into the output or passed to old_id is a "
          "new id, each SubsetGlyphs implementation answers old_id/new_id from the right map, the local-subr usage map handed to "
          "rebuild_local_subr_indices is keyed in the id space of the FDSelect it is looked up in, composite glyphs are recognised by the "
          "sign of numberOfContours, rebuilt subr INDEXes keep the source entry count (bias preserved), the FDSelect format 3 sentinel is the "
          "glyph count, the hmtx writer's long-metric count is the one stored in hhea, and the charstring operator tables used when CFF2 is "
          "converted to CFF are mutual inverses. Equality of outlines and metrics and CFF subroutine renumbering are not decided. Every composite record that reaches the TrueType subset went through add_glyph (T07-REMAP, edge-wise must-pass); the CFF header writers announce the size they write (C15-s); binary searches only over ordered data (T07-BS)."),
    design_ref="DESIGN.md section 6, C07",
)

CHECKS["C08"] = dict(
    category="other",
    technique="who-may-construct rule on the phantom-typed id-space marker, effect check that update_to_new_ids rewrites every value through new_id on the map it returns, signature rule on the cmap builders, comparison-discipline rule on the selection, exhaustive table reading of the Mac Roman tables, narrowing rule; compile_fail witness (thorough)",
    text=("Static decision of the id-space typestate behind C08 (MappingsToKeep<OldIds>/<NewIds> constructed in exactly two functions, every value "
          "translated through new_id, cmap builders accept only new ids), of the order-independent selection of mappings, of the mutual "
          "inverseness of the Mac Roman tables, and of the absence of unchecked narrowing of ids and codes in the cmap builders; the requested cmap target reaches the selection unchanged; "
          "format 4 adds idDelta only to non-zero glyphIdArray values. That the "
          "emitted sub-tables map each character to the right glyph is not decided. subHeaderKeys is never searched for a key (T06-SHK); binary searches only over ordered data (T08-BS)."),
    design_ref="DESIGN.md section 6, C08",
)
CHECKS["C15"] = dict(
    category="other",
    technique="layout-trace extraction from MIR along the success path of every reader/writer pair (incl. tagged codecs paired by tag constant) and position-wise comparison of width, field and constants; kernel reading of the primitive codecs; narrowing rule with an independently audited ledger; must-pass-through rule for placeholders; provenance rule for position-derived placeholder values",
    text=("Static decision of necessary structural conditions of round-tripping: primitive codec widths equal their readers' SIZE; for 38 "
          "reader/writer pairs and tagged arms (head, hhea, maxp 0.5/1.0, name, post header, hmtx, cvt, loca format, cmap formats 0/4/6/10/12, "
          "CFF headers/ranges/charsets/encodings/FDSelect, variation store records, glyf bounding box and glyph headers) the item sequences "
          "agree in width, field and constants; no unchecked lossy cast remains in writer code; every placeholder is filled on every Ok path; "
          "position-derived offsets are relative; the CFF INDEX offSize is the specification's decision table applied to the largest "
          "offset actually written; a writer does not emit a computing accessor where the reader stored the raw item; the CFF integer "
          "operand ranges of the writers equal the specification; composite glyph reader and writer agree on the instruction flag; the readers of head, hhea, maxp, post, OS/2 and the CFF headers "
          "follow the specification's item order; the OS/2 size threshold matches the bytes consumed. Equality of values, and data-dependent layouts beyond the compared prefix, are not decided. The CFF / CFF2 header writers announce a constant header size equal to the bytes they write (C15-s); a writer never zips a sequence whose collection was reordered in place with one that was not (C15-z); the version the OS/2 writer announces follows from the optional parts it writes (C15-v)."),
    design_ref="DESIGN.md section 6, C15",
)

CHECKS["C05"] = dict(
    category="other",
    technique="table reading from MIR (GPOS lookup type match table, ValueFormat bit predicates), reader dispatch agreement, conditional layout trace of ValueRecord::read_dep (predicate order, read width, destination field), enum-dispatch exhaustiveness, provenance of the nested lookup position",
    text=("Every numeric clause of C05 is a value property and is not decided. Decided are necessary structural conditions: GPOS lookup type "
          "numbers 1-9 select the specification's lookup kinds; each kind is parsed by its own subtable reader; ValueFormat predicates test the "
          "specification's bits; a ValueRecord is consumed in the specification's field order with each value landing in the Adjust field of the "
          "same meaning; both dispatchers list every PosLookup kind; nested lookups are applied at the position found by the flag-aware iterator; the base of a nested MarkToBase/MarkToLigature is "
          "found ignoring marks; cursive adjustment precedes mark positioning; the lookup indices of a feature are sorted before they are "
          "applied; mark-skipping modes only reject marks; layout record and kern class table readers follow the specification's item order; a ClassDef class value "
          "is never tested against a constant (class 0 is a class). Every store to Info::kerning in the GPOS code accumulates onto the value the glyph already carries (T05-ACC); the lookup-flag decision table is checked here too (T04-FLAG); binary searches only over ordered data (T05-BS)."),
    design_ref="DESIGN.md section 11 (C05 was listed as not applicable in section 7; the table clauses were added later)",
)

NOT_APPLICABLE = {
    "C05": "every clause is a numeric relation between table contents and output values; the structural parts (termination, borrow and panic discipline, attachment index validation) are decided under C02; no GPOS-specific clause is visible in the shape of the code",
}

PENDING_REASON = "not claimed at this commit: the static rule for this property is not yet built and validated both ways (see DESIGN.md section 10); listed here until its check is registered"

ALL = ["C%02d" % i for i in range(1, 19)]


def main():
    checks = []
    for pid in ALL:
        if pid not in CHECKS:
            continue
        c = CHECKS[pid]
        checks.append({
            "property_id": pid,
            "quick_cmd": "./vf check %s --tier quick" % pid,
            "thorough_cmd": "./vf check %s --tier thorough" % pid,
            "evidence_file": "/verif/evidence/%s.json" % pid,
            "replay_cmd_template": "./vf explain {path}",
            "engine": "mirfacts+rules",
            "level_claimed": {"category": c["category"], "text": c["text"], "design_ref": c["design_ref"]},
            "level_note": c.get("note", TB),
            "technique": c["technique"],
        })
    na = []
    for pid in ALL:
        if pid in CHECKS:
            continue
        na.append({"property_id": pid, "reason": NOT_APPLICABLE.get(pid, PENDING_REASON)})
    m = {
        "version": 1,
        "setup_cmd": "./vf setup",
        "hooks": {
            "guard": "none (static analysis of the unmodified source; no hooks or instrumentation were added to /repo)",
            "enable": "n/a — checks run `cargo +nightly check` on /repo's working tree through the mirfacts RUSTC_WORKSPACE_WRAPPER; nothing in /repo is switched on",
            "baseline_off_cmd": "cd /repo && cargo test --workspace --no-fail-fast --offline",
            "source_commits": [],
            "add_only": True,
        },
        "engines": [
            {"name": "mirfacts", "path": "/verif/engine/mirfacts", "serves_properties": sorted(CHECKS),
             "kind_free_text": "rustc_private driver (nightly) exporting structured MIR, type tables, evaluated consts/statics and a per-instance call graph as JSON facts"},
            {"name": "rules", "path": "/verif/engine/rules", "serves_properties": sorted(CHECKS),
             "kind_free_text": "python3 (stdlib only) rule library: dominators, provenance slices, guard recognition, symbolic execution of straight-line kernels, ledgers, known findings, evidence"},
            {"name": "planted", "path": "/verif/fixtures/planted", "serves_properties": sorted(CHECKS),
             "kind_free_text": "fixture crate with one planted violation and a conforming twin per rule, analysed on every run by the same rule code"},
        ],
        "checks": checks,
        "not_applicable": na,
        "notes": ("Static analysis only: no registered command executes allsorts code. Genuine defects found by the rules are either "
                  "repaired by `fix:` commits in /repo or listed in /verif/known_findings.txt (see DESIGN.md section 11.3: 93 repaired, one known finding)."),
    }
    with open(os.path.join(HERE, "MANIFEST.json"), "w") as fh:
        json.dump(m, fh, indent=1)
    try:
        import jsonschema
        jsonschema.validate(m, json.load(open("/root/.vp/MANIFEST.schema.json")))
        print("MANIFEST.json valid; %d checks, %d not_applicable" % (len(checks), len(na)))
    except ImportError:
        print("MANIFEST.json written (jsonschema not importable here; validate with python3-vt)")


if __name__ == "__main__":
    sys.exit(main())
